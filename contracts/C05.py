"""C05 -- promolecule density is a sum of spherical atoms; stockholder weights are shares.

Anchors: chmpy/interpolate/density.py (Python wrappers), chmpy/interpolate/_density.pyx (Cython kernel, de-cythonised mechanically on every
run by contracts/c05_decython.py and executed symbolically), chmpy/interpolate/thakkar_interp.npz (the table, exact ground evaluation).

Oracle (DESIGN section 6):  rho(p) = sum_a T_{Z_a}(|p - a|^2 / b^2),  b = 0.5291772108 A,  T_Z = piecewise-linear interpolant of row Z-1 on
the squared-distance grid (cell index = floor of the normalised coordinate, flat below the second knot and beyond the last);
w = rho_A / (rho_A + rho_B + bg).

Structure of the argument (modular, callers see only callee contracts):
  interp_f / interp_f_one   P  body == T (three regimes), memoryview indices in range (boundscheck=False!), t within [-eps, 1+eps] on the real grid
  evaluate_rho / rho        P  contract of interp_f + loop invariant  rho_view[j] == S(k, j)  (classical rule, ANY number of atoms);  S(k+1,j) = S(k,j) + T(k,j)
  one_rho                   P  same with interp_f_one
  weights / one_weight      P  == rho_A/(rho_A+rho_B+bg); in [0,1]; complementary weights sum to 1 without background
  density.py wrappers       P  rows bound to atoms (Z -> row Z-1, no wrap), arguments reach the kernel unchanged, constructor rejects Z outside 1..103
  table                     G  all 103 x 4096 entries: positive, 0.12 <= y[j+1]/y[j] < 1, knots within 1e-3 cells of uniform
  algebra                   L  positivity of the interpolant, additivity / adjacent-swap / rigid-motion invariance of the spec sum (induction steps)
  prange / point loops      F  iteration i touches only cell i
  compiled binary           B  conformance of the real classes with the float64 oracle (the .so cannot be rebuilt from the .pyx here)
"""
import ast
import hashlib
import os
import time
from fractions import Fraction

import numpy as np
import z3

from pyvc import source
from pyvc.api import Contract, LoopInv, NDArr, Obj, conj, farr
from pyvc.symex import ClassVal, FuncVal, ModelFn
from pyvc.values import b_and, is_sym, num_cmp, to_real, z

from contracts.c05_decython import ExtractError, PyxModule, embedded_pyx_lines
from contracts import c05_native as nat

DMOD = "chmpy.interpolate.density"
KMOD = "chmpy.interpolate._density"
B2 = Fraction("0.5291772108") ** 2
EPS = Fraction(1, 1000)         # knot non-uniformity bound used by the positivity argument (measured max 5.3e-4, G obligation)
RATIO_LO = Fraction(12, 100)

HARNESS = '''
class MemView:
    """read-only typed memoryview of symbolic extent: cell (i, j, ..) is an uninterpreted function of its indices"""
    def __getitem__(self, idx):
        return mv_get(self, idx)
'''


def native(f):
    f._pyvc_native = True
    return f


def cover(ctx, ident, hyps, timeout_ms=4000):
    """Vacuity guard: the hypotheses of a family of obligations must be satisfiable (else every obligation under them is vacuous -> checker error, exit 3)."""
    sv = z3.Solver()
    sv.set("timeout", timeout_ms)
    for h in hyps:
        sv.add(z(h))
    r = sv.check()
    ctx._covers = getattr(ctx, "_covers", {"sat": 0, "unknown": 0})
    if r == z3.unsat:
        ctx.checker_errors.append(f"vacuous hypotheses for {ident}")
        ctx.notes.append(f"VACUOUS: hypotheses of {ident} are unsatisfiable")
    else:
        ctx._covers["sat" if r == z3.sat else "unknown"] += 1


def consts_of(t, acc=None):
    """uninterpreted constants occurring in a term"""
    acc = set() if acc is None else acc
    todo, done = [t], set()
    while todo:
        u = todo.pop()
        if u.get_id() in done:
            continue
        done.add(u.get_id())
        if z3.is_const(u) and u.decl().kind() == z3.Z3_OP_UNINTERPRETED:
            acc.add(u)
        elif z3.is_app(u):
            todo.extend(u.children())
        elif z3.is_quantifier(u):
            todo.append(u.body())
    return acc


def symbols_of(t):
    """uninterpreted constants AND function symbols occurring in a term (by name)"""
    out, todo, done = set(), [t], set()
    while todo:
        u = todo.pop()
        if u.get_id() in done:
            continue
        done.add(u.get_id())
        if z3.is_app(u):
            if u.decl().kind() == z3.Z3_OP_UNINTERPRETED:
                out.add(u.decl().name())
            todo.extend(u.children())
        elif z3.is_quantifier(u):
            todo.append(u.body())
    return out


def cone(hyps, goal):
    """Cone of influence: the hypotheses connected to the goal through shared uninterpreted symbols.  The dropped hypotheses share no symbol with the kept ones, so (being
    satisfiable -- see the vacuity covers) they neither help a proof nor invalidate a counter-model; the query just gets smaller."""
    hs = [(z(h), symbols_of(z(h))) for h in hyps if is_sym(h) or isinstance(h, bool)]
    reach = symbols_of(z(goal))
    keep = [False] * len(hs)
    changed = True
    while changed:
        changed = False
        for k, (h, sy_) in enumerate(hs):
            if not keep[k] and (sy_ & reach):
                keep[k] = True
                reach |= sy_
                changed = True
    return [h for k, (h, _) in enumerate(hs) if keep[k]]


def regime_label(r, cints, sy):
    """Name an interpolation path by the regime its path condition implies for the truncated index (stable under reordering of the branches)."""
    if not cints:
        return path_label(r)[4:]
    jv = cints[0][0]
    for name, goal in (("_low", jv <= 0), ("_high", jv >= sy.n - 1), ("_interior", z3.And(jv >= 1, jv <= sy.n - 2))):
        sv = z3.Solver()
        sv.set("timeout", 2000)
        sv.add(*[z(c) for c in r.pc])
        sv.add(z3.Not(goal))
        if sv.check() == z3.unsat:
            return name
    return path_label(r)[4:]


def kind_labels(res):
    """{id(result): label}: paths named by their outcome ('returns', 'raises'), numbered only when an outcome has several paths."""
    out, by = {}, {}
    for r in res:
        by.setdefault(r.kind, []).append(r)
    for kind, rs in by.items():
        nm = {"return": "returns", "raise": "raises"}.get(kind, kind)
        for k, r in enumerate(rs):
            out[id(r)] = nm if len(rs) == 1 else f"{nm}{k}"
    return out


def path_label(r):
    """Stable name of a path: its branch decisions (T/F), independent of exploration order and of line numbers."""
    return "path" + ("".join("T" if d is True else "F" if d is False else str(d) for d in r.decisions) or "0")


class Sym:
    """Symbols of the kernel-level specification."""

    def __init__(self):
        Int, Real = z3.IntSort(), z3.RealSort()
        self.n = z3.Int("n_knots")
        self.X = z3.Function("X", Int, Real)                 # knots
        self.Y = z3.Function("Y", Int, Int, Real)            # Y(atom row, knot)
        self.A = z3.Function("A", Int, Int, Real)            # atom coordinates A(i, c)
        self.N = z3.Int("n_atoms")
        self.TT = z3.Function("T_batch", Int, Int, Real)     # T_i(|p_j - a_i|^2/b^2), batch path
        self.T1 = z3.Function("T_single", Int, Real)         # same at the single point q, single-point path
        self.S = z3.Function("S_batch", Int, Int, Real)      # sum of the first k atoms at point j
        self.S1 = z3.Function("S_single", Int, Real)
        self.inv = 1 / (self.X(1) - self.X(0))

    def s_of(self, x):
        return (x - self.X(0)) * self.inv        # (x - x0)/dx written with the reciprocal, as one real number

    def T_spec(self, row, x, high_zero=False):
        """The oracle T for row `row` (term) at squared distance x (term)."""
        s = self.s_of(x)
        m = z3.ToInt(s)
        t = (x - self.X(m)) * self.inv
        mid = (1 - t) * self.Y(row, m) + t * self.Y(row, m + 1)
        return z3.If(s < 1, self.Y(row, 0), z3.If(s >= z3.ToReal(self.n - 1), z3.RealVal(0) if high_zero else self.Y(row, self.n - 1), mid))

    def r2(self, p, i):
        """|p - a_i|^2 / b^2 for a point given by three terms."""
        return sum((p[c] - self.A(i, c)) * (p[c] - self.A(i, c)) for c in range(3)) / z(B2)


def build(ctx):
    t_start = time.time()
    ctx.level = "other"
    ctx.explanation = (
        "P: VCs generated by the symbolic executor from the REAL sources -- density.py directly, _density.pyx through a mechanical de-cythoniser re-run on every check "
        "(typed memoryviews become read-only arrays of SYMBOLIC extent whose every index must be proved in range; the atom loop is handled by the classical invariant rule, so "
        "rho == sum of per-atom interpolants holds for ANY number of atoms and any table): interpolation regimes == oracle T, t in [-eps,1+eps], squared-distance/bohr "
        "conversion, row i used for atom i, accumulation, weight formula, weight in [0,1], complementary weights sum to 1, Z -> row Z-1 without wrap, arguments forwarded unchanged. "
        "G: exact evaluation over all 103x4096 table entries (positive, monotone ratio in [0.12,1), knots uniform within 1e-3 cell). "
        "L: algebra over the spec functions (positivity of the interpolant, induction steps for additivity and adjacent swaps, |R d|^2 = |d|^2 by certificate). "
        "F: prange/point-loop iterations touch only their own cell. "
        "B (NOT proved): the compiled kernel cannot be rebuilt from the .pyx here, so everything about the BINARY that runs -- agreement with the oracle for Z=1..103 and "
        "multi-atom systems, positivity, additivity, order and rigid-motion invariance, weights, the single-point path through the root finders -- is a run-time contract on "
        "seeded bounded domains with float32-derived tolerances.  The step from the per-atom/per-swap lemmas to arbitrary partitions/permutations is induction (cited).")
    ctx.assumptions += [
        "floats (float32 kernel, float64 wrappers) are mathematical reals in P/L obligations",
        "Cython 3 / gcc implement the de-cythonised semantics (typed memoryview indexing without bounds check, <int> truncation toward zero, prange = range when iterations are independent); "
        "the .so was built from the .c next to it",
        "numpy model: a[i, :] = b[k, :] copies row k cell by cell; asarray/astype(float32) keep values (floats as reals)",
        "induction over the naturals (loop rule soundness; lemmas proved as base + step); every permutation is a product of adjacent transpositions",
        "domain of the statement: at least one atom per set, evaluation points at least 0.3 A from every nucleus, background >= 0",
    ]
    tab = nat.Table()
    ctx.notes.append(f"table {tab.path}: sha256 {hashlib.sha256(open(tab.path, 'rb').read()).hexdigest()}")
    table_obligations(ctx, tab)

    # ---- extraction of the kernel ------------------------------------------------------------------------------------------
    state = {}

    def extract():
        state["pyx"] = PyxModule(KMOD)
        return state["pyx"]
    try:
        pyx = extract()
    except (ExtractError, SyntaxError, OSError) as e:
        ctx.attempt("_density/extract", lambda: (_ for _ in ()).throw(RuntimeError(f"de-cythoniser: {e}")))
        pyx = None
    if pyx is not None:
        skew_note(ctx, pyx)
        kernel_obligations(ctx, pyx, tab)
    lemmas(ctx)
    wrapper_obligations(ctx, pyx)
    # ---- bounded run-time contracts on the compiled classes -------------------------------------------------------------------
    t0 = time.time()
    xyz_files_standin(ctx)
    for b in nat.bounded_checks(tab, ctx.seed, ctx.tier):
        ctx.add_bounded(b["ident"], b["domain"], b["evaluations"], b["distinct"], b["failures"], rule=b["rule"],
                        samples=[{"id": "C05/" + b["ident"], "tag": "B", "domain": b["domain"][:300], "evaluations": b["evaluations"], "failures": len(b["failures"])}])
    ctx.notes.append(f"bounded stand-ins took {time.time() - t0:.1f}s; obligation generation {time.time() - t_start:.1f}s")
    cv = getattr(ctx, "_covers", {})
    ctx.notes.append(f"vacuity covers: {cv.get('sat', 0)} hypothesis sets satisfiable, {cv.get('unknown', 0)} undetermined, "
                     f"{sum(1 for e in ctx.checker_errors if str(e).startswith('vacuous'))} vacuous")
    ctx.notes.append("outside the statement (reported, not a violation): the single-point path interp_f_one fills 0 beyond the last knot while the batch path fills the last "
                     "tabulated value (<= 1.4e-8 a.u., G obligation table/tail_small); consequently StockholderWeight.one_weight evaluates 0/0 at points farther than "
                     f"{np.sqrt(tab.X[-1]) * nat.BOHR:.2f} A from every atom (Cython prints 'ZeroDivisionError ... ignored' and the root finder sees weight 0 there).")


# ============================================================================================================================
def table_obligations(ctx, tab):
    """G: exact evaluation over the complete table."""
    t0 = time.time()
    X32, R32 = tab.domain32, tab.rho32
    ok_shape = X32.dtype == np.float32 and R32.dtype == np.float32 and X32.ndim == 1 and R32.shape == (103, X32.shape[0]) and X32.shape[0] >= 3
    ctx.ground("thakkar_interp/table/shape", bool(ok_shape), clause="domain is float32 (n,), rho is float32 (103, n), n >= 3 (one row per Z = 1..103)",
               detail={"domain": list(X32.shape), "rho": list(R32.shape)}, witness={"domain": list(X32.shape), "rho": list(R32.shape)})
    if not ok_shape:
        return
    R = tab.R
    pos = bool(np.all(np.isfinite(R)) and np.all(R > 0))
    w = np.argwhere(~(R > 0))
    ctx.ground("thakkar_interp/table/positive", pos, clause="every tabulated density value is finite and > 0 (103 x n entries)",
               detail={"entries": int(R.size), "min": float(R.min())}, witness={"first_bad": w[0].tolist() if len(w) else None})
    # 0.12 * y[j] <= y[j+1] < y[j]  decided exactly: 25*y[j+1] >= 3*y[j] (products of a float32 by 25 / 3 are exact in float64)
    lo = 25.0 * R[:, 1:] >= 3.0 * R[:, :-1]
    hi = R[:, 1:] < R[:, :-1]
    w = np.argwhere(~(lo & hi))
    ctx.ground("thakkar_interp/table/monotone_ratio", bool(lo.all() and hi.all()), clause="0.12 <= y[j+1]/y[j] < 1 for every row and every cell (strictly decreasing, bounded steepness)",
               detail={"min_ratio": float((R[:, 1:] / R[:, :-1]).min()), "max_ratio": float((R[:, 1:] / R[:, :-1]).max())}, witness={"first_bad": w[0].tolist() if len(w) else None})
    # knots: exact rational arithmetic
    Xq = [Fraction(float(v)) for v in tab.X]
    dxq = Xq[1] - Xq[0]
    devs = [abs((Xq[j] - Xq[0]) / dxq - j) for j in range(len(Xq))] if dxq > 0 else [Fraction(1)]
    mdev = max(devs)
    ctx.ground("thakkar_interp/table/uniform_knots", dxq > 0 and mdev <= EPS,
               clause="x[1] > x[0] and every knot lies within 1e-3 cell of x[0] + j*(x[1]-x[0])  (|(x[j]-x[0])/(x[1]-x[0]) - j| <= 1e-3, exact rationals)",
               detail={"knots": len(Xq), "max_deviation_cells": float(mdev), "x0": float(Xq[0]), "dx": float(dxq), "x_last": float(Xq[-1])},
               witness={"worst_knot": int(np.argmax([float(d) for d in devs]))})
    ctx.ground("thakkar_interp/table/first_knot_near_zero", Xq[0] >= 0 and Xq[0] <= dxq, clause="0 <= x[0] <= x[1] - x[0]: the grid starts within one cell of squared distance zero",
               detail={"x0": float(Xq[0]), "dx": float(dxq)}, witness={"x0": float(Xq[0]), "dx": float(dxq)})
    tail = float(R[:, -1].max())
    ctx.ground("thakkar_interp/table/tail_small", tail <= 1.4e-8, clause="the last tabulated value of every row is <= 1.4e-8 a.u. (size of the batch/single-point fill difference)",
               detail={"max_last_value": tail}, witness={"max_last_value": tail})
    flat_r = float(np.sqrt(tab.X[1]) * nat.BOHR)
    ctx.ground("thakkar_interp/table/flat_zone_inside_exclusion", flat_r < 0.3, clause="the flat zone below the second knot (r < sqrt(x[1]) b) lies inside the 0.3 A exclusion radius of the statement",
               detail={"flat_radius_A": flat_r}, witness={"flat_radius_A": flat_r})
    # rows are in element order: the number of electrons of row Z outside the first knot, N_Z = integral 4 pi r^2 rho_Z(r) dr over r = sqrt(x[j]) (trapezoid rule),
    # is strictly increasing in Z and below Z — an independent physical reading of the data (a row filed under the wrong element breaks it)
    rr = np.sqrt(np.asarray(tab.X, dtype=float))
    Ns = [float(np.sum(0.5 * (4 * np.pi * rr[1:] ** 2 * R[k, 1:] + 4 * np.pi * rr[:-1] ** 2 * R[k, :-1]) * np.diff(rr))) for k in range(103)]
    bad_rows = [k + 1 for k in range(102) if not Ns[k] < Ns[k + 1]] + [k + 1 for k in range(103) if not (0.55 * (k + 1) < Ns[k] <= (k + 1) * 1.001)]
    ctx.ground("thakkar_interp/table/rows_in_element_order", not bad_rows, clause="the electron count of row Z outside the first knot is strictly increasing with Z and lies in (0.55 Z, Z]",
               detail={"N_1": Ns[0], "N_6": Ns[5], "N_103": Ns[102]}, witness={"rows_out_of_order": bad_rows[:6], "N": [round(Ns[k - 1], 3) for k in bad_rows[:6]]})
    ctx.notes.append(f"table obligations {time.time() - t0:.1f}s")


def skew_note(ctx, pyx):
    cpath = pyx.path[:-4] + ".c"
    if not os.path.exists(cpath) and os.environ.get("CHMPY_VERIF_REPO"):
        # scratch worktrees get the compiled modules copied from /repo (tools/mkworktree.sh) but not the generated C files
        cpath = os.path.join("/repo/src", KMOD.replace(".", "/") + ".c")
    if not os.path.exists(cpath):
        ctx.notes.append("source/binary skew check: generated C file not found")
        return
    emb = embedded_pyx_lines(cpath, os.path.basename(pyx.path))
    bad = [k for k, v in emb.items() if k > len(pyx.pyx_lines) or v.rstrip() != pyx.pyx_lines[k - 1].rstrip()]
    if bad:
        ctx.notes.append(f"SOURCE/BINARY SKEW: {len(bad)} of {len(emb)} .pyx lines embedded in {os.path.basename(cpath)} differ from the working-tree .pyx (first: line {min(bad)}); "
                         "P obligations speak about the source, B stand-ins about the stale binary")
    else:
        ctx.notes.append(f"source/binary skew check: all {len(emb)} .pyx lines embedded in {os.path.basename(cpath)} match the working-tree .pyx")


# ============================================================================================================================
class Kernel:
    """Interpreter set-up shared by the kernel obligations: harness natives, memoryviews, contracts."""

    def __init__(self, ctx, pyx, M=1):
        self.ctx, self.pyx, self.M = ctx, pyx, M
        self.sy = Sym()
        sy = self.sy
        self.hm = source.ModuleSrc("contracts.c05_harness", "<harness>", HARNESS, ast.parse(HARNESS))
        self.P = [[z3.Real(f"p{j}_{c}") for c in range(3)] for j in range(M)]        # evaluation points (batch)
        self.Q = [z3.Real(f"q_{c}") for c in range(3)]                                # the single point
        self.cints = []
        self.req_log = []
        kq = KMOD + "."
        self.I = ctx.interp(contracts={kq + "interp_f": Contract(requires=self.req_interp_f, result=self.res_interp_f),
                                       kq + "interp_f_one": Contract(requires=self.req_interp_one, result=self.res_interp_one)},
                            loop_invs={(kq + "PromoleculeDensity.evaluate_rho", "for", 0): LoopInv(self.inv_batch, ["i", "j", "pos", "tmp_view", "r_view", "rho_view"], self.havoc),
                                       (kq + "PromoleculeDensity.one_rho", "for", 0): LoopInv(self.inv_single, ["i", "col", "r", "diff", "rho"], self.havoc)})
        I = self.I
        self.MV = ClassVal(self.hm, self.hm.classes["MemView"])

        @native
        def mv_get(o, idx):
            idx = idx if isinstance(idx, tuple) else (idx,)
            shape = o.fields["shape"]
            if len(idx) > len(shape):
                from pyvc.values import PyRaise
                raise PyRaise("IndexError", "too many indices for memoryview")
            for k, (i, nn) in enumerate(zip(idx, shape)):
                I.oblige("index", b_and(num_cmp("<=", 0, i), num_cmp("<", i, nn)),
                         f"memoryview {o.fields['name']} axis {k}: index within the extent (boundscheck=False, wraparound=False: anything else is undefined behaviour)")
            pre = o.fields["prefix"] + tuple(idx)
            if len(idx) == len(shape):
                return o.fields["fn"](*pre)
            return Obj(self.MV, {"shape": tuple(shape[len(idx):]), "fn": o.fields["fn"], "prefix": pre, "name": o.fields["name"]})

        @native
        def c_int(x):
            """<int>(x): truncation toward zero, as a fresh Int with its defining linear constraints."""
            if not is_sym(x):
                return int(x)
            jv = I.fresh("int", "cint")
            xr = to_real(x)
            note = "<int>(float): the truncated value must be representable in a C int (otherwise the conversion is undefined behaviour; x86 yields INT_MIN)"
            I.oblige("cast-lower", xr > -(2 ** 31) - 1, note)
            I.oblige("cast-upper", xr < 2 ** 31, note)
            I.assume(z3.If(xr >= 0, z3.And(z3.ToReal(jv) <= xr, xr < z3.ToReal(jv) + 1), z3.And(z3.ToReal(jv) >= xr, xr > z3.ToReal(jv) - 1)))
            self.cints.append((jv, xr))
            return jv

        @native
        def c_array(k):
            return farr([0] * k)
        I.module_globals[("contracts.c05_harness", "mv_get")] = mv_get
        I.module_globals[(KMOD, "c_int")] = c_int
        I.module_globals[(KMOD, "c_array")] = c_array
        self.domain = self.memview("domain", (sy.n,), lambda j: sy.X(z(j)))
        self.rho_data = self.memview("rho_data", (sy.N, sy.n), lambda i, j: sy.Y(z(i), z(j)))
        self.positions = self.memview("positions", (sy.N, 3), lambda i, c: sy.A(z(i), z(c)))
        self.KPD = I.class_of(pyx.mod, "PromoleculeDensity")
        self.KSW = I.class_of(pyx.mod, "StockholderWeight")
        # extents are C ints; the grid starts within one cell of zero (G obligation first_knot_near_zero)
        self.pre = [sy.n >= 2, sy.n < 2 ** 31, sy.X(1) - sy.X(0) > 0, sy.X(0) >= 0, sy.X(0) <= sy.X(1) - sy.X(0), sy.N >= 0, sy.N < 2 ** 31]

    def memview(self, name, shape, fn):
        return Obj(self.MV, {"shape": tuple(shape), "fn": fn, "prefix": (), "name": name})

    def kernel_obj(self):
        return Obj(self.KPD, {"positions": self.positions, "domain": self.domain, "rho_data": self.rho_data})

    def pts(self):
        return farr(self.P)

    # ---- contracts of the two interpolation routines, as seen by their callers ----------------------------------------------
    def _row_of(self, xi, yi):
        ok = (isinstance(xi, Obj) and xi.fields.get("name") == "domain" and xi.fields.get("prefix") == () and
              isinstance(yi, Obj) and yi.fields.get("name") == "rho_data" and len(yi.fields.get("prefix", ())) == 1)
        return yi.fields["prefix"][0] if ok else None

    def req_interp_f(self, x, xi, yi, y):
        # logged (with the path condition at the call) and turned into a named obligation by the caller, so that it is recorded even when trivially true
        row = self._row_of(xi, yi)
        if row is None or not isinstance(x, NDArr) or not isinstance(y, NDArr) or x.shape != (self.M,) or y.shape != (self.M,):
            goal = z3.BoolVal(False)
        else:
            goal = conj([z(to_real(x.data[j])) == self.sy.r2(self.P[j], row) for j in range(self.M)])
        self.req_log.append((list(self.I.pc), goal))
        return True

    def res_interp_f(self, I, x, xi, yi, y):
        row = self._row_of(xi, yi)
        if row is not None and isinstance(y, NDArr):
            for j in range(y.shape[0]):
                y.data[j] = self.sy.TT(z(row), j)
        return None

    def req_interp_one(self, x, xi, yi):
        row = self._row_of(xi, yi)
        goal = z3.BoolVal(False) if row is None else (z(to_real(x)) == self.sy.r2(self.Q, row))
        self.req_log.append((list(self.I.pc), goal))
        return True

    def res_interp_one(self, I, x, xi, yi):
        row = self._row_of(xi, yi)
        return self.sy.T1(z(row)) if row is not None else I.fresh("real", "t1")

    # ---- loop invariants ----------------------------------------------------------------------------------------------------------
    def havoc(self, I, name, env):
        cur = env.get(name)
        if isinstance(cur, NDArr):
            for ix in np.ndindex(*cur.shape):
                cur.data[ix] = I.fresh("real", name)
            return cur
        if name in ("i", "j", "col"):
            return I.fresh("int", name)
        return I.fresh("real", name)

    def inv_batch(self, I, env, k):
        sy = self.sy
        kk = 0 if k is None else k
        if k is not None and is_sym(k) and z3.is_const(k):
            I.assume(conj([sy.S(k + 1, j) == sy.S(k, j) + sy.TT(k, j) for j in range(self.M)]))     # unfolding of the recursive spec at the current atom
        rv = env["rho_view"]
        return conj([z(to_real(rv.data[j])) == self.rho0[j] + sy.S(z(kk), j) for j in range(self.M)])

    def inv_single(self, I, env, k):
        sy = self.sy
        kk = 0 if k is None else k
        if k is not None and is_sym(k) and z3.is_const(k):
            I.assume(sy.S1(k + 1) == sy.S1(k) + sy.T1(k))
        return z(to_real(env["rho"])) == sy.S1(z(kk))


def pyx_fn(ctx, pyx, name):
    d = pyx.describe(name)
    ctx.functions[d["qualname"]] = d
    return d


def kernel_obligations(ctx, pyx, tab):
    K = Kernel(ctx, pyx, M=1 if ctx.tier == "quick" else 2)
    sy, I = K.sy, K.I
    nfail = {}

    def native_fails():
        if "v" not in nfail:
            nfail["v"] = nat.extracted_clause_failures(pyx, ctx.seed)
        return nfail["v"]

    def replay_for(key, also=()):
        def replay(m):
            fails, n = native_fails()
            for kk in (key,) + tuple(also) + ("crash", "<exec>"):
                if kk in fails:
                    return {"native_inputs": fails[kk], "reproduced": True,
                            "observed": f"clause '{kk}' fails when the de-cythonised SOURCE of _density.pyx is executed natively on this seeded input "
                                        "(the compiled binary cannot be rebuilt here; it is covered by the bounded stand-ins)", "solver_model": {k: str(v) for k, v in list(m.items())[:12]}}
            return {"native_inputs": None, "reproduced": False, "observed": f"clause '{key}' holds natively on {n} seeded evaluations of the de-cythonised source"}
        return replay

    # ---- interp_f: three regimes == oracle T, indices in range, t within [-eps, 1+eps] -------------------------------------------------
    def ob_interp(fname, high_zero):
        d = pyx_fn(ctx, pyx, fname)
        f = FuncVal(pyx.mod, pyx.mod.functions[fname])
        x0 = z3.Real("x")
        xi = K.memview("xi", (sy.n,), lambda j: sy.X(z(j)))
        yi = K.memview("yi", (sy.n,), lambda j: sy.Y(0, z(j)))
        K.cints.clear()
        seen = {}

        def thunk(I2, a, kw):
            K.cints.clear()
            if fname == "interp_f":
                y = farr([0])
                r = I2.call(f, [farr([x0]), xi, yi, y])
                out = y.data[0]
            else:
                out = I2.call(f, [x0, xi, yi])
            # keep only casts whose defining constraint is part of this path (a branch-merge attempt that was rolled back may have called c_int too)
            live = {str(c) for h in I2.pc if is_sym(h) for c in consts_of(z(h))}
            seen[tuple(I2.decisions)] = [(jv, xr) for jv, xr in K.cints if str(jv) in live]
            return out
        res = I.explore(thunk, pre=K.pre + [x0 >= 0])        # x is a squared distance
        lab = f"_density.{fname}/ensures/"
        s = sy.s_of(x0)
        m = z3.Int("m_cell")
        rep = replay_for(fname)
        for r in res:
            k = regime_label(r, seen.get(tuple(r.decisions), []), sy)
            if r.kind != "return":
                ctx.prove(lab + f"returns/path{k}", r.pc, False, clause="the routine returns normally", replay=rep, fn=d)
                continue
            y = z(to_real(r.value))
            H = list(r.pc)
            cover(ctx, lab + f"path{k}", H)
            ctx.prove(lab + f"low/path{k}", H + [s < 1], y == sy.Y(0, 0), clause="below the second knot (normalised coordinate < 1) the value is the first tabulated value", replay=rep, fn=d)
            hi_val = z3.RealVal(0) if high_zero else sy.Y(0, sy.n - 1)
            ctx.prove(lab + f"high/path{k}", H + [s >= z3.ToReal(sy.n - 1)], y == hi_val,
                      clause="at or beyond the last knot the value is " + ("0 (single-point path)" if high_zero else "the last tabulated value"), replay=rep, fn=d)
            tm = (x0 - sy.X(m)) * sy.inv
            ctx.prove(lab + f"mid/path{k}", H + [s >= 1, s < z3.ToReal(sy.n - 1), z3.ToReal(m) <= s, s < z3.ToReal(m) + 1],
                      y == (1 - tm) * sy.Y(0, m) + tm * sy.Y(0, m + 1),
                      clause="in cell m = floor((x - x0)/dx), 1 <= m <= n-2: value == (1-t) y[m] + t y[m+1], t = (x - x[m])/dx", replay=rep, fn=d)
            # t range on the real grid: knots within EPS cells of uniform (G obligation uniform_knots, instantiated at the cell the code selected)
            ci = seen.get(tuple(r.decisions), [])
            if ci:
                jv = ci[0][0]
                tau = (x0 - sy.X(jv)) * sy.inv
                dev = (sy.X(jv) - sy.X(0)) * sy.inv - z3.ToReal(jv)
                ctx.prove(lab + f"t_range/path{k}", H + [jv >= 1, jv <= sy.n - 2, dev <= z(EPS), dev >= -z(EPS)], z3.And(tau >= -z(EPS), tau <= 1 + z(EPS)),
                          clause="with knots within 1e-3 cell of uniform, the interpolation parameter t = (x - x[j]) inv_dx of the selected cell lies in [-1e-3, 1+1e-3]", replay=rep, fn=d)
        named_safety(ctx, f"_density.{fname}", [r for r in res], rep, d, {"cast-lower": ("safe/cast_lower", None), "cast-upper": ("safe/cast_upper", None)},
                     replays={"safe/cast_upper": cast_replay(ctx, tab, fname, x0), "safe/cast_lower": cast_replay(ctx, tab, fname, x0)})
        ctx.ground(f"_density.{fname}/paths", len(res) == 3 and all(r.kind == "return" for r in res), tag="F", clause="the routine has exactly the three regimes low / high / interior",
                   detail={"paths": len(res)}, witness={"paths": len(res)}, fn=d)
    ctx.attempt("_density.interp_f/ensures", lambda: ob_interp("interp_f", False), replay=replay_for("interp_f"))
    ctx.attempt("_density.interp_f_one/ensures", lambda: ob_interp("interp_f_one", True), replay=replay_for("interp_f_one"))

    # ---- F: prange iterations / point loops are independent ------------------------------------------------------------------------------
    def frames():
        node = pyx.node("interp_f")
        loops = [n for n in ast.walk(node) if isinstance(n, ast.For)]
        ok, why = len(loops) == 1, []
        for lp in loops:
            ok2, w2 = loop_pointwise(lp, arrays_rw={"y"}, arrays_ro={"x"}, other_ro={"xi", "yi"})
            ok, why = ok and ok2, why + w2
        raw = pyx.segment("interp_f")
        ctx.ground("_density.interp_f/assigns/prange_independent", ok, tag="F",
                   clause="iteration i of the prange loop writes only y[i], reads x only at [i], never reads y, and every scalar it reads is assigned earlier in the same iteration or before the loop",
                   detail={"prange_in_source": "prange(" in raw, "problems": why}, witness={"problems": why}, fn=pyx_fn(ctx, pyx, "interp_f"))
        node = pyx.node("PromoleculeDensity.evaluate_rho")
        outer = [n for n in node.body if isinstance(n, ast.For)]
        ok, why = len(outer) == 1, []
        if ok:
            for lp in [n for n in outer[0].body if isinstance(n, ast.For)]:
                ok2, w2 = loop_pointwise(lp, arrays_rw={"tmp_view", "r_view", "rho_view"}, arrays_ro={"pts"}, other_ro={"pos", "pos_view"})
                ok, why = ok and ok2, why + w2
        ctx.ground("_density.PromoleculeDensity.evaluate_rho/assigns/pointwise", ok, tag="F",
                   clause="the point loops of evaluate_rho touch pts, r_view, tmp_view and rho_view only at the loop index (so the one-point proof covers every number of points)",
                   detail={"problems": why}, witness={"problems": why}, fn=pyx_fn(ctx, pyx, "PromoleculeDensity.evaluate_rho"))
        # frame conditions the loop rule relies on: everything the atom loops assign is havoc'd by the invariant rule, callees write only what their contract says
        def stored(node):
            names = set()
            for n in ast.walk(node):
                if isinstance(n, ast.Name) and isinstance(n.ctx, ast.Store):
                    names.add(n.id)
                if isinstance(n, ast.Subscript) and isinstance(n.ctx, ast.Store):
                    b = n.value
                    while isinstance(b, (ast.Subscript, ast.Attribute)):
                        b = b.value
                    names.add(b.id if isinstance(b, ast.Name) else ast.unparse(n.value))
                if isinstance(n, ast.Attribute) and isinstance(n.ctx, ast.Store):
                    names.add(ast.unparse(n))
            return names

        def called(node):
            return {ast.unparse(n.func) for n in ast.walk(node) if isinstance(n, ast.Call)}
        for meth, modifies, callees in (("PromoleculeDensity.evaluate_rho", {"i", "j", "pos", "tmp_view", "r_view", "rho_view"}, {"range", "interp_f"}),
                                        ("PromoleculeDensity.one_rho", {"i", "col", "r", "diff", "rho"}, {"range", "interp_f_one"})):
            node = pyx.node(meth)
            loops = [n for n in node.body if isinstance(n, ast.For)]
            st = set().union(*[stored(lp) for lp in loops]) if loops else set()
            cl = set().union(*[called(lp) for lp in loops]) if loops else set()
            ok = len(loops) == 1 and st <= modifies and cl <= callees
            ctx.ground(f"_density.{meth}/assigns/loop_frame", ok, tag="F",
                       clause=f"the atom loop assigns only {sorted(modifies)} (all havoc'd by the invariant rule) and calls only {sorted(callees)}",
                       detail={"assigned": sorted(st), "called": sorted(cl)}, witness={"assigned_outside_frame": sorted(st - modifies), "unexpected_calls": sorted(cl - callees)},
                       fn=pyx_fn(ctx, pyx, meth))
        st_f, st_1 = stored(pyx.node("interp_f")), stored(pyx.node("interp_f_one"))
        arrs_f = {n for n in st_f if n in ("x", "xi", "yi", "y")}
        ctx.ground("_density.interp_f/assigns/writes_only_y", arrs_f <= {"y"} and not called(pyx.node("interp_f")) - {"range", "c_int"}, tag="F",
                   clause="interp_f stores into no array but its output y and calls nothing (so the caller's other arrays are untouched)", detail={"stored": sorted(st_f)},
                   witness={"stored": sorted(st_f)}, fn=pyx_fn(ctx, pyx, "interp_f"))
        ctx.ground("_density.interp_f_one/assigns/pure", not ({n for n in st_1 if n in ("x", "xi", "yi")}) and not called(pyx.node("interp_f_one")) - {"c_int"}, tag="F",
                   clause="interp_f_one stores into none of its arguments and calls nothing", detail={"stored": sorted(st_1)}, witness={"stored": sorted(st_1)}, fn=pyx_fn(ctx, pyx, "interp_f_one"))
    ctx.attempt("_density/assigns", frames)

    # ---- evaluate_rho / rho: loop invariant, any number of atoms ---------------------------------------------------------------------------
    def ob_rho():
        d = pyx_fn(ctx, pyx, "PromoleculeDensity.evaluate_rho")
        d2 = pyx_fn(ctx, pyx, "PromoleculeDensity.rho")
        pyx_fn(ctx, pyx, "PromoleculeDensity.__init__")
        K.rho0 = [z3.RealVal(0)] * K.M

        def thunk(I2, a, kw):
            ko = I2.instantiate(K.KPD, [K.positions, K.domain, K.rho_data], {})
            return I2.call(I2.getattr(ko, "rho"), [K.pts()])
        del K.req_log[:]
        res = I.explore(thunk, pre=K.pre + [sy.S(0, j) == 0 for j in range(K.M)])
        rep = replay_for("rho")
        for r in res:
            cover(ctx, "_density.PromoleculeDensity.rho/" + r.kind, r.pc)
        ctx.ground("_density.PromoleculeDensity.evaluate_rho/calls_interp_f", len(K.req_log) == 1, tag="F", clause="the loop body calls interp_f exactly once per atom",
                   detail={"calls": len(K.req_log)}, witness={"calls": len(K.req_log)}, fn=d)
        for pc_, goal_ in K.req_log[:1]:
            ctx.prove("_density.PromoleculeDensity.evaluate_rho/interp_f.requires", cone(pc_, goal_), goal_, replay=rep, fn=d,
                      clause="interp_f is called with the knots, ROW i of the table for atom i, and r_view[j] == |p_j - a_i|^2 / b^2 (squared distance, converted to bohr^2)")
        kinds = sorted(r.kind for r in res)
        ctx.ground("_density.PromoleculeDensity.evaluate_rho/paths", kinds == ["loop-end", "return"], tag="F",
                   clause="under the contract of interp_f the atom loop has one body path and one exit path", detail={"paths": kinds}, witness={"paths": kinds}, fn=d)
        for r in res:
            if r.kind == "return":
                out = r.value
                good = isinstance(out, NDArr) and out.shape == (K.M,)
                ctx.prove("_density.PromoleculeDensity.rho/ensures/sum_of_atoms", r.pc, conj([z(to_real(out.data[j])) == sy.S(sy.N, j) for j in range(K.M)]) if good else False,
                          clause="rho(pts)[j] == S(n_atoms, j), S(0,j) = 0, S(k+1,j) = S(k,j) + T_k(|p_j - a_k|^2/b^2): the sum over ALL atoms of the per-atom interpolants", replay=rep, fn=d2)
            elif r.kind == "raise":
                ctx.prove("_density.PromoleculeDensity.rho/ensures/returns", r.pc, False, clause="rho returns normally", replay=rep, fn=d2)
        named_safety(ctx, "_density.PromoleculeDensity.evaluate_rho", res, rep, d, {
            "inv-entry:": ("invariant.entry", "rho_view == 0 before the first atom"),
            "inv-preserved:": ("invariant.preserved", "after atom k: rho_view[j] == S(k+1, j) = S(k, j) + T_k(j)"),
        })
    ctx.attempt("_density.PromoleculeDensity.rho/ensures", ob_rho, replay=replay_for("rho"))

    # ---- one_rho ---------------------------------------------------------------------------------------------------------------------------------
    def ob_one_rho():
        d = pyx_fn(ctx, pyx, "PromoleculeDensity.one_rho")

        def thunk(I2, a, kw):
            return I2.call(I2.getattr(K.kernel_obj(), "one_rho"), [farr(K.Q)])
        del K.req_log[:]
        res = I.explore(thunk, pre=K.pre + [sy.S1(0) == 0])
        rep = replay_for("one_rho")
        for r in res:
            cover(ctx, "_density.PromoleculeDensity.one_rho/" + r.kind, r.pc)
        ctx.ground("_density.PromoleculeDensity.one_rho/calls_interp_f_one", len(K.req_log) == 1, tag="F", clause="the loop body calls interp_f_one exactly once per atom",
                   detail={"calls": len(K.req_log)}, witness={"calls": len(K.req_log)}, fn=d)
        for pc_, goal_ in K.req_log[:1]:
            ctx.prove("_density.PromoleculeDensity.one_rho/interp_f_one.requires", cone(pc_, goal_), goal_, replay=rep, fn=d,
                      clause="interp_f_one is called with the knots, row i for atom i and r == |q - a_i|^2 / b^2")
        kinds = sorted(r.kind for r in res)
        ctx.ground("_density.PromoleculeDensity.one_rho/paths", kinds == ["loop-end", "return"], tag="F", clause="one body path and one exit path", detail={"paths": kinds},
                   witness={"paths": kinds}, fn=d)
        for r in res:
            if r.kind == "return":
                ctx.prove("_density.PromoleculeDensity.one_rho/ensures/sum_of_atoms", r.pc, z(to_real(r.value)) == sy.S1(sy.N),
                          clause="one_rho(q) == S1(n_atoms): the sum over all atoms of the single-point interpolants at |q - a_k|^2/b^2", replay=rep, fn=d)
            elif r.kind == "raise":
                ctx.prove("_density.PromoleculeDensity.one_rho/ensures/returns", r.pc, False, clause="one_rho returns normally", replay=rep, fn=d)
        named_safety(ctx, "_density.PromoleculeDensity.one_rho", res, rep, d, {
            "inv-entry:": ("invariant.entry", "rho == 0 before the first atom"),
            "inv-preserved:": ("invariant.preserved", "after atom k: rho == S1(k+1)"),
        })
    ctx.attempt("_density.PromoleculeDensity.one_rho/ensures", ob_one_rho, replay=replay_for("one_rho"))

    # ---- StockholderWeight.weights / one_weight (kernel) ---------------------------------------------------------------------------------------
    weight_obligations(ctx, pyx, K, replay_for)
    ctx.attempt("_density/encoding_crosscheck", lambda: encoding_crosscheck(ctx, pyx, K))


def encoding_crosscheck(ctx, pyx, K):
    """Guard on the verifier itself (DESIGN section 4): the symbolic executor, run on CONCRETE rational inputs through the same harness (memoryviews, <int>, C arrays) but without
    contracts or invariants, must reproduce exactly what native execution of the de-cythonised text computes.  A mismatch is an engine bug -> checker error (exit 3)."""
    rng = np.random.default_rng(ctx.seed + 5)
    ns = nat.native_namespace(pyx)
    I = ctx.interp()
    hm = K.hm
    MV = ClassVal(hm, hm.classes["MemView"])

    @native
    def mv_get(o, idx):
        idx = idx if isinstance(idx, tuple) else (idx,)
        a = o.fields["arr"]
        for i, nn in zip(idx, a.shape):
            if not (isinstance(i, int) and 0 <= i < nn):
                raise RuntimeError(f"cross-check: index {i} outside extent {nn}")
        v = a[tuple(idx)]
        return Obj(MV, {"arr": v, "shape": v.shape}) if isinstance(v, np.ndarray) else v
    I.module_globals[("contracts.c05_harness", "mv_get")] = mv_get
    I.module_globals[(KMOD, "c_int")] = native(lambda v: int(v))           # Fraction.__trunc__: toward zero
    I.module_globals[(KMOD, "c_array")] = native(lambda k: farr([0] * k))
    KPD, KSW = I.class_of(pyx.mod, "PromoleculeDensity"), I.class_of(pyx.mod, "StockholderWeight")

    def mv(a):
        o = np.empty(a.shape, dtype=object)
        for ix in np.ndindex(*a.shape):
            o[ix] = Fraction(float(a[ix]))
        return Obj(MV, {"arr": o, "shape": o.shape})
    n_cmp, worst = 0, 0.0
    for case in range(6):
        n = int(rng.integers(3, 7))
        X = 0.05 + 0.25 * np.arange(n) + rng.uniform(-1e-4, 1e-4, n)
        N = int(rng.integers(1, 4))
        Y = np.exp(-rng.uniform(0.2, 1.0, (N, 1)) * np.arange(n)[None, :])
        pos = rng.uniform(-0.4, 0.4, (N, 3))
        pts = rng.uniform(-0.6, 0.6, (3, 3))
        N2 = 1
        pos2 = rng.uniform(-0.4, 0.4, (N2, 3))
        Y2 = np.exp(-0.5 * np.arange(n))[None, :]

        def thunk(I2, a, kw):
            A = I2.instantiate(KPD, [mv(pos), mv(X), mv(Y)], {})
            Bk = I2.instantiate(KPD, [mv(pos2), mv(X), mv(Y2)], {})
            S = I2.instantiate(KSW, [A, Bk], {"background": Fraction(1, 8)})
            rho = I2.call(I2.getattr(A, "rho"), [farr([[Fraction(float(v)) for v in p] for p in pts])])
            one = [I2.call(I2.getattr(A, "one_rho"), [farr([Fraction(float(v)) for v in p])]) for p in pts]
            w = I2.call(I2.getattr(S, "weights"), [farr([[Fraction(float(v)) for v in p] for p in pts])])
            w1 = [I2.call(I2.getattr(S, "one_weight"), [farr([Fraction(float(v)) for v in p])]) for p in pts]
            return rho.flat(), one, w.flat(), w1
        try:
            res = I.explore(thunk)
        except RuntimeError as e:
            if "outside extent" in str(e):
                ctx.notes.append(f"encoding cross-check skipped: the source indexes a memoryview outside its extent on a concrete input ({e}); see the index safety obligations")
                return
            raise
        if len(res) != 1 or res[0].kind != "return":
            raise RuntimeError(f"cross-check: concrete run produced {[(r.kind, r.value) for r in res]}")
        sym = [[float(v) for v in part] for part in res[0].value]
        A = ns["PromoleculeDensity"](pos.copy(), X, Y)
        Bk = ns["PromoleculeDensity"](pos2.copy(), X, Y2)
        S = ns["StockholderWeight"](A, Bk, background=0.125)
        natv = [np.asarray(A.rho(pts), dtype=float).tolist(), [float(A.one_rho(p.copy())) for p in pts],
                np.asarray(S.weights(pts), dtype=float).tolist(), [float(S.one_weight(p.copy())) for p in pts]]
        for a_, b_, tol in zip(sym, natv, (4e-6, 1e-12, 4e-6, 1e-12)):      # the source requests float32 result arrays for the batch path
            for u, v in zip(a_, b_):
                n_cmp += 1
                err = abs(u - v) / max(abs(v), 1e-300)
                worst = max(worst, err if tol < 1e-9 else 0.0)
                if err > tol:
                    ctx.checker_errors.append(f"encoding cross-check: symbolic executor {u!r} vs native execution {v!r} of the de-cythonised kernel")
    ctx.notes.append(f"encoding cross-check: {n_cmp} concrete values from the symbolic executor (exact rationals) agree with native execution of the de-cythonised text "
                     f"(max relative difference on the float64 paths {worst:.1e})")


def cast_replay(ctx, tab, fname, xvar):
    """Native replay of a refuted <int>-cast range obligation on the REAL compiled classes: a point so far from an atom that inv_dx*(x - x0) >= 2^31."""
    def replay(m):
        from chmpy.interpolate.density import PromoleculeDensity
        xv = m.get(str(xvar))
        radii = []
        try:
            if xv is not None and float(xv) > 0:
                radii.append(float(np.sqrt(float(xv)) * nat.BOHR))
        except (TypeError, ValueError, OverflowError):
            pass
        radii += [8.0e3, 1.0e4, 1.0e5]
        for Z in (1, 6, 79):
            for r in radii:
                if not (np.isfinite(r) and 0.3 <= r < 1e15):
                    continue
                pd = PromoleculeDensity(([Z], [[0.0, 0.0, 0.0]]))
                p = np.array([[r, 0.0, 0.0]])
                exp = float(tab.rho([Z], [[0, 0, 0]], p, high_fill_zero=(fname == "interp_f_one"))[0])
                if fname == "interp_f":
                    got = float(pd.rho(p)[0])
                    if not abs(got - exp) <= 1e-4 * exp:
                        return {"native_inputs": {"Z": [Z], "atoms": [[0.0, 0.0, 0.0]], "point": p[0].tolist(), "call": "PromoleculeDensity((Z, atoms)).rho([point])"},
                                "reproduced": True, "observed": {"rho": got, "oracle (last tabulated value of the row)": exp,
                                                                 "note": "inv_dx*(x - x0) >= 2^31: the int cast overflows, j <= 0 is taken and the value AT THE NUCLEUS is returned"}}
                else:
                    from chmpy.interpolate._density import sphere_promolecule_radii
                    iso = 2e-4
                    d = np.array([[1.0, 0.0, 0.0]], dtype=np.float32)
                    rr = float(sphere_promolecule_radii(pd.dens, np.zeros(3, dtype=np.float32), d, 0.5, float(r), 1e-7, 60, iso)[0])
                    # rho(0.5 A) > iso > rho(r) = 0 on the single-point path: a root exists in the bracket, so -1 ("no sign change") is wrong
                    if float(tab.rho([Z], [[0, 0, 0]], [[0.5, 0, 0]], True)[0]) > iso > exp and rr < 0:
                        return {"native_inputs": {"Z": [Z], "atoms": [[0.0, 0.0, 0.0]], "origin": [0, 0, 0], "direction": [1, 0, 0], "bracket": [0.5, float(r)], "isovalue": iso,
                                                  "call": "sphere_promolecule_radii(dens, origin, [direction], 0.5, r, 1e-7, 60, isovalue)"},
                                "reproduced": True, "observed": {"radius": rr, "expected": "a root in (0.5, r): rho(0.5 A) > isovalue > rho(r)",
                                                                 "note": "one_rho at the far end of the bracket returns the nuclear value (int cast overflow), so no sign change is seen"}}
        return {"native_inputs": {"radii_A": radii}, "reproduced": False, "observed": "no mismatch with the oracle at the far points tried"}
    return replay


def named_safety(ctx, label, results, replay, fn, names, replays=None):
    """Safety obligations of a run, with stable names for the contract-level ones."""
    count = {}
    seen = set()
    for res in results:
        for kind, pc, goal, note in getattr(res, "safety", []):
            key = (kind, str(goal), tuple(str(c) for c in pc))
            if key in seen:
                continue
            seen.add(key)
            nm, clause = None, f"{kind} {note}".strip()
            for pref, (n2, c2) in names.items():
                if kind.startswith(pref):
                    nm, clause = n2, c2 or clause
            nm = nm or "safe/" + kind
            count[nm] = count.get(nm, 0) + 1
            ctx.prove(f"{label}/{nm}/{count[nm]}", pc, goal, clause=clause, replay=(replays or {}).get(nm, replay), fn=fn)


def loop_pointwise(loop, arrays_rw, arrays_ro, other_ro):
    """Syntactic frame check of `for v in range(..): body`: point-indexed arrays are subscripted only by v (first index); arrays in arrays_rw are
    the only stores; every scalar read in the body is loop-invariant or assigned earlier in the same iteration on every path."""
    why = []
    if not isinstance(loop.target, ast.Name):
        return False, ["loop target is not a name"]
    v = loop.target.id
    assigned_scalars = {n.id for s in loop.body for n in ast.walk(s) if isinstance(n, ast.Name) and isinstance(n.ctx, ast.Store)}
    for node in [n for s in loop.body for n in ast.walk(s)]:
        if isinstance(node, ast.Subscript) and isinstance(node.value, ast.Name):
            nm = node.value.id
            first = node.slice.elts[0] if isinstance(node.slice, ast.Tuple) else node.slice
            if nm in arrays_rw or nm in arrays_ro:
                if not (isinstance(first, ast.Name) and first.id == v):
                    why.append(f"{nm}[{ast.unparse(node.slice)}] is not indexed by the loop variable")
            if isinstance(node.ctx, ast.Store) and nm not in arrays_rw:
                why.append(f"store into {nm}")
        if isinstance(node, (ast.For, ast.While)):
            why.append("nested loop")
        if isinstance(node, ast.Call) and not (isinstance(node.func, ast.Name) and node.func.id in ("c_int",)):
            why.append(f"call {ast.unparse(node.func)}")
        if isinstance(node, ast.Name) and isinstance(node.ctx, ast.Store) and node.id == v:
            why.append("loop variable reassigned")

    # scalars: definite assignment before use within one iteration
    def reads_before(stmts, defined):
        for s in stmts:
            if isinstance(s, ast.If):
                for n in ast.walk(s.test):
                    chk(n, defined)
                d1, d2 = set(defined), set(defined)
                reads_before(s.body, d1)
                reads_before(s.orelse, d2)
                defined |= (d1 & d2)
            elif isinstance(s, (ast.Assign, ast.AugAssign)):
                val = s.value
                for n in ast.walk(val):
                    chk(n, defined)
                tg = s.targets if isinstance(s, ast.Assign) else [s.target]
                for t in tg:
                    if isinstance(t, ast.Name):
                        if isinstance(s, ast.AugAssign):
                            chk(ast.Name(id=t.id, ctx=ast.Load()), defined)
                        defined.add(t.id)
                    else:
                        for n in ast.walk(t):
                            if isinstance(n, ast.Name) and isinstance(n.ctx, ast.Load):
                                chk(n, defined)
            else:
                why.append(f"statement {type(s).__name__}")

    def chk(n, defined):
        if isinstance(n, ast.Name) and isinstance(n.ctx, ast.Load) and n.id in assigned_scalars and n.id not in defined and n.id != v:
            why.append(f"scalar {n.id} may carry a value from another iteration")
    reads_before(loop.body, set())
    for node in [n for s in loop.body for n in ast.walk(s)]:
        if isinstance(node, ast.Subscript) and isinstance(node.value, ast.Name) and isinstance(node.ctx, ast.Load) and node.value.id in arrays_rw:
            pass    # reading the own cell is allowed (index already checked)
    return not why, why


def weight_obligations(ctx, pyx, K, replay_for):
    sy = K.sy
    M = K.M
    RA = [z3.Real(f"rhoA{j}") for j in range(M)]
    RB = [z3.Real(f"rhoB{j}") for j in range(M)]
    ra1, rb1 = z3.Real("rhoA_q"), z3.Real("rhoB_q")
    bg = z3.Real("background")
    calls = []

    def rho_contract_result(I, self_, pts):
        tag = self_.fields.get("_tag")
        ok = isinstance(pts, NDArr) and pts.shape == (M, 3) and all(z3.eq(z(to_real(pts.data[j, c])), K.P[j][c]) for j in range(M) for c in range(3))
        calls.append((tag, ok))
        vals = {"A": RA, "B": RB}.get(tag)
        if vals is None or not ok:
            return farr([I.fresh("real", "rho_unknown") for _ in range(M)])
        return farr(list(vals))

    def one_contract_result(I, self_, position):
        tag = self_.fields.get("_tag")
        ok = isinstance(position, NDArr) and position.shape == (3,) and all(z3.eq(z(to_real(position.data[c])), K.Q[c]) for c in range(3))
        calls.append((tag, ok))
        v = {"A": ra1, "B": rb1}.get(tag)
        return v if (v is not None and ok) else I.fresh("real", "rho_unknown")
    kq = KMOD + "."
    I = ctx.interp(contracts={kq + "PromoleculeDensity.rho": Contract(result=rho_contract_result),
                              kq + "PromoleculeDensity.one_rho": Contract(result=one_contract_result)})
    KPD, KSW = I.class_of(pyx.mod, "PromoleculeDensity"), I.class_of(pyx.mod, "StockholderWeight")
    I.module_globals[(KMOD, "c_array")] = native(lambda k: farr([0] * k))
    posd = [RA[j] > 0 for j in range(M)] + [RB[j] > 0 for j in range(M)] + [bg >= 0]
    d_w = pyx_fn(ctx, pyx, "StockholderWeight.weights")
    d_1 = pyx_fn(ctx, pyx, "StockholderWeight.one_weight")
    pyx_fn(ctx, pyx, "StockholderWeight.__init__")
    rep_w, rep_1 = replay_for("weights"), replay_for("one_weight")

    def mk(swap=False):
        a, b = Obj(KPD, {"_tag": "A"}), Obj(KPD, {"_tag": "B"})
        return (b, a) if swap else (a, b)

    def ob_weights():
        def thunk(I2, a_, kw):
            a, b = mk()
            sw = I2.instantiate(KSW, [a, b], {"background": bg})
            w = I2.call(I2.getattr(sw, "weights"), [K.pts()])
            a2, b2 = mk(swap=True)
            sw2 = I2.instantiate(KSW, [a2, b2], {"background": bg})
            w2 = I2.call(I2.getattr(sw2, "weights"), [K.pts()])
            return w, w2
        del calls[:]
        res = I.explore(thunk, pre=posd)
        lab = "_density.StockholderWeight.weights/ensures/"
        for r in res:
            sfx = "/" + path_label(r) if len(res) > 1 else ""
            cover(ctx, lab + "pre", r.pc)
            if r.kind != "return" or not all(isinstance(v, NDArr) and v.shape == (M,) for v in r.value):
                ctx.prove(lab + "returns" + sfx, r.pc, False, clause="weights returns an array with one value per point", replay=rep_w, fn=d_w)
                continue
            w, w2 = [[z(to_real(v.data[j])) for j in range(M)] for v in r.value]
            ctx.prove(lab + "formula" + sfx, r.pc, conj([w[j] * (RA[j] + RB[j] + bg) == RA[j] for j in range(M)]),
                      clause="w[j] == rho_A[j] / (rho_A[j] + rho_B[j] + background), the densities being those of the two kernel objects at the given points", replay=rep_w, fn=d_w)
            ctx.prove(lab + "unit_interval" + sfx, r.pc, conj([z3.And(w[j] >= 0, w[j] <= 1) for j in range(M)]),
                      clause="0 <= w <= 1 for positive densities and background >= 0", replay=rep_w, fn=d_w)
            ctx.prove(lab + "complement" + sfx, list(r.pc) + [bg == 0], conj([w[j] + w2[j] == 1 for j in range(M)]),
                      clause="without background the weights of the two complementary atom sets (arguments exchanged) sum to one", replay=rep_w, fn=d_w)
            ctx.prove(lab + "complement_background" + sfx, list(r.pc), conj([w[j] + w2[j] <= 1 for j in range(M)]),
                      clause="with background >= 0 the two complementary weights sum to at most one", replay=rep_w, fn=d_w)
        ctx.ground(lab + "dataflow", bool(calls) and all(ok for _, ok in calls) and [t for t, _ in calls][:2] == ["A", "B"], tag="F",
                   clause="weights evaluates dens_a.rho and dens_b.rho at exactly the positions it was given", detail={"calls": [list(map(str, c)) for c in calls[:4]]},
                   witness={"calls": [list(map(str, c)) for c in calls[:4]]}, fn=d_w)
        ctx.safety("_density.StockholderWeight.weights", res, replay=rep_w, fn=d_w)
    ctx.attempt("_density.StockholderWeight.weights/ensures", ob_weights, replay=rep_w)

    def ob_one_weight():
        def thunk(I2, a_, kw):
            a, b = mk()
            sw = I2.instantiate(KSW, [a, b], {"background": bg})
            return I2.call(I2.getattr(sw, "one_weight"), [farr(K.Q)])
        del calls[:]
        res = I.explore(thunk, pre=[ra1 > 0, rb1 > 0, bg >= 0])
        lab = "_density.StockholderWeight.one_weight/ensures/"
        for r in res:
            sfx = "/" + path_label(r) if len(res) > 1 else ""
            cover(ctx, lab + "pre", r.pc)
            if r.kind != "return":
                ctx.prove(lab + "returns" + sfx, r.pc, False, clause="one_weight returns normally", replay=rep_1, fn=d_1)
                continue
            w = z(to_real(r.value))
            ctx.prove(lab + "formula" + sfx, r.pc, z3.And(w * (ra1 + rb1 + bg) == ra1, w >= 0, w <= 1),
                      clause="one_weight(q) == rho_A(q) / (rho_A(q) + rho_B(q) + background) in [0,1] (single-point densities)", replay=rep_1, fn=d_1)
        ctx.ground(lab + "dataflow", bool(calls) and all(ok for _, ok in calls) and sorted(t for t, _ in calls[:2]) == ["A", "B"], tag="F",
                   clause="one_weight evaluates both single-point densities at the position it was given", detail={"calls": [list(map(str, c)) for c in calls[:4]]},
                   witness={"calls": [list(map(str, c)) for c in calls[:4]]}, fn=d_1)
        ctx.safety("_density.StockholderWeight.one_weight", res, replay=rep_1, fn=d_1)
    ctx.attempt("_density.StockholderWeight.one_weight/ensures", ob_one_weight, replay=rep_1)


# ============================================================================================================================
def lemmas(ctx):
    """L: facts about the spec functions only."""
    def L(ident, hyps, goal, clause, **kw):
        rs = ctx.prove(ident, hyps, goal, clause=clause, tag="L", **kw)
        return rs
    tau, a, b = z3.Real("tau"), z3.Real("ya"), z3.Real("yb")
    L("lemma/interpolant_positive", [tau >= -z(EPS), tau <= 1 + z(EPS), a > 0, b > 0, b >= z(RATIO_LO) * a, b < a], (1 - tau) * a + tau * b > 0,
      "(1-t) y[j] + t y[j+1] > 0 for t in [-1e-3, 1+1e-3], y > 0, 0.12 <= y[j+1]/y[j] < 1  (with table/positive, table/monotone_ratio, t_range: every per-atom term is > 0)")
    Int, Real = z3.IntSort(), z3.RealSort()
    S, T = z3.Function("S", Int, Real), z3.Function("T", Int, Real)
    k = z3.Int("k")
    L("lemma/sum_positive/step", [k >= 0, S(k) >= 0, T(k) > 0, S(k + 1) == S(k) + T(k)], S(k + 1) > 0,
      "S(k) >= 0 and T_k > 0 imply S(k+1) > 0 (with S(0) = 0: the density of at least one atom is positive, by induction)")
    # the two paths agree inside the table
    sy = Sym()
    x = z3.Real("x")
    L("lemma/paths_agree_inside_table", [sy.s_of(x) < z3.ToReal(sy.n - 1)], sy.T_spec(0, x) == sy.T_spec(0, x, high_zero=True),
      "inside the table (normalised coordinate < n-1) the single-point interpolant equals the batch interpolant")
    L("lemma/paths_differ_by_tail", [sy.s_of(x) >= z3.ToReal(sy.n - 1), sy.n >= 2, sy.X(1) > sy.X(0)],
      z3.And(sy.T_spec(0, x) == sy.Y(0, sy.n - 1), sy.T_spec(0, x, high_zero=True) == 0),
      "beyond the table the batch path yields the last tabulated value, the single-point path 0 (difference <= 1.4e-8, table/tail_small)")
    # additivity over concatenation of two atom lists (terms tA, tB; C = A ++ B)
    nA, nB, mm = z3.Int("nA"), z3.Int("nB"), z3.Int("m")
    tA, tB = z3.Function("tA", Int, Real), z3.Function("tB", Int, Real)
    SA, SB, SC = z3.Function("SA", Int, Real), z3.Function("SB", Int, Real), z3.Function("SC", Int, Real)
    tC = lambda i: z3.If(i < nA, tA(i), tB(i - nA))
    L("lemma/additive/prefix_step", [k >= 0, k < nA, SC(k) == SA(k), SC(k + 1) == SC(k) + tC(k), SA(k + 1) == SA(k) + tA(k)], SC(k + 1) == SA(k + 1),
      "induction step: the partial sums of A ++ B and of A agree up to |A|  (base: S(0) = 0 on both sides)")
    L("lemma/additive/suffix_step", [mm >= 0, mm < nB, nA >= 0, SC(nA + mm) == SA(nA) + SB(mm), SC(nA + mm + 1) == SC(nA + mm) + tC(nA + mm), SB(mm + 1) == SB(mm) + tB(mm)],
      SC(nA + mm + 1) == SA(nA) + SB(mm + 1), "induction step: S_{A++B}(|A| + m) == S_A(|A|) + S_B(m)  => rho_{A u B} = rho_A + rho_B for disjoint atom sets")
    # order: swapping neighbours k, k+1
    t1, t2 = z3.Function("t", Int, Real), z3.Function("t_swapped", Int, Real)
    S1, S2 = z3.Function("Sx", Int, Real), z3.Function("Sx_swapped", Int, Real)
    j = z3.Int("j")
    swap_def = lambda i: t2(i) == z3.If(i == k, t1(k + 1), z3.If(i == k + 1, t1(k), t1(i)))
    L("lemma/order/swap_two", [S1(k) == S2(k), S1(k + 1) == S1(k) + t1(k), S1(k + 2) == S1(k + 1) + t1(k + 1), S2(k + 1) == S2(k) + t2(k), S2(k + 2) == S2(k + 1) + t2(k + 1),
                               swap_def(k), swap_def(k + 1)], S1(k + 2) == S2(k + 2), "exchanging two neighbouring atoms leaves the partial sum after both unchanged (commutativity)")
    L("lemma/order/outside_step", [z3.Or(j < k, j >= k + 2), S1(j) == S2(j), S1(j + 1) == S1(j) + t1(j), S2(j + 1) == S2(j) + t2(j), swap_def(j)], S1(j + 1) == S2(j + 1),
      "induction step away from the exchanged pair; with the cited fact that adjacent transpositions generate all permutations: rho is independent of the atom order")
    # rigid motion: |(R p + t) - (R a + t)|^2 == |p - a|^2 for R^T R = 1
    R = [[z3.Real(f"R{i}{jj}") for jj in range(3)] for i in range(3)]
    p, a3, tv = [z3.Real(f"p{i}") for i in range(3)], [z3.Real(f"a{i}") for i in range(3)], [z3.Real(f"t{i}") for i in range(3)]
    mv = lambda v: [sum(R[i][c] * v[c] for c in range(3)) + tv[i] for i in range(3)]
    P2, A2 = mv(p), mv(a3)
    hy = [sum(R[c][i] * R[c][jj] for c in range(3)) - (1 if i == jj else 0) for i in range(3) for jj in range(i, 3)]
    goal = sum((P2[i] - A2[i]) * (P2[i] - A2[i]) for i in range(3)) - sum((p[i] - a3[i]) * (p[i] - a3[i]) for i in range(3))
    r = ctx.prove_identity("lemma/rigid_motion/distance", [goal], hy,
                           clause="|(R p + t) - (R a + t)|^2 == |p - a|^2 whenever R^T R = 1: every per-atom argument of T, hence rho, is invariant under a rigid motion of atoms and points together")
    r.tag = "L"


# ============================================================================================================================
def wrapper_obligations(ctx, pyx):
    """density.py: rows bound to atoms, constructor domain, arguments forwarded to the kernel unchanged."""
    dmod = source.load_module(DMOD)
    f_init = ctx.fn(DMOD, "PromoleculeDensity.__init__")
    f_rho = ctx.fn(DMOD, "PromoleculeDensity.rho")
    f_sinit = ctx.fn(DMOD, "StockholderWeight.__init__")
    f_w = ctx.fn(DMOD, "StockholderWeight.weights")
    f_fa = ctx.fn(DMOD, "StockholderWeight.from_arrays")
    Int, Real = z3.IntSort(), z3.RealSort()
    RHO = z3.Function("RHO_table", Int, Int, Real)
    DOM = z3.Function("DOMAIN_table", Int, Real)
    KN = 5                                   # columns of the stand-in table (the code is column-generic: full-slice row copy)
    hm = source.ModuleSrc("contracts.c05_harness", "<harness>", HARNESS, ast.parse(HARNESS))

    def native_rows(seed_key):
        """replay: the same clauses on the real classes."""
        def replay(m):
            from chmpy.interpolate.density import PromoleculeDensity, StockholderWeight, _RHO, _DOMAIN
            rng = np.random.default_rng(ctx.seed)
            z0 = m.get("Z0", 1)
            zs = [z0 if isinstance(z0, int) else 1, int(rng.integers(1, 104)), 1, 103, 2, 102]
            zs = [zz if 1 <= zz <= 103 else int(rng.integers(1, 104)) for zz in zs]
            pos = rng.uniform(-3, 3, (len(zs), 3))
            pts = rng.uniform(-4, 4, (7, 3))
            bad = {}
            tabn = nat.Table()

            def clause(key, inp, thunk):
                """thunk() -> None if the clause holds, else a description; an exception on a valid input is a failure too."""
                try:
                    why = thunk()
                except Exception as e:  # noqa
                    why = f"raised {e!r}"
                if why is not None and key not in bad:
                    bad[key] = dict(inp, observed=why)

            def c_rows():
                pd = PromoleculeDensity((zs, pos))
                if not all(np.array_equal(pd.rho_data[i], _RHO[zz - 1]) for i, zz in enumerate(zs)):
                    return "rho_data[i] != _RHO[Z_i - 1]"

            def c_pos():
                pd = PromoleculeDensity((zs, pos))
                if not (np.array_equal(np.asarray(pd.dens.positions), pos.astype(np.float32)) and np.array_equal(pd.positions, pos.astype(np.float32))):
                    return "kernel positions differ from the given positions"

            def c_rho():
                got = PromoleculeDensity((zs, pos)).rho(pts)
                exp = tabn.rho(zs, pos, pts)
                if not np.allclose(got, exp, rtol=1e-4):
                    return {"rho": np.asarray(got).tolist(), "oracle": exp.tolist()}
            clause("rows", {"Z": zs, "atoms": pos.tolist()}, c_rows)
            clause("positions", {"Z": zs, "atoms": pos.tolist()}, c_pos)
            clause("rho", {"Z": zs, "atoms": pos.tolist(), "points": pts.tolist()}, c_rho)
            for zz in (0, 104, -1):
                def c_dom(zz=zz):
                    try:
                        PromoleculeDensity(([zz, 1], pos[:2]))
                    except ValueError:
                        return None
                    return "constructor accepted an atomic number outside 1..103"
                clause("domain", {"Z": [zz, 1]}, c_dom)
            for bgv_ in (0.0, 0.25):
                for route in ("constructor", "from_arrays"):
                    def c_w(bgv_=bgv_, route=route):
                        if route == "constructor":
                            sw = StockholderWeight(PromoleculeDensity((zs[:2], pos[:2])), PromoleculeDensity((zs[2:], pos[2:])), background=bgv_)
                        else:
                            sw = StockholderWeight.from_arrays(zs[:2], pos[:2], zs[2:], pos[2:], background=bgv_)
                        ea, eb = tabn.rho(zs[:2], pos[:2], pts), tabn.rho(zs[2:], pos[2:], pts)
                        got = sw.weights(pts)
                        if not np.allclose(got, ea / (ea + eb + bgv_), rtol=1e-4, atol=1e-6):
                            return {"weights": np.asarray(got).tolist(), "oracle": (ea / (ea + eb + bgv_)).tolist()}
                    clause("weights", {"Z": zs, "atoms": pos.tolist(), "interior": [0, 1], "points": pts.tolist(), "background": bgv_, "route": route}, c_w)
            w = bad.get(seed_key) or (next(iter(bad.values())) if bad else None)
            return {"native_inputs": w, "reproduced": w is not None, "observed": f"clauses failing natively on the real classes: {sorted(bad)}" if bad else
                    "rows, positions, constructor domain, rho and weights clauses hold natively on seeded inputs"}
        return replay

    class Recorder:
        pass
    rec = Recorder()
    rec.kernel_rho_calls = []
    rec.kernel_w_calls = []

    def setup():
        MV = ClassVal(hm, hm.classes["MemView"])

        def k_rho_result(I, self_, pts):
            rec.kernel_rho_calls.append((self_, pts))
            return farr([z3.Real(f"kernel_rho_{len(rec.kernel_rho_calls)}_{j}") for j in range(pts.shape[0])]) if isinstance(pts, NDArr) else None

        def k_w_result(I, self_, pts):
            rec.kernel_w_calls.append((self_, pts))
            return farr([z3.Real(f"kernel_w_{len(rec.kernel_w_calls)}_{j}") for j in range(pts.shape[0])]) if isinstance(pts, NDArr) else None
        contracts = {KMOD + ".PromoleculeDensity.rho": Contract(result=k_rho_result),
                     KMOD + ".StockholderWeight.weights": Contract(result=k_w_result)}
        models = {"numpy.linalg.svd": ModelFn("numpy.linalg.svd", lambda I, a, **kw: (None, None, None))}
        if pyx is not None:
            I = ctx.interp(contracts=contracts, models=models)
            models2 = {KMOD + ".PromoleculeDensity": I.class_of(pyx.mod, "PromoleculeDensity"), KMOD + ".StockholderWeight": I.class_of(pyx.mod, "StockholderWeight")}
            I.models.update(models2)
        else:
            raise RuntimeError("kernel classes unavailable (extraction failed)")

        @native
        def mv_get(o, idx):
            # _RHO[el - 1, :]  -> row of KN cells RHO(el-1, k); the row index must be a valid NON-NEGATIVE index (numpy would silently wrap a negative one)
            row, sl = idx
            assert isinstance(sl, slice) and sl == slice(None)
            from pyvc.values import PyRaise
            if not I.decide(z(b_and(num_cmp("<=", -103, row), num_cmp("<", row, 103)))):       # numpy: IndexError outside [-103, 103)
                raise PyRaise("IndexError", "row of _RHO out of bounds")
            I.oblige("index", b_and(num_cmp("<=", 0, row), num_cmp("<", row, 103)), "row of _RHO selected for an atom lies in 0..102 (no negative wrap-around, no overflow)")
            return farr([RHO(z(row), k) for k in range(KN)])
        I.module_globals[("contracts.c05_harness", "mv_get")] = mv_get
        I.module_globals[(DMOD, "_RHO")] = Obj(MV, {"name": "_RHO"})
        I.module_globals[(DMOD, "_DOMAIN")] = farr([DOM(k) for k in range(KN)])
        return I

    NAT = 2
    Z = [z3.Int(f"Z{i}") for i in range(NAT)]
    POS = [[z3.Real(f"a{i}_{c}") for c in range(3)] for i in range(NAT)]
    ZB = [z3.Int(f"ZB{i}") for i in range(1)]
    POSB = [[z3.Real(f"b{i}_{c}") for c in range(3)] for i in range(1)]
    PTS = [[z3.Real(f"pt{j}_{c}") for c in range(3)] for j in range(2)]
    bgv = z3.Real("background")

    def same_cells(arr, rows):
        flat = [c for r_ in rows for c in (r_ if isinstance(r_, list) else [r_])]
        if not (isinstance(arr, NDArr) and len(arr.flat()) == len(flat)):
            return False
        return conj([z(to_real(x)) == z(to_real(y)) for x, y in zip(arr.flat(), flat)])

    def ob_init():
        I = setup()
        PD = I.class_of(dmod, "PromoleculeDensity")

        def thunk(I2, a, kw):
            return I2.instantiate(PD, [([Z[0], Z[1]], [list(POS[0]), list(POS[1])])], {})
        res = I.explore(thunk)
        rep = native_rows("rows")
        lab = "density.PromoleculeDensity.__init__/ensures/"
        inrange = conj([z3.And(Z[i] >= 1, Z[i] <= 103) for i in range(NAT)])
        nret = 0
        kl = kind_labels(res)
        for r in res:
            k = "_" + kl[id(r)]
            cover(ctx, lab + 'path' + k, r.pc)
            if r.kind == "raise":
                ctx.prove(lab + f"rejects_only_invalid/path{k}", r.pc, z3.Not(inrange), clause="the constructor raises only when some atomic number is outside 1..103", replay=native_rows("domain"), fn=f_init)
                ctx.prove(lab + f"raises_value_error/path{k}", r.pc, r.value.exc_type == "ValueError", clause="and then it raises ValueError", replay=native_rows("domain"), fn=f_init)
                continue
            nret += 1
            o = r.value
            ctx.prove(lab + f"accepts_only_valid/path{k}", r.pc, inrange, clause="a constructed density has all atomic numbers in 1..103", replay=native_rows("domain"), fn=f_init)
            kd = o.fields.get("dens")
            rd = kd.fields.get("rho_data") if isinstance(kd, Obj) else None
            good = isinstance(rd, NDArr) and rd.shape == (NAT, KN)
            ctx.prove(lab + f"rows_bound/path{k}", r.pc, conj([z(to_real(rd.data[i, c])) == RHO(Z[i] - 1, c) for i in range(NAT) for c in range(KN)]) if good else False, split=False,
                      clause="the kernel receives rho_data with row i == _RHO[Z_i - 1] (every column): atom i is bound to the tabulated density of ITS element", replay=rep, fn=f_init)
            dm = kd.fields.get("domain") if isinstance(kd, Obj) else None
            ctx.prove(lab + f"domain_bound/path{k}", r.pc, conj([z(to_real(dm.data[c])) == DOM(c) for c in range(KN)]) if isinstance(dm, NDArr) and dm.shape == (KN,) else False, split=False,
                      clause="the kernel receives the tabulated squared-distance grid _DOMAIN", replay=rep, fn=f_init)
            kp = kd.fields.get("positions") if isinstance(kd, Obj) else None
            ctx.prove(lab + f"positions_bound/path{k}", r.pc, same_cells(kp, POS), split=False, clause="the kernel receives the atom positions unchanged, in the given order",
                      replay=native_rows("positions"), fn=f_init)
        ctx.ground(lab + "constructible", nret >= 1, tag="F", clause="there is a normally returning constructor path", detail={"paths": [r.kind for r in res]}, witness={"paths": [r.kind for r in res]}, fn=f_init)
        # index obligations of the paths that construct an object (a path that ends in the constructor's ValueError has no object to speak about)
        # judged under the FULL path condition of the execution: a negative row index is not an error in Python by itself, it matters only if an object is constructed from it
        nidx = 0
        for r in res:
            if r.kind != "return":
                continue
            for kind, _pc, goal, note in getattr(r, "safety", []):
                nidx += 1
                ctx.prove(f"density.PromoleculeDensity.__init__/safe/{kind}/{nidx}", r.pc, goal, clause=f"{kind} {note} (on every execution that constructs an object)".strip(), replay=rep, fn=f_init)
    ctx.attempt("density.PromoleculeDensity.__init__/ensures", ob_init, replay=native_rows("rows"))

    def ob_rho_wrapper():
        I = setup()
        PD = I.class_of(dmod, "PromoleculeDensity")
        del rec.kernel_rho_calls[:]

        def thunk(I2, a, kw):
            del rec.kernel_rho_calls[:]
            d = I2.instantiate(PD, [([Z[0], Z[1]], [list(POS[0]), list(POS[1])])], {})
            out = I2.call(I2.getattr(d, "rho"), [[list(PTS[0]), list(PTS[1])]])
            return d, out, list(rec.kernel_rho_calls)
        res = [r for r in I.explore(thunk) if r.kind == "return"]
        rep = native_rows("rho")
        lab = "density.PromoleculeDensity.rho/ensures/"
        ctx.ground(lab + "returns", len(res) >= 1, tag="F", clause="rho returns on valid input", detail={"paths": len(res)}, witness={"paths": len(res)}, fn=f_rho)
        kl = kind_labels(res)
        for r in res:
            k = "_" + kl[id(r)]
            cover(ctx, lab + 'path' + k, r.pc)
            d, out, calls = r.value
            ok = len(calls) == 1 and calls[0][0] is d.fields.get("dens")
            ctx.prove(lab + f"forwards/path{k}", r.pc, same_cells(calls[0][1], PTS) if ok else False, split=False,
                      clause="rho(points) evaluates the kernel object built by the constructor at exactly the given points", replay=rep, fn=f_rho)
            exp = [z3.Real(f"kernel_rho_1_{j}") for j in range(2)]
            ctx.prove(lab + f"result/path{k}", r.pc, same_cells(out, exp) if ok else False, split=False, clause="and returns the kernel's values unchanged", replay=rep, fn=f_rho)
    ctx.attempt("density.PromoleculeDensity.rho/ensures", ob_rho_wrapper, replay=native_rows("rho"))

    def ob_stock():
        I = setup()
        PD, SW = I.class_of(dmod, "PromoleculeDensity"), I.class_of(dmod, "StockholderWeight")
        rep = native_rows("weights")
        for route in ("constructor", "from_arrays"):
            def thunk(I2, a, kw, route=route):
                del rec.kernel_w_calls[:]
                if route == "constructor":
                    da = I2.instantiate(PD, [([Z[0], Z[1]], [list(POS[0]), list(POS[1])])], {})
                    db = I2.instantiate(PD, [([ZB[0]], [list(POSB[0])])], {})
                    sw = I2.instantiate(SW, [da, db], {"background": bgv})
                else:
                    sw = I2.call(I2.getattr(SW, "from_arrays"), [farr_int(Z), farr(POS), farr_int(ZB), farr(POSB)], {"background": bgv})
                out = I2.call(I2.getattr(sw, "weights"), [farr(PTS)])
                return sw, out, list(rec.kernel_w_calls)
            res = [r for r in I.explore(thunk) if r.kind == "return"]
            fn_ = f_sinit if route == "constructor" else f_fa
            lab = f"density.StockholderWeight/{route}/ensures/"
            ctx.ground(lab + "returns", len(res) >= 1, tag="F", clause="construction + weights returns on valid input", detail={"paths": len(res)}, witness={"paths": len(res)}, fn=fn_)
            kl = kind_labels(res)
            for r in res:
                k = "_" + kl[id(r)]
                cover(ctx, lab + 'path' + k, r.pc)
                sw, out, calls = r.value
                ks = sw.fields.get("s")
                da, db = sw.fields.get("dens_a"), sw.fields.get("dens_b")
                ok = isinstance(ks, Obj) and isinstance(da, Obj) and isinstance(db, Obj)
                ka, kb = (ks.fields.get("dens_a"), ks.fields.get("dens_b")) if ok else (None, None)
                ok = ok and isinstance(ka, Obj) and isinstance(kb, Obj)
                def rows_of(kobj, zs):
                    rd_ = kobj.fields.get("rho_data")
                    if not (isinstance(rd_, NDArr) and rd_.shape == (len(zs), KN)):
                        return False
                    return conj([z(to_real(rd_.data[i, c])) == RHO(zs[i] - 1, c) for i in range(len(zs)) for c in range(KN)])
                ctx.prove(lab + f"interior_exterior/path{k}", r.pc,
                          z(b_and(same_cells(ka.fields.get("positions"), POS), same_cells(kb.fields.get("positions"), POSB), rows_of(ka, Z), rows_of(kb, ZB))) if ok else False, split=False,
                          clause="the kernel weight object gets the interior set as dens_a and the exterior set as dens_b (positions and element rows), not exchanged", replay=rep, fn=fn_)
                ctx.prove(lab + f"background/path{k}", r.pc, z(to_real(ks.fields.get("background"))) == bgv if ok and ks.fields.get("background") is not None else False,
                          clause="the background density reaches the kernel unchanged", replay=rep, fn=fn_)
                okc = len(calls) == 1 and calls[0][0] is ks
                ctx.prove(lab + f"weights_forwards/path{k}", r.pc, same_cells(calls[0][1], PTS) if okc else False, split=False,
                          clause="weights(points) evaluates the kernel weight object at exactly the given points", replay=rep, fn=f_w)
                ctx.prove(lab + f"weights_result/path{k}", r.pc, same_cells(out, [z3.Real(f"kernel_w_1_{j}") for j in range(2)]) if okc else False, split=False,
                          clause="and returns the kernel's weights unchanged", replay=rep, fn=f_w)
    ctx.attempt("density.StockholderWeight/ensures", ob_stock, replay=native_rows("weights"))


def farr_int(vals):
    from pyvc.api import iarr
    return iarr(list(vals))


def xyz_files_standin(ctx):
    """StockholderWeight.from_xyz_files(f1, f2): f1 is the interior, f2 the exterior (added after a seeded change swapped them)."""
    import os
    import tempfile
    from chmpy.interpolate.density import StockholderWeight, PromoleculeDensity
    rng = np.random.default_rng(ctx.seed + 505)
    d = tempfile.mkdtemp(prefix="c05_")
    fails, evals = [], 0
    try:
        f1, f2 = os.path.join(d, "a.xyz"), os.path.join(d, "b.xyz")
        open(f1, "w").write("3\nwater\nO 0.0 0.0 0.0\nH 0.96 0.0 0.0\nH -0.24 0.93 0.0\n")
        open(f2, "w").write("2\nCO\nC 3.1 0.2 0.1\nO 4.2 0.3 0.0\n")
        sw = StockholderWeight.from_xyz_files(f1, f2)
        a, b = PromoleculeDensity.from_xyz_file(f1), PromoleculeDensity.from_xyz_file(f2)
        pts = rng.uniform(-1.5, 5.5, (400, 3)).astype(np.float32)
        keep = np.ones(len(pts), dtype=bool)
        for p_ in np.vstack([a.positions, b.positions]):
            keep &= np.linalg.norm(pts - p_, axis=1) > 0.3
        pts = pts[keep]
        w = np.asarray(sw.weights(pts), dtype=float)
        ra, rb = np.asarray(a.rho(pts), dtype=float), np.asarray(b.rho(pts), dtype=float)
        want = ra / (ra + rb)
        evals = len(pts)
        bad = np.where(np.abs(w - want) > 5e-5)[0]
        if len(bad):
            k = int(bad[0])
            fails.append({"input": {"interior_file": "water (3 atoms)", "exterior_file": "CO at 3-4 A", "point": pts[k].tolist()},
                          "observed": {"weight": float(w[k]), "interior/(interior+exterior)": float(want[k]), "exterior share": float(1 - want[k])},
                          "clause": "from_xyz_files(f1, f2): the weight is the share of the atoms of f1", "key": "from_xyz_files"})
        # the file is read when asked for: rewriting the same path and loading again gives the atoms now in the file
        open(f1, "w").write("2\nHF\nF 0.1 0.0 0.2\nH 1.0 0.1 0.2\n")
        a2 = PromoleculeDensity.from_xyz_file(f1)
        sw2 = StockholderWeight.from_xyz_files(f1, f2)
        ref = PromoleculeDensity(([9, 1], [[0.1, 0.0, 0.2], [1.0, 0.1, 0.2]]))
        q = pts[:60]
        q = q[(np.linalg.norm(q - np.array([0.1, 0.0, 0.2], dtype=np.float32), axis=1) > 0.3) & (np.linalg.norm(q - np.array([1.0, 0.1, 0.2], dtype=np.float32), axis=1) > 0.3)]
        r2, rr = np.asarray(a2.rho(q), dtype=float), np.asarray(ref.rho(q), dtype=float)
        w2 = np.asarray(sw2.weights(q), dtype=float)
        rbq = np.asarray(b.rho(q), dtype=float)
        evals += 2 * len(q)
        if not (np.allclose(r2, rr, rtol=1e-5) and np.allclose(w2, rr / (rr + rbq), atol=5e-5)):
            fails.append({"input": {"history": "write a.xyz (water), load it, overwrite a.xyz with HF, load it again"}, "observed": "the second load does not describe the atoms now in the file",
                          "clause": "from_xyz_file / from_xyz_files read the file as it is when called", "key": "from_xyz_reload"})
    finally:
        for f in os.listdir(d):
            os.unlink(os.path.join(d, f))
        os.rmdir(d)
    ctx.add_bounded("density.StockholderWeight.from_xyz_files/bounded/interior_is_first_file", "two different xyz files, 400 seeded points at least 0.3 A from every nucleus; then the first file rewritten and loaded again", evals, evals, fails,
                    rule="points evaluated")
