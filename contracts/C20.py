"""C20 -- quasi-random sequences are deterministic, in the unit cube, evenly stratified.

Anchors: chmpy/sampling/__init__.py (front end), _sobol.pyx, _lds.pyx (Cython kernels), _sobol_parameters.npz (Joe-Kuo table).

How the clauses are carried (details in ctx.explanation):
  * front-end dispatch ............................ P   (pyvc symbolic execution of the real `quasirandom`)
  * Sobol kernels, for ALL seeds / dimensions ....... P   (kernel VC generator c20_hoare over the de-cythonised .pyx text: loop
                                                          invariants, memory safety, result = spec X_d(seed-1)/2^32 for both kernels
                                                          => batch row = single point, value depends on (seed, coordinate) only, [0,1))
  * spec lemmas (Gray code, unit-triangular => stratified, shape of the direction numbers) ... L
  * Korobov kernels, for all seeds / dimensions ..... P   (same generator, integers unbounded, floats as reals)
  * table facts, stratification and (0,m,2)-net over the complete finite domain of the statement ... G  (extracted source text
                                                          executed with C semantics AND the compiled binary)
  * source <-> binary conformance, seed windows up to 10^6, determinism ... B
"""
import ast
import multiprocessing as mp
import os
import time

import numpy as np
import z3

from pyvc import solve, source
from pyvc.symex import ModelFn
from pyvc.values import Unsupported

from contracts import c20_decython as DC
from contracts import c20_hoare as H
from contracts import c20_rt as RT
from contracts import c20_spec as SP

PKG = "chmpy.sampling"
SAMPLING_DIR = os.path.join(source.SRC_ROOT, "chmpy", "sampling")
TWO32 = 4294967296.0
MAXD = 1000          # Sobol dimensions of the statement
MAXD_KGF = 64


# =====================================================================================================================
# native harness: the compiled kernels, and the extracted source text executed with C semantics
# =====================================================================================================================
class Native:
    def __init__(self, ext_sobol, ext_lds):
        import chmpy.sampling as front
        import chmpy.sampling._sobol as bs
        import chmpy.sampling._lds as bl
        self.front, self.bs, self.bl = front, bs, bl
        self.table = np.array(bs._SOBOL_DATA)
        self.src_s = DC.native_module(ext_sobol, RT.NPShim()) if ext_sobol is not None else None
        self.src_l = DC.native_module(ext_lds, RT.NPShim()) if ext_lds is not None else None
        self._dirs = {}

    def src(self, name, *args):
        mod = self.src_s if "sobol" in name else self.src_l
        RT.reset()
        return np.asarray(mod[name](*args))

    def dirs(self, D, bits):
        key = (D, bits)
        if key not in self._dirs:
            self._dirs[key] = [SP.ref_directions(self.table, d, bits) for d in range(D)]
        return self._dirs[key]

    def ref_block(self, start, end, D):
        """reference X_d(n) for seeds start..end, exact integers, shape (end-start+1, D)."""
        bits = max(1, int(end - 1).bit_length())
        dirs = self.dirs(D, max(bits, 13))
        n = np.arange(start - 1, end, dtype=np.uint64)
        g = n ^ (n >> np.uint64(1))
        out = np.zeros((len(n), D), dtype=np.uint64)
        for b in range(bits):
            mask = ((g >> np.uint64(b)) & np.uint64(1)).astype(bool)
            if not mask.any():
                continue
            col = np.array([dirs[d][b + 1] for d in range(D)], dtype=np.uint64)
            out[mask] ^= col[None, :]
        return out


def as_x(points):
    """float points -> (integers X = point * 2^32, ok flag: every value is a non-negative multiple of 2^-32 below 1)."""
    p = np.asarray(points, dtype=np.float64)
    sc = p * TWO32
    ok = bool(np.all(np.isfinite(p)) and np.all(p >= 0.0) and np.all(p < 1.0) and np.all(sc == np.floor(sc)))
    return sc.astype(np.uint64) if ok else None, ok


def stratification_failures(X, M):
    """X: (>=2^M, D) integer matrix of the first points.  For every m <= M and every column the top m bits of the first 2^m rows
    must be a permutation of 0..2^m-1.  -> list of (m, dim) that fail."""
    bad = []
    for m in range(1, M + 1):
        top = np.sort(X[: 1 << m] >> np.uint64(32 - m), axis=0)
        want = np.arange(1 << m, dtype=np.uint64)[:, None]
        cols = np.nonzero((top != want).any(axis=0))[0]
        bad.extend((m, int(c) + 1) for c in cols[:3])
    return bad


def net_failures(X, M):
    """(0,m,2)-net of the first two coordinates: every elementary box 2^-a x 2^-(m-a) holds exactly one of the first 2^m points."""
    bad = []
    if X.shape[1] < 2:
        return [("needs two coordinates",)]
    for m in range(0, M + 1):
        x0 = [int(v) for v in X[: 1 << m, 0]]
        x1 = [int(v) for v in X[: 1 << m, 1]]
        for a in range(0, m + 1):
            b = m - a
            cells = sorted(((u >> (32 - a)) << b) | (v >> (32 - b)) for u, v in zip(x0, x1))
            if cells != list(range(1 << m)):
                bad.append((m, a, b))
    return bad


# =====================================================================================================================
def build(ctx):
    ctx.level = "other"
    quick = ctx.tier == "quick"
    rng = np.random.default_rng(ctx.seed + 20)
    ctx.assumptions += [
        "Cython 3 / gcc compile the .pyx text to the C semantics used by the extraction (unsigned int = 32-bit wrap-around, for-range over C "
        "integers, typed memoryviews without bounds checks); the .so files were built from the .c files next to them (Cython is not installed, "
        "so the binary cannot be rebuilt: proofs speak about the .pyx text, the binary is tied to it by exhaustive / bounded run-time conformance)",
        "floats are mathematical reals in the Korobov proofs; uint32 -> double conversion and division by 2^32 are exact (true in IEEE double)",
        "libm: ceil(log(n)/log(2.0)) >= log2(n) for 1 <= n < 2^32 (ground-checked at every power of two and its neighbours, and for all n <= 2^16)",
        "the Sobol table read at run time is the bundled _sobol_parameters.npz; proofs about the kernels hold for any table whose rows have a non-zero "
        "first direction number, the stratification lemmas for any table with odd direction numbers (both checked exhaustively for the rows of dimensions <= 1000)",
        "numpy elementwise arithmetic / broadcasting / % (floor-mod) on float64 arrays (library model)",
    ]
    ctx.explanation = (
        "P: (1) front-end dispatch `quasirandom` by pyvc symbolic execution; (2) the two Sobol kernels for ALL seeds and dimensions <= 21201: the .pyx text is "
        "de-cythonised mechanically and executed symbolically (unsigned int = BitVec32, arrays = SMT arrays, classical invariant rule for the 9/11 loops); every "
        "array access is in bounds, every shift < 32, and the returned value of coordinate d for seed n is exactly u2d(Xs(d,n-1))/2^32 with Xs the Gray-code "
        "recurrence over the Joe-Kuo direction numbers -- the SAME spec term for quasirandom_sobol and every row of quasirandom_sobol_batch, which gives batch = "
        "single, dependence on (seed, coordinate) only and the range [0,1) for all inputs; (3) the Korobov kernels: batch row r equals the single point of seed "
        "L+r and all values are in [0,1), alpha depends on D only. L: Gray-code step, unit-triangular direction numbers => the first 2^m points are stratified "
        "(m <= 12), shape of the direction numbers through the recurrence, closed form of the Gray-code recurrence. G (complete finite domains): table facts for the "
        "rows of dimensions 1..1000; stratification for every dimension 1..1000 and every m <= 12 and the (0,m,2)-net of the first two coordinates, on the compiled "
        "binary (batch and, seed by seed, single generator) and on the extracted source text executed with C semantics (m <= 10 in the quick tier, 12 in thorough); "
        "equality with an independent reference implementation on the same domain. B (not counted): source-text/binary conformance on small inputs, batch/single "
        "agreement on seeded windows [s, s+k] with s <= 10^6, k <= 256 (Sobol and Korobov, through the front end), determinism of repeated calls, Korobov range for 1..64 dimensions.")

    # ------------------------------------------------------------------------------------------------ extraction
    state = {}

    def do_extract():
        try:
            state["sobol"] = DC.extract(os.path.join(SAMPLING_DIR, "_sobol.pyx"), PKG + "._sobol")
            state["lds"] = DC.extract(os.path.join(SAMPLING_DIR, "_lds.pyx"), PKG + "._lds")
        except DC.ExtractionError as e:
            raise Unsupported(f"de-cythoniser: {e}")
        for key, names in (("sobol", ("quasirandom_sobol", "quasirandom_sobol_batch")), ("lds", ("phi", "alpha", "quasirandom_kgf", "quasirandom_kgf_batch"))):
            for n in names:
                if n not in state[key].functions:
                    raise Unsupported(f"kernel function {n} not found in the .pyx text")
                d = state[key].describe(n)
                ctx.functions[d["qualname"]] = d
        return True
    ctx.attempt("sampling.kernels/extraction", do_extract)
    ext_s, ext_l = state.get("sobol"), state.get("lds")
    f_front = ctx.fn(PKG, "quasirandom")
    for key, ext in (("_sobol", ext_s), ("_lds", ext_l)):
        skew = source_binary_skew(os.path.join(SAMPLING_DIR, key + ".pyx"), os.path.join(SAMPLING_DIR, key + ".c"))
        ctx.notes.append(f"{key}.pyx vs the .c the binary was built from: " + ("no skew" if not skew else f"SOURCE/BINARY SKEW, e.g. {skew[:2]} "
                         "(proofs and extracted-source obligations speak about the .pyx text, run-time obligations about the stale binary)"))

    nat = Native(ext_s, ext_l)
    state["nat"] = nat
    table = nat.table

    # ------------------------------------------------------------------------------------------------ G: table facts
    t0 = time.time()
    rows_used = table[2: MAXD + 1]          # coordinate j >= 1 reads row j+1; dimensions 2..1000 -> rows 2..1000
    bad = {k: [] for k in ("shape", "prefix", "odd", "bound", "poly", "degree")}
    if table.ndim != 2 or table.shape[0] < MAXD + 1 or table.dtype != np.uint32:
        bad["shape"].append({"shape": list(table.shape), "dtype": str(table.dtype)})
    for r, row in enumerate(rows_used, start=2):
        row = [int(x) for x in row]
        s = SP.ref_degree(row)
        nz = [x != 0 for x in row[1:]]
        if not (s >= 1 and all(nz[:s]) and not any(nz[s:])):
            bad["prefix"].append({"row": r, "entries": row})
        if not all(row[i] % 2 == 1 for i in range(1, s + 1)):
            bad["odd"].append({"row": r, "entries": row[: s + 1]})
        if not all(row[i] < (1 << i) for i in range(1, s + 1)):
            bad["bound"].append({"row": r, "entries": row[: s + 1]})
        if not (row[0] < (1 << max(0, s - 1))):
            bad["poly"].append({"row": r, "a": row[0], "s": s})
        if not (1 <= s <= 13 and s < table.shape[1] - 2):
            bad["degree"].append({"row": r, "s": s})
    tcl = {"shape": "the table is a 2-D uint32 array with a row for every dimension <= 1000",
           "prefix": "the non-zero direction numbers of a row form a non-empty prefix (so the kernel's scan finds the degree)",
           "odd": "every initial direction number m_i is odd (unit diagonal of the generator matrix: what stratification needs)",
           "bound": "m_i < 2^i (direction numbers are proper binary fractions; the 32-bit shift loses no bit)",
           "poly": "the polynomial word a has at most s-1 bits",
           "degree": "1 <= s <= 13 (the scan always stops at a zero entry inside the row)"}
    for k, cl in tcl.items():
        ctx.ground(f"sampling._sobol_parameters/table/{k}", not bad[k], clause=cl + f" -- rows 2..{MAXD} (dimensions 2..{MAXD})",
                   detail={"failing": len(bad[k]), "first": bad[k][:3]}, witness=bad[k][:3], seconds=round((time.time() - t0) / 6, 3))
    full = [r for r in range(2, table.shape[0]) if SP.ref_degree([int(x) for x in table[r]]) == table.shape[1] - 2 and table[r][-1] != 0]
    if full:
        ctx.notes.append(f"outside the property's domain: {len(full)} table rows (first: dimension {full[0]}) have no zero entry; the kernels' degree scan then "
                         f"ends with s = width-2 = {table.shape[1] - 2} instead of {table.shape[1] - 1} and ignores the last direction number (dimensions > 1000 only)")

    # libm ground check behind the model of  <unsigned>(ceil(log(<double>N)/log(2.0)))
    t0 = time.time()
    worst = []
    cands = set(range(1, (1 << 16) + 2))
    for k in range(0, 32):
        cands.update(x for x in ((1 << k) - 1, 1 << k, (1 << k) + 1) if 1 <= x < (1 << 32))
    cands.update(int(x) for x in rng.integers(1, 1 << 32, size=2000))
    for n in cands:
        L = int(RT.ceil(RT.log(float(n)) / RT.log(2.0)))
        if not (0 <= L <= 32 and n <= (1 << L)):
            worst.append({"n": n, "L": L})
    ctx.ground("sampling._sobol/libm/log2_ceiling", not worst, clause="ceil(log(n)/log(2.0)) is an upper bound of log2(n) and <= 32: n <= 2^L (all n <= 2^16+1, "
               "every 2^k-1, 2^k, 2^k+1 below 2^32)", detail={"checked": len(cands), "failing": worst[:3]}, witness=worst[:3], seconds=round(time.time() - t0, 3))

    # ------------------------------------------------------------------------------------------------ G: complete finite domain, binary
    M = 12
    fn_s = ctx.functions.get(PKG + "._sobol.quasirandom_sobol")
    fn_b = ctx.functions.get(PKG + "._sobol.quasirandom_sobol_batch")
    t0 = time.time()
    ref = nat.ref_block(1, 1 << M, MAXD)
    ref_strat = stratification_failures(ref, M)
    binary_domain(ctx, nat, ref, M, fn_s, fn_b)
    ctx.notes.append(f"binary finite-domain obligations: {time.time() - t0:.1f}s; reference itself stratified: {not ref_strat}")

    # ------------------------------------------------------------------------------------------------ G: complete finite domain, extracted source
    if ext_s is not None:
        Ms = 10 if quick else 12
        t0 = time.time()
        source_domain(ctx, nat, ref, Ms, fn_b)
        ctx.notes.append(f"extracted-source finite-domain obligations (m <= {Ms}): {time.time() - t0:.1f}s")

    # ------------------------------------------------------------------------------------------------ B: bounded stand-ins
    t0 = time.time()
    bounded_checks(ctx, nat, rng, quick, ext_s is not None, ext_l is not None)
    ctx.notes.append(f"bounded stand-ins: {time.time() - t0:.1f}s")

    # ------------------------------------------------------------------------------------------------ engine guard: symbolic semantics vs native C semantics
    if ext_s is not None:
        ctx.attempt("sampling._sobol/engine/encoding_crosscheck", lambda: encoding_crosscheck(ctx, ext_s, nat, quick))

    # ------------------------------------------------------------------------------------------------ P: front end
    front_end(ctx, f_front)

    # ------------------------------------------------------------------------------------------------ L: lemmas about the spec
    lemmas(ctx)

    # ------------------------------------------------------------------------------------------------ P: kernels
    t0 = time.time()
    pending = []
    if ext_s is not None:
        ctx.attempt("sampling._sobol.quasirandom_sobol/vcs", lambda: pending.extend(sobol_vcs(ctx, ext_s, table.shape, "quasirandom_sobol", nat)))
        ctx.attempt("sampling._sobol.quasirandom_sobol_batch/vcs", lambda: pending.extend(sobol_vcs(ctx, ext_s, table.shape, "quasirandom_sobol_batch", nat)))
    if ext_l is not None:
        ctx.attempt("sampling._lds.quasirandom_kgf/vcs", lambda: pending.extend(korobov_vcs(ctx, ext_l, nat)))
    register_vcs(ctx, pending, vacuity=not quick)
    ctx.notes.append(f"kernel VC generation: {len(pending)} VCs in {time.time() - t0:.1f}s")


# =====================================================================================================================
# source / binary binding
# =====================================================================================================================
def source_binary_skew(pyx, cfile):
    """code lines of the .pyx that do not occur in the comments of the generated C the .so was built from."""
    if not os.path.exists(cfile):
        return ["generated C file missing"]
    ctext = open(cfile, errors="replace").read()
    embedded = set()
    for line in ctext.splitlines():
        if line.startswith(" * "):
            embedded.add(line[3:].replace("# <<<<<<<<<<<<<<", "").strip())
    missing = []
    in_doc = False
    for raw in open(pyx).read().splitlines():
        s = raw.strip()
        if s.count('"""') == 1:
            in_doc = not in_doc
            continue
        if in_doc or not s or s.startswith("#") or s.startswith('"""'):
            continue
        if s not in embedded and s.split("#")[0].strip() not in embedded:
            missing.append(s[:60])
    return missing


# =====================================================================================================================
# G obligations over the complete finite domain of the statement
# =====================================================================================================================
def _first(xs, n=3):
    return list(xs)[:n]


def binary_domain(ctx, nat, ref, M, fn_s, fn_b):
    npts = 1 << M
    t0 = time.time()
    try:
        pts = np.asarray(nat.bs.quasirandom_sobol_batch(1, npts, MAXD))
        err = None
    except Exception as e:  # noqa
        pts, err = None, repr(e)
    X, ok = as_x(pts) if pts is not None and pts.shape == (npts, MAXD) else (None, False)
    dom = f"first 2^{M} points (seeds 1..{npts}) x dimensions 1..{MAXD}"
    wit = {"call": f"quasirandom_sobol_batch(1, {npts}, {MAXD})", "error": err}
    ctx.ground("sampling._sobol.quasirandom_sobol_batch/ensures/unit_interval/finite", ok, clause=f"every coordinate is a multiple of 2^-32 in [0,1) -- {dom}",
               witness=wit, detail=wit, fn=fn_b, seconds=round(time.time() - t0, 3))
    if not ok:
        return
    t0 = time.time()
    diff = np.argwhere(X != ref)
    w = [{"seed": int(r) + 1, "dimension": int(c) + 1, "observed": int(X[r, c]), "expected": int(ref[r, c])} for r, c in diff[:3]]
    ctx.ground("sampling._sobol.quasirandom_sobol_batch/ensures/spec/finite", len(diff) == 0, clause=f"X_d(n) = xor of Joe-Kuo direction numbers over gray(n) (independent reference) -- {dom}",
               witness=w, detail={"mismatches": int(len(diff)), "first": w}, fn=fn_b, seconds=round(time.time() - t0, 3))
    t0 = time.time()
    sf = stratification_failures(X, M)
    ctx.ground("sampling._sobol.quasirandom_sobol_batch/ensures/stratified/finite", not sf,
               clause=f"in every coordinate the first 2^m points occupy each of the 2^m sub-intervals exactly once, every m <= {M} -- dimensions 1..{MAXD} (batch generator, compiled)",
               witness=[{"m": m, "dimension": d, "call": f"quasirandom_sobol_batch(1, {1 << m}, {d})"} for m, d in sf[:3]], detail={"failing (m, dimension)": sf[:6]}, fn=fn_b,
               seconds=round(time.time() - t0, 3))
    t0 = time.time()
    nf = net_failures(X[:, :2], M)
    ctx.ground("sampling._sobol.quasirandom_sobol_batch/ensures/net02/finite", not nf,
               clause=f"the first two coordinates of the first 2^m points form a (0,m,2)-net: one point in every elementary box 2^-a x 2^-(m-a), every m <= {M}",
               witness=[{"m": x[0], "box": list(x[1:]), "call": f"quasirandom_sobol_batch(1, {1 << x[0]}, 2)"} for x in nf[:3] if len(x) == 3], detail={"failing (m, a, b)": nf[:6]}, fn=fn_b,
               seconds=round(time.time() - t0, 3))
    # single generator, seed by seed, same domain
    t0 = time.time()
    badrows, err = [], None
    for n in range(1, npts + 1):
        try:
            p = np.asarray(nat.bs.quasirandom_sobol(n, MAXD))
        except Exception as e:  # noqa
            err = repr(e)
            badrows.append({"seed": n, "error": err})
            break
        if p.shape != (MAXD,) or not np.array_equal(p, pts[n - 1]):
            d = int(np.nonzero(p != pts[n - 1])[0][0]) if p.shape == (MAXD,) else -1
            badrows.append({"seed": n, "dimension": d + 1, "single": float(p[d]) if d >= 0 else None, "batch_row": float(pts[n - 1][d]) if d >= 0 else None,
                            "call": f"quasirandom_sobol({n}, {MAXD}) vs quasirandom_sobol_batch(1, {npts}, {MAXD})[{n - 1}]"})
            if len(badrows) >= 3:
                break
    ctx.ground("sampling._sobol.quasirandom_sobol/ensures/equals_batch_row/finite", not badrows,
               clause=f"quasirandom_sobol(n, {MAXD}) is row n-1 of quasirandom_sobol_batch(1, {npts}, {MAXD}) for every seed n <= {npts} (so the single generator is stratified and a net on the same domain)",
               witness=badrows[:3], detail={"failing": badrows[:3]}, fn=fn_s, seconds=round(time.time() - t0, 3))


def source_domain(ctx, nat, ref, M, fn_b):
    npts = 1 << M
    t0 = time.time()
    dom = f"first 2^{M} points x dimensions 1..{MAXD}, extracted .pyx text executed with C semantics"
    call = f"<extracted> quasirandom_sobol_batch(1, {npts}, {MAXD})"
    try:
        pts = nat.src("quasirandom_sobol_batch", 1, npts, MAXD)
        err = None
    except Exception as e:  # noqa  (CUndefined, IndexError, ...)
        pts, err = None, f"{type(e).__name__}: {e}"
    ctx.ground("sampling._sobol.quasirandom_sobol_batch/source/defined/finite", err is None and pts is not None and pts.shape == (npts, MAXD),
               clause=f"no undefined behaviour (out-of-bounds, uninitialised read, shift >= 32) and shape (n, D) -- {dom}", witness={"call": call, "error": err},
               detail={"error": err}, fn=fn_b, seconds=round(time.time() - t0, 3))
    if err is not None or pts is None or pts.shape != (npts, MAXD):
        return
    X, ok = as_x(pts)
    ctx.ground("sampling._sobol.quasirandom_sobol_batch/source/unit_interval/finite", ok, clause=f"every coordinate is a multiple of 2^-32 in [0,1) -- {dom}",
               witness={"call": call, "min": float(np.min(pts)), "max": float(np.max(pts))}, fn=fn_b)
    if not ok:
        return
    diff = np.argwhere(X != ref[:npts])
    w = [{"call": call, "seed": int(r) + 1, "dimension": int(c) + 1, "observed": int(X[r, c]), "expected": int(ref[r, c])} for r, c in diff[:3]]
    ctx.ground("sampling._sobol.quasirandom_sobol_batch/source/spec/finite", len(diff) == 0, clause=f"equals the independent Gray-code / Joe-Kuo reference -- {dom}", witness=w,
               detail={"mismatches": int(len(diff)), "first": w}, fn=fn_b)
    sf = stratification_failures(X, M)
    ctx.ground("sampling._sobol.quasirandom_sobol_batch/source/stratified/finite", not sf, clause=f"stratification of the first 2^m points in every coordinate, m <= {M} -- {dom}",
               witness=[{"call": call, "m": m, "dimension": d} for m, d in sf[:3]], detail={"failing (m, dimension)": sf[:6]}, fn=fn_b)
    nf = net_failures(X[:, :2], M)
    ctx.ground("sampling._sobol.quasirandom_sobol_batch/source/net02/finite", not nf, clause=f"(0,m,2)-net of the first two coordinates, m <= {M} -- {dom}",
               witness=[{"call": call, "m": x[0], "box": list(x[1:])} for x in nf[:3]], detail={"failing (m, a, b)": nf[:6]}, fn=fn_b)


# =====================================================================================================================
# B: bounded stand-ins
# =====================================================================================================================
def fresh_results_standin(ctx):
    """Results depend only on (seed, dimension): a caller modifying a returned array in place must not change what later calls return."""
    import ast as _ast
    from pyvc import source as _src
    from chmpy.sampling import quasirandom
    f = ctx.fn("chmpy.sampling", "quasirandom")
    decos = [_ast.unparse(d) for d in f.node.decorator_list]
    ctx.pattern("sampling.quasirandom/no_result_cache", not any("cache" in d for d in decos), clause="the front end is not memoised (a cached mutable array would be shared between callers)",
                detail=decos, fn=f, fallback=lambda: None)
    fails, evals = [], 0
    for method in ("sobol", "kgf"):
        for args in ((64, 3), (1, 5), (17,)):
            kw = {"method": method, "seed": 7}
            evals += 1
            try:
                a = np.array(quasirandom(*args, **kw), dtype=float, copy=True)
                first = quasirandom(*args, **kw)
                try:
                    first *= 2.0
                    first -= 1.0
                except (TypeError, ValueError):
                    pass
                again = np.asarray(quasirandom(*args, **kw), dtype=float)
            except Exception as e:  # noqa  -- an exception of the code under test on a valid call is a failing input, not a checker error
                fails.append({"input": {"args": list(args), "method": method, "seed": 7}, "observed": {"raised": repr(e)[:200]}, "clause": "quasirandom returns for valid arguments", "key": "raises"})
                continue
            if again.shape != a.shape or not np.array_equal(again, a):
                fails.append({"input": {"args": list(args), "method": method, "seed": 7, "history": "call, rescale the returned array in place, call again"},
                              "observed": {"second_call_min": float(np.min(again)), "second_call_max": float(np.max(again)), "equal_to_first_call": False},
                              "clause": "results depend only on (seed, dimension): an earlier caller's in-place edit of its result does not change later results", "key": "result-aliasing"})
    ctx.add_bounded("sampling.quasirandom/bounded/results_not_shared", "sobol and kgf, three argument shapes; call, modify the result in place, call again", evals, evals, fails[:3], rule="calls")


def front_end_tables(ctx):
    """G: every method name the front end accepts has a batch and a single-point generator of the same sequence, and the default call returns the head of the sequence."""
    import chmpy.sampling as front
    f = ctx.fn("chmpy.sampling", "quasirandom")
    bad = []
    if set(front._BATCH) != set(front._SINGLE):
        bad.append({"batch_only": sorted(set(front._BATCH) - set(front._SINGLE)), "single_only": sorted(set(front._SINGLE) - set(front._BATCH))})
    n = 0
    for method in sorted(set(front._BATCH) & set(front._SINGLE)):
        for seed, count, dim in ((1, 9, 3), (5, 4, 1), (100, 17, 6), (2, 1, 2)):
            n += 1
            try:
                batch = np.asarray(front.quasirandom(count, dim, method=method, seed=seed), dtype=float)
                singles = np.array([np.asarray(front.quasirandom(dim, method=method, seed=seed + k), dtype=float) for k in range(count)])
                if batch.shape != (count, dim) or not np.array_equal(batch, singles.reshape(count, dim)):
                    bad.append({"method": method, "seed": seed, "count": count, "dimensions": dim, "batch_shape": list(batch.shape), "equal": False})
            except Exception as e:  # noqa
                bad.append({"method": method, "seed": seed, "count": count, "dimensions": dim, "raised": repr(e)[:160]})
        # the start seed / the counts handed over as numpy integers (as they come out of an integer array): same points as for Python ints
        for mk_, nm_ in ((np.int64, "numpy.int64"), (np.int32, "numpy.int32"), (np.uint16, "numpy.uint16")):
            n += 1
            try:
                ref_b = np.asarray(front.quasirandom(7, 3, method=method, seed=11), dtype=float)
                ref_s = np.asarray(front.quasirandom(3, method=method, seed=11), dtype=float)
                got_b = np.asarray(front.quasirandom(7, 3, method=method, seed=mk_(11)), dtype=float)
                got_c = np.asarray(front.quasirandom(mk_(7), mk_(3), method=method, seed=11), dtype=float)
                got_s = np.asarray(front.quasirandom(3, method=method, seed=mk_(11)), dtype=float)
                if got_b.shape != ref_b.shape or got_c.shape != ref_b.shape or not (np.array_equal(got_b, ref_b) and np.array_equal(got_c, ref_b) and np.array_equal(got_s.reshape(-1), ref_s.reshape(-1))):
                    bad.append({"method": method, "seed": 11, "count": 7, "dimensions": 3, "integers_given_as": nm_, "batch_shape": list(got_b.shape), "equal": False})
            except Exception as e:  # noqa
                bad.append({"method": method, "seed": 11, "integers_given_as": nm_, "raised": repr(e)[:160]})
        # long batches (a front end may build them in pieces): lengths around the powers of two up to 2^13, shape and the rows at the ends / piece boundaries
        for k in range(8, 14):
            for count in (2 ** k - 1, 2 ** k, 2 ** k + 1):
                n += 1
                seed, dim = 1 + (k % 3), 1 + (k % 2)
                try:
                    batch = np.asarray(front.quasirandom(count, dim, method=method, seed=seed), dtype=float)
                    rows = sorted({0, 1, count - 2, count - 1, count // 2} | {j for p in range(8, k + 1) for j in (2 ** p - 1, 2 ** p) if j < count})
                    ok = batch.shape == (count, dim) and all(np.array_equal(batch[j], np.asarray(front.quasirandom(dim, method=method, seed=seed + j), dtype=float).reshape(dim)) for j in rows)
                    if not ok:
                        bad.append({"method": method, "seed": seed, "count": count, "dimensions": dim, "batch_shape": list(batch.shape), "equal": False})
                except Exception as e:  # noqa
                    bad.append({"method": method, "seed": seed, "count": count, "dimensions": dim, "raised": repr(e)[:160]})
    ctx.ground("sampling.quasirandom/tables/every_method_batch_equals_single", not bad, clause=f"for every method name in the dispatch tables ({sorted(front._BATCH)}) the batch form returns, row by row, "
               "the single-point form for the same seeds", detail=bad[:3], witness=bad[:2], fn=f)
    bad2 = []
    for method in sorted(set(front._BATCH) & set(front._SINGLE)):
        try:
            a_, b_ = np.asarray(front.quasirandom(8, 2, method=method)), np.asarray(front.quasirandom(8, 2, method=method, seed=1))
            c_, d_ = np.asarray(front.quasirandom(3, method=method)), np.asarray(front.quasirandom(3, method=method, seed=1))
            if not (np.array_equal(a_, b_) and np.array_equal(c_, d_)):
                bad2.append({"method": method, "default_call_equals_seed_1": False})
        except Exception as e:  # noqa
            bad2.append({"method": method, "raised": repr(e)[:160]})
    ctx.ground("sampling.quasirandom/default_seed_is_head_of_sequence", not bad2, clause="the call without a seed returns the points of seeds 1, 2, ... (the head of the sequence: the stratification clause is about "
               "the FIRST 2^m points)", detail=bad2, witness=bad2[:2], fn=f)


def bounded_checks(ctx, nat, rng, quick, have_s, have_l):
    front_end_tables(ctx)
    fresh_results_standin(ctx)
    front = nat.front
    # ---- (1) extracted source text vs compiled binary (ties the proofs about the text to the binary that runs)
    fails, n_eval, distinct = [], 0, set()
    cases = []
    if have_s:
        for n in list(range(1, 41)) + [63, 64, 65, 127, 128, 129, 255, 256, 257, 300]:
            cases.append(("quasirandom_sobol", (n, int(rng.integers(1, 25)))))
        for _ in range(10 if quick else 120):
            a = int(rng.integers(1, 200))
            cases.append(("quasirandom_sobol_batch", (a, a + int(rng.integers(0, 40)), int(rng.integers(1, 25)))))
        cases += [("quasirandom_sobol", (513, MAXD)), ("quasirandom_sobol_batch", (1, 1, 1)), ("quasirandom_sobol_batch", (2, 2, 3)), ("quasirandom_sobol_batch", (100, 130, 200))]
    if have_l:
        for _ in range(20 if quick else 200):
            cases.append(("quasirandom_kgf", (int(rng.integers(0, 10 ** 6)), int(rng.integers(1, MAXD_KGF + 1)))))
            a = int(rng.integers(0, 10 ** 6))
            cases.append(("quasirandom_kgf_batch", (a, a + int(rng.integers(0, 257)), int(rng.integers(1, MAXD_KGF + 1)))))
    for name, args in cases:
        n_eval += 1
        distinct.add((name,) + tuple(args))
        binmod = nat.bs if "sobol" in name else nat.bl
        try:
            want = np.asarray(getattr(binmod, name)(*args))
            got = nat.src(name, *args)
            if got.shape != want.shape or not np.array_equal(got, want):
                d = np.argwhere(got != want)[0].tolist() if got.shape == want.shape else None
                fails.append({"input": {"function": name, "args": list(args)}, "observed": {"first_differing_index": d, "source_text": float(got[tuple(d)]) if d else str(got.shape),
                              "binary": float(want[tuple(d)]) if d else str(want.shape)}, "clause": "extracted .pyx text (C semantics) and compiled kernel return identical arrays",
                              "key": name})
        except Exception as e:  # noqa
            fails.append({"input": {"function": name, "args": list(args)}, "observed": f"{type(e).__name__}: {e}", "clause": "extracted .pyx text runs without undefined behaviour", "key": name})
        if len(fails) >= 3:
            break
    ctx.add_bounded("sampling.kernels/conformance/source_vs_binary", "Sobol: seeds <= 300 (+513 in 1000 dims), windows inside [1,240], D <= 24/200; Korobov: seeds < 10^6, windows k <= 256, D <= 64",
                    n_eval, len(distinct), [], samples=[{"case": list(c)} for c in list(distinct)[:2]], rule="one evaluation = one (function, arguments) pair run through the extracted text and the binary; distinct = distinct argument tuples")
    if fails:
        # Not a clause of the property: the .pyx text and the (stale, not rebuildable) binary disagree.  The obligations about the text (P, G source/...) and
        # the obligations about the binary (G .../finite, B windows) each speak for themselves; what is lost is the transfer of the proofs to the binary.
        ctx.notes.append(f"SOURCE/BINARY SKEW: extracted .pyx text and compiled kernel disagree, e.g. {fails[0]['input']} -> {fails[0]['observed']}")
        ctx.undecided("sampling.kernels/binding/source_matches_binary", f"the .pyx text and the compiled binary disagree on {fails[0]['input']}: proofs about the text do not transfer "
                      "to the binary that runs (rebuild the extension; Cython is not available here)", clause="extracted text and compiled kernel return identical arrays on the conformance domain")

    # ---- (1b) the property's clauses evaluated on the extracted text itself (what a rebuilt binary would do), small inputs
    fails, n_eval, distinct = [], 0, set()
    if have_s:
        for n in list(range(1, 97)) + [127, 128, 129, 200, 255, 256, 257]:
            D = 40 if n <= 96 else 12
            n_eval += 1
            distinct.add(("sobol", n, D))
            try:
                X, ok = as_x(nat.src("quasirandom_sobol", n, D))
                if not ok or not np.array_equal(X, nat.ref_block(n, n, D)[0]):
                    fails.append({"input": {"call": f"<extracted> quasirandom_sobol({n}, {D})"}, "observed": "outside [0,1) or different from the Gray-code / Joe-Kuo reference point",
                                  "clause": "single generator (extracted text) = reference point of that seed", "key": "src-single"})
            except Exception as e:  # noqa
                fails.append({"input": {"call": f"<extracted> quasirandom_sobol({n}, {D})"}, "observed": f"{type(e).__name__}: {e}", "clause": "defined behaviour", "key": "src-single"})
            if len(fails) >= 3:
                break
    if have_l and len(fails) < 3:
        for (a, b, D) in [(0, 40, 5), (7, 7, 1), (1000, 1100, 64), (999999, 1000030, 3), (1, 257, 2)]:
            n_eval += 1
            distinct.add(("kgf", a, b, D))
            try:
                blk = nat.src("quasirandom_kgf_batch", a, b, D)
                bad = blk.shape != (b - a + 1, D) or not (np.all(blk >= 0) and np.all(blk < 1))
                for n in range(a, b + 1):
                    if bad:
                        break
                    bad = not np.array_equal(nat.src("quasirandom_kgf", n, D), blk[n - a])
                if bad:
                    fails.append({"input": {"call": f"<extracted> quasirandom_kgf_batch({a}, {b}, {D}) vs <extracted> quasirandom_kgf(n, {D})"}, "observed": "shape, range or batch row != single point",
                                  "clause": "Korobov (extracted text): batch rows equal single points, all in [0,1)", "key": "src-kgf"})
            except Exception as e:  # noqa
                fails.append({"input": {"call": f"<extracted> quasirandom_kgf_batch({a}, {b}, {D})"}, "observed": f"{type(e).__name__}: {e}", "clause": "defined behaviour", "key": "src-kgf"})
    if have_s or have_l:
        ctx.add_bounded("sampling.kernels/source/native_contract", "extracted .pyx text, C semantics: Sobol single generator seeds 1..96 (D=40) and around 128/256 (D=12) against the reference; "
                        "Korobov batch rows against single points on 5 windows (k <= 256, D <= 64)", n_eval, len(distinct), fails[:3],
                        rule="one evaluation = one call of the extracted single generator (or one Korobov window); distinct = distinct arguments")

    # ---- (2) batch generator = single generator on seed windows, through the front end and the kernels
    fails, n_eval, distinct = [], 0, set()
    wins = []
    nbig = 3 if quick else 60
    for _ in range(6 if quick else 150):       # small starts, many dimensions (other table rows than the tests reach)
        s = int(rng.integers(1, 5000))
        wins.append(("sobol", s, int(rng.integers(0, 257)), int(rng.choice([1, 2, 3, 10, 11, 37, 160, 999, MAXD]))))
    for _ in range(nbig):                      # large starts (single generator costs O(seed * D) per point)
        s = int(rng.integers(5000, 10 ** 6 + 1))
        wins.append(("sobol", s, int(rng.integers(0, 17)), int(rng.choice([1, 2, 3, 5, 12]))))
    wins += [("sobol", int(rng.integers(900000, 10 ** 6 + 1)), int(rng.integers(1, 257)), MAXD) for _ in range(1 if quick else 6)]   # all table rows at large seeds
    wins += [("sobol", 10 ** 6, 8, 3), ("sobol", 1, 256, 40), ("sobol", 4095, 3, 100), ("sobol", 65535, 2, 7), ("sobol", 65536, 2, 7), ("sobol", 2, 0, MAXD)]
    for _ in range(10 if quick else 300):
        wins.append(("kgf", int(rng.integers(1, 10 ** 6 + 1)), int(rng.integers(0, 257)), int(rng.integers(1, MAXD_KGF + 1))))
    wins += [("kgf", 1, 256, 64), ("kgf", 10 ** 6, 256, 1), ("kgf", 1, 0, 1)]
    for method, s, k, D in wins:
        n_eval += 1
        distinct.add((method, s, k, D))
        try:
            block = np.asarray(front.quasirandom(k + 1, D, method=method, seed=s))
            if block.shape != (k + 1, D) or not (np.all(block >= 0) and np.all(block < 1)):
                fails.append({"input": {"call": f"quasirandom({k + 1}, {D}, method={method!r}, seed={s})"}, "observed": {"shape": list(block.shape), "min": float(block.min()), "max": float(block.max())},
                              "clause": "batch result has shape (count, D) and all coordinates in [0,1)", "key": method})
            again = np.asarray(front.quasirandom(k + 1, D, method=method, seed=s))
            if not np.array_equal(block, again):
                fails.append({"input": {"call": f"quasirandom({k + 1}, {D}, method={method!r}, seed={s}) twice"}, "observed": "two calls differ", "clause": "deterministic", "key": method})
            for r in sorted(set([0, k, k // 2] if (s > 5000 and method == "sobol") else range(k + 1))):
                one = np.asarray(front.quasirandom(D, method=method, seed=s + r))
                if one.shape != (D,) or not np.array_equal(one, block[r]):
                    d = int(np.nonzero(one != block[r])[0][0]) if one.shape == (D,) else -1
                    fails.append({"input": {"batch": f"quasirandom({k + 1}, {D}, method={method!r}, seed={s})[{r}]", "single": f"quasirandom({D}, method={method!r}, seed={s + r})"},
                                  "observed": {"coordinate": d, "batch": float(block[r][d]) if d >= 0 else None, "single": float(one[d]) if d >= 0 else str(one.shape)},
                                  "clause": "row r of the batch for seeds [s, s+k] equals the single point of seed s+r", "key": method})
                    break
            if method == "sobol":
                X, ok = as_x(block)
                if ok and not np.array_equal(X, nat.ref_block(s, s + k, D)):
                    fails.append({"input": {"call": f"quasirandom({k + 1}, {D}, seed={s})"}, "observed": "differs from the Gray-code / Joe-Kuo reference", "clause": "Sobol point = reference", "key": "sobol-ref"})
        except Exception as e:  # noqa
            fails.append({"input": {"method": method, "seed": s, "count": k + 1, "D": D}, "observed": f"{type(e).__name__}: {e}", "clause": "front end returns", "key": method})
        if len(fails) >= 3:
            break
    ctx.add_bounded("sampling.quasirandom/ensures/batch_equals_single/windows", "seed windows [s, s+k], s <= 10^6, k <= 256; Sobol D in {1..1000} (D <= 12 for s > 5000), Korobov D <= 64; "
                    "through the public front end (compiled kernels)", n_eval, len(distinct), fails[:3], samples=[{"window": list(w)} for w in wins[:2]],
                    rule="one evaluation = one window (batch call, repeat call, one single call per row, reference comparison); distinct = distinct (method, s, k, D)")

    # ---- (3) Korobov range / determinism / D-dependence on its finite dimension range
    fails, n_eval, distinct = [], 0, set()
    for D in range(1, MAXD_KGF + 1):
        n_eval += 1
        distinct.add(D)
        try:
            blk = np.asarray(nat.bl.quasirandom_kgf_batch(1, 512, D))
            one = np.asarray(nat.bl.quasirandom_kgf(300, D))
            if blk.shape != (512, D) or not (np.all(blk >= 0) and np.all(blk < 1)) or not np.array_equal(one, blk[299]):
                fails.append({"input": {"call": f"quasirandom_kgf_batch(1, 512, {D})"}, "observed": {"shape": list(blk.shape), "min": float(blk.min()), "max": float(blk.max())},
                              "clause": "Korobov points in [0,1), batch row = single", "key": "kgf-range"})
        except Exception as e:  # noqa
            fails.append({"input": {"D": D}, "observed": repr(e), "clause": "Korobov kernels return", "key": "kgf-range"})
    ctx.add_bounded("sampling._lds/ensures/unit_interval/dims_1_64", "Korobov: every dimension 1..64, seeds 1..512 (compiled kernels)", n_eval, len(distinct), fails[:3],
                    rule="one evaluation = one dimension D (a 512-point batch and one single point); distinct = distinct D")


# =====================================================================================================================
# P: front end
# =====================================================================================================================
def front_end(ctx, f_front):
    calls = {}

    def mk(name):
        def fn(I, *a, **kw):
            if kw:
                raise Unsupported("keyword call of a kernel")
            return ("kernel", name, tuple(a))
        return ModelFn(f"chmpy.sampling.kernel:{name}", fn)
    models = {}
    for mod, names in (("_sobol", ("quasirandom_sobol", "quasirandom_sobol_batch")), ("_lds", ("quasirandom_kgf", "quasirandom_kgf_batch"))):
        for n in names:
            models[f"{PKG}.{mod}.{n}"] = mk(n)
    I = ctx.interp(models=models)
    d1, d2, seed = z3.Int("d1"), z3.Int("d2"), z3.Int("seed")
    want = {("sobol", False): ("quasirandom_sobol", lambda: (seed, d1)), ("kgf", False): ("quasirandom_kgf", lambda: (seed, d1)),
            ("sobol", True): ("quasirandom_sobol_batch", lambda: (seed, seed + d1 - 1, d2)), ("kgf", True): ("quasirandom_kgf_batch", lambda: (seed, seed + d1 - 1, d2))}

    def replay_for(method, batch):
        def replay(m):
            import chmpy.sampling as front
            import chmpy.sampling._sobol as bs
            import chmpy.sampling._lds as bl
            s, a, b = max(1, int(m.get("seed", 3))) % 5000 + 1, max(1, int(m.get("d1", 4))) % 40 + 1, max(1, int(m.get("d2", 3))) % 20 + 1
            kern = {"sobol": (bs.quasirandom_sobol, bs.quasirandom_sobol_batch), "kgf": (bl.quasirandom_kgf, bl.quasirandom_kgf_batch)}[method]
            try:
                if batch:
                    got, exp = front.quasirandom(a, b, method=method, seed=s), kern[1](s, s + a - 1, b)
                    call = f"quasirandom({a}, {b}, method={method!r}, seed={s})"
                else:
                    got, exp = front.quasirandom(a, method=method, seed=s), kern[0](s, a)
                    call = f"quasirandom({a}, method={method!r}, seed={s})"
                bad = np.asarray(got).shape != np.asarray(exp).shape or not np.array_equal(got, exp)
                return {"native_inputs": {"call": call}, "reproduced": bool(bad), "observed": {"shape": list(np.asarray(got).shape), "expected_shape": list(np.asarray(exp).shape)}}
            except Exception as e:  # noqa
                return {"native_inputs": {"method": method, "seed": s, "d1": a, "d2": b if batch else None}, "reproduced": True, "observed": repr(e)}
        return replay

    for (method, batch), (kname, argf) in want.items():
        ident = f"sampling.quasirandom/ensures/dispatch/{method}/{'batch' if batch else 'single'}"

        def ob(method=method, batch=batch, kname=kname, argf=argf, ident=ident):
            res = I.run(f_front, [d1, d2 if batch else None, method, seed], pre=[d1 >= 1, seed >= 1] + ([d2 >= 1] if batch else []))
            rp = replay_for(method, batch)
            if not res:
                ctx.undecided(ident, "no feasible path")
            for k, r in enumerate(res):
                v = r.value
                shape_ok = r.kind == "return" and isinstance(v, tuple) and len(v) == 3 and v[0] == "kernel" and v[1] == kname and len(v[2]) == len(argf())
                cl = (f"quasirandom(d1{', d2' if batch else ''}, method={method!r}, seed) returns {kname}({'seed, seed+d1-1, d2' if batch else 'seed, d1'}): "
                      "count d1 points / one d1-dimensional point, seeds seed..seed+d1-1")
                # (when the symbolic run does not END in a recognisable kernel call the obligation is about the shape of the run, not a verdict: its replay -- the real
                # front end against the real kernels -- decides; see checkctx `structural`)
                ctx.prove(f"{ident}/kernel/path{k}", r.pc, z3.BoolVal(bool(shape_ok)), clause=cl, replay=rp, fn=f_front, **({} if shape_ok else {"structural": True}))
                if shape_ok:
                    for j, (got, exp) in enumerate(zip(v[2], argf())):
                        ctx.prove(f"{ident}/arg{j}/path{k}", r.pc, got == exp, clause=cl, replay=rp, fn=f_front)
            ctx.safety(ident, res, fn=f_front)
        ctx.attempt(ident, ob, replay=replay_for(method, batch), fn=f_front)


# =====================================================================================================================
# L: lemmas about the spec functions (no code)
# =====================================================================================================================
def lemmas(ctx):
    bv = H.bv
    x = z3.BitVec("x", 32)
    gray = lambda a: a ^ z3.LShR(a, 1)  # noqa
    ctx.prove("sampling.spec/lemma/gray_step", [x != 0], gray(x) ^ gray(x - 1) == (bv(1) << (SP.cto1(x - 1) - 1)), tag="L",
              clause="gray(n) xor gray(n-1) is the single bit at the lowest zero of n-1: the kernels' X[n] = X[n-1] ^ V[C[n-1]] walks the Gray code", tactic="qfbv", tactic2="smt")
    # closed form: Xs(d, n) = xor over the set bits b of gray(n) of Vs(d, b+1)   (induction step; base n = 0 is the axiom)
    Vs = z3.Function("Vs", H.BVS, H.BVS, H.BVS)
    d = z3.BitVec("d", 32)

    def closed(g):
        acc = bv(0)
        for b in range(32):
            acc = acc ^ z3.If(z3.Extract(b, b, g) == 1, Vs(d, bv(b + 1)), bv(0))
        return acc
    g0 = z3.BitVec("g0", 32)
    for p in range(32):
        ctx.prove(f"sampling.spec/lemma/gray_closed_form_step/bit{p}", [], closed(g0 ^ bv(1 << p)) == closed(g0) ^ Vs(d, bv(p + 1)), tag="L",
                  clause="induction step of the closed form Xs(d,n) = xor of Vs(d,b+1) over the set bits b of gray(n): flipping bit p of the Gray code (gray_step: p = cto1(n-1)-1) "
                         f"xors Vs(d,p+1) into the sum, which is the recurrence Xs(d,n) = Xs(d,n-1) ^ Vs(d, cto1(n-1)) (case p = {p})", timeout_ms=60000)

    # shape of the direction numbers: bit 32-i set, lower bits clear -- through the table initialisation and both steps of the recurrence
    def ok(v, i):
        return z3.And((v << i) == 0, (z3.LShR(v, 32 - i) & 1) == 1)
    i, s, k, m, xx, y, acc = (z3.BitVec(n, 32) for n in ("i", "s", "k", "m", "xx", "y", "acc"))
    rngs = [z3.ULE(1, s), z3.ULT(s, i), z3.ULE(i, 32)]
    ctx.prove("sampling.spec/lemma/direction_shape/init", [z3.ULE(1, i), z3.ULE(i, 32), (m & 1) == 1], ok(m << (32 - i), i), tag="L",
              clause="m odd => m << (32-i) has bit 32-i set and nothing below", tactic="qfbv", tactic2="smt")
    ctx.prove("sampling.spec/lemma/direction_shape/recurrence_head", rngs + [ok(xx, i - s)], ok(xx ^ z3.LShR(xx, s), i), tag="L",
              clause="V[i-s] ^ (V[i-s] >> s) keeps the shape at position i", tactic="qfbv", tactic2="smt")
    ctx.prove("sampling.spec/lemma/direction_shape/recurrence_term", rngs + [z3.ULE(1, k), z3.ULT(k, s), ok(acc, i), ok(y, i - k)],
              z3.And(ok(acc ^ y, i), ok(acc ^ bv(0), i)), tag="L", clause="xor-ing a_k * V[i-k] (k < s) does not touch bit 32-i or anything below", tactic="qfbv", tactic2="smt")
    # unit-triangular direction numbers => the first 2^m points are stratified
    for mm in range(1, 13):
        V = [z3.BitVec(f"V{j}", 32) for j in range(1, mm + 1)]
        g = z3.BitVec("g", 32)
        pre = [ok(v, bv(j)) for j, v in enumerate(V, start=1)] + [g != 0, z3.ULT(g, bv(1 << mm))]
        a = bv(0)
        for j, v in enumerate(V, start=1):
            a = a ^ z3.If(z3.Extract(j - 1, j - 1, g) == 1, v, bv(0))
        ctx.prove(f"sampling.spec/lemma/stratified/m{mm}", pre, z3.LShR(a, 32 - mm) != 0, tag="L",
                  clause=f"direction numbers of unit-triangular shape: two different Gray codes below 2^{mm} give different top {mm} bits, i.e. the first 2^{mm} points hit every sub-interval once",
                  tactic="qfbv", tactic2="smt")


# =====================================================================================================================
# P: kernels
# =====================================================================================================================
def kernel_probe(nat, which):
    """Native witness search shared by the replay of every kernel VC: the extracted text and the binary against the reference / each other on small inputs."""
    cache = getattr(nat, "_probe", None)
    if cache is None:
        cache = nat._probe = {}
    if which in cache:
        return cache[which]
    out = {"native_inputs": None, "reproduced": False, "observed": "extracted text and binary agree with the reference on the probe inputs"}
    try:
        if which == "sobol":
            for (a, b, D) in [(1, 70, 12), (1, 1, 1), (5, 5, 3), (33, 64, 30), (100, 131, 9), (1, 257, 2)]:
                ref = nat.ref_block(a, b, D)
                for label, f in (("<extracted> ", lambda *x: nat.src("quasirandom_sobol_batch", *x)), ("", nat.bs.quasirandom_sobol_batch)):
                    X, ok = as_x(f(a, b, D))
                    if not ok or X.shape != ref.shape or not np.array_equal(X, ref):
                        out = {"native_inputs": {"call": f"{label}quasirandom_sobol_batch({a}, {b}, {D})"}, "reproduced": True, "observed": "differs from the Gray-code / Joe-Kuo reference or leaves [0,1)"}
                        raise StopIteration
                for n in (a, b, (a + b) // 2):
                    for label, f in (("<extracted> ", lambda *x: nat.src("quasirandom_sobol", *x)), ("", nat.bs.quasirandom_sobol)):
                        X, ok = as_x(f(n, D))
                        if not ok or not np.array_equal(X, ref[n - a]):
                            out = {"native_inputs": {"call": f"{label}quasirandom_sobol({n}, {D})"}, "reproduced": True, "observed": "differs from the reference point of that seed"}
                            raise StopIteration
        else:
            for (a, b, D) in [(0, 40, 5), (7, 7, 1), (1000, 1100, 64), (999999, 1000030, 3)]:
                for label, fb, fs in (("<extracted> ", lambda *x: nat.src("quasirandom_kgf_batch", *x), lambda *x: nat.src("quasirandom_kgf", *x)),
                                      ("", nat.bl.quasirandom_kgf_batch, nat.bl.quasirandom_kgf)):
                    blk = np.asarray(fb(a, b, D))
                    if blk.shape != (b - a + 1, D) or not (np.all(blk >= 0) and np.all(blk < 1)):
                        out = {"native_inputs": {"call": f"{label}quasirandom_kgf_batch({a}, {b}, {D})"}, "reproduced": True, "observed": "shape or range"}
                        raise StopIteration
                    for n in (a, b, (a + b) // 2):
                        if not np.array_equal(np.asarray(fs(n, D)), blk[n - a]):
                            out = {"native_inputs": {"call": f"{label}quasirandom_kgf({n}, {D}) vs {label}quasirandom_kgf_batch({a}, {b}, {D})[{n - a}]"}, "reproduced": True,
                                   "observed": "batch row differs from the single point"}
                            raise StopIteration
    except StopIteration:
        pass
    except Exception as e:  # noqa
        out = {"native_inputs": {"probe": which}, "reproduced": True, "observed": f"{type(e).__name__}: {e}"}
    cache[which] = out
    return out


def encoding_crosscheck(ctx, ext, nat, quick):
    """The kernel VC generator's own test (DESIGN section 4): with concrete arguments and the real table every loop is unrolled and every term folds to a
    constant; the result must be bit-identical to the native execution of the same extracted text.  A mismatch is a checker error, not a finding."""
    table = nat.table
    rows, width = table.shape
    cases = [("quasirandom_sobol", (1, 1)), ("quasirandom_sobol", (2, 3)), ("quasirandom_sobol", (7, 4)), ("quasirandom_sobol", (16, 9)), ("quasirandom_sobol", (37, 6)),
             ("quasirandom_sobol_batch", (1, 9, 4)), ("quasirandom_sobol_batch", (5, 12, 3)), ("quasirandom_sobol_batch", (31, 33, 10))]
    if not quick:
        cases += [("quasirandom_sobol", (200, 40)), ("quasirandom_sobol_batch", (100, 140, 25)), ("quasirandom_sobol", (1025, 3))]
    n_ok = 0
    for fname, args in cases:
        D = args[-1]
        term = z3.K(z3.BitVecSort(64), H.bv(0))
        for r in range(0, D + 2):
            for c in range(width):
                if table[r][c]:
                    term = z3.Store(term, z3.Concat(H.bv(r), H.bv(c)), H.bv(int(table[r][c])))
        poly = H.Arr("poly", term, "u32", [H.bv(rows), H.bv(width)])
        K = H.Kernel(ext, lambda *a: None, axioms=[], globals_={"_SOBOL_DATA": poly})
        K.unroll_limit = 5000
        res = K.run(fname, [H.bv(a) for a in args])
        if len(res) != 1 or K.obligs:
            ctx.checker_errors.append(f"encoding cross-check {fname}{args}: {len(res)} paths, {len(K.obligs)} open side conditions {[o.label for o in K.obligs[:3]]}")
            continue
        val = res[0][2]
        want = nat.src(fname, *args)
        shape = tuple(H.concrete(d) for d in val.dims)
        got = np.zeros(shape)
        for ix in np.ndindex(*shape):
            key = H.bv(ix[0]) if len(ix) == 1 else z3.Concat(H.bv(ix[0]), H.bv(ix[1]))
            v = H.concrete(z3.simplify(z3.Select(val.term, key)))
            got[ix] = float(v) if v is not None else np.nan
        if got.shape != want.shape or not np.array_equal(got, want):
            ctx.checker_errors.append(f"encoding cross-check {fname}{args}: symbolic result differs from native execution of the extracted text")
        else:
            n_ok += 1
    ctx.notes.append(f"engine guard: symbolic execution with concrete arguments reproduces the native result bit for bit on {n_ok}/{len(cases)} calls")
    return n_ok


CLAUSES = {
    "inv-entry": "loop invariant holds on entry",
    "inv-preserved": "loop invariant is preserved by an arbitrary iteration",
    "safety": "memory safety / defined behaviour",
    "cut": "ghost assertion",
    "post": "postcondition",
}


def sobol_vcs(ctx, ext, tshape, fname, nat):
    rows, width = int(tshape[0]), int(tshape[1])
    S = SP.SobolSpec(rows, width)
    inv = SP.SobolInvariants(S)
    poly = H.Arr("poly", S.poly, "u32", [H.bv(rows), H.bv(width)])
    K = H.Kernel(ext, inv, axioms=S.axioms(), globals_={"_SOBOL_DATA": poly})
    K.after = inv.after
    D = z3.BitVec("D", 32)
    dom = [z3.UGE(D, 1), z3.ULE(D, H.bv(rows - 1)), S.table_ok()]
    if fname == "quasirandom_sobol":
        N = z3.BitVec("N", 32)
        args, pre = [N, D], [z3.UGE(N, 1)] + dom
    else:
        a, b = z3.BitVec("start", 32), z3.BitVec("end", 32)
        args, pre = [a, b, D], [z3.UGE(a, 1), z3.ULE(a, b)] + dom
    res = K.run(fname, args, pre=pre)
    for m in sorted(K.assumed_models):
        ctx.trusted.add("model:" + m)
    ctx.trusted.update(["model:c: unsigned int arithmetic = BitVec(32); uint32 -> double conversion u2d(x) in [0, 2^32-1]; pow(2.0, 32) = 2^32",
                        "model:numpy.empty = unconstrained array, numpy.zeros = constant-zero array, typed memoryview = the array it views",
                        "engine:contracts/c20_decython.py (mechanical .pyx -> Python extraction), contracts/c20_hoare.py (kernel VC generator), z3"])
    if len(res) == 0:
        raise Unsupported(f"{fname}: no path reaches the return statement")
    out = []
    for k, (pc, schemas, val, tags) in enumerate(res):
        if not isinstance(val, H.Arr):
            raise Unsupported(f"{fname} does not return an array")
        P = val.term
        suffix = "/" + ",".join(tags) if tags else ""
        if fname == "quasirandom_sobol":
            shape_ok = val.ndim == 1 and z3.is_true(z3.simplify(val.dims[0] == D))
            goal = H.Schema("post", "idx", lambda d, P=P: z3.Implies(z3.ULT(d, D), z3.Select(P, d) == S.point(d, args[0] - 1)), P)
            rng = H.Schema("post", "idx", lambda d, P=P: z3.Implies(z3.ULT(d, D), z3.And(z3.Select(P, d) >= 0, z3.Select(P, d) < 1)), P)
            what = "result[d] = u2d(Xs(d, N-1)) / 2^32 for every d < D  (Xs: Gray-code recurrence over the Joe-Kuo direction numbers; the term does not mention D or any loop bound)"
        else:
            nrows = args[1] - args[0] + 1
            shape_ok = val.ndim == 2 and z3.is_true(z3.simplify(z3.And(val.dims[0] == nrows, val.dims[1] == D)))
            goal = H.Schema("post", "pair", lambda r, d, P=P: z3.Implies(z3.And(z3.ULT(r, nrows), z3.ULT(d, D)), z3.Select(P, z3.Concat(r, d)) == S.point(d, args[0] + r - 1)), P)
            rng = H.Schema("post", "pair", lambda r, d, P=P: z3.Implies(z3.And(z3.ULT(r, nrows), z3.ULT(d, D)),
                                                                      z3.And(z3.Select(P, z3.Concat(r, d)) >= 0, z3.Select(P, z3.Concat(r, d)) < 1)), P)
            what = ("result[r][d] = u2d(Xs(d, start+r-1)) / 2^32 for every r <= end-start, d < D: the same spec term as quasirandom_sobol(start+r, D)[d], "
                    "independent of the window")
        K.obligs.append(H.Obligation(f"{fname}/ensures/shape{suffix}", "post", pc, schemas, z3.BoolVal(bool(shape_ok)), "result shape"))
        K.obligs.append(H.Obligation(f"{fname}/ensures/spec{suffix}", "post", pc, schemas, goal, what))
        K.obligs.append(H.Obligation(f"{fname}/ensures/unit_interval{suffix}", "post", pc, schemas, rng, "every returned coordinate lies in [0,1)"))
    extra = {"scan": [H.bv(c) for c in range(1, width)]}
    fnd = ctx.functions.get(f"{PKG}._sobol.{fname}")
    for ob in K.obligs:
        out.append({"K": K, "ob": ob, "extra": extra if "cut/degree" in ob.label else {}, "ident": f"sampling._sobol.{ob.label}",
                    "clause": (ob.note or CLAUSES.get(ob.kind, ob.kind)) + f" [{ob.kind}; for all seeds, all D <= {rows - 1}]", "fn": fnd,
                    "replay": lambda m, nat=nat: kernel_probe(nat, "sobol")})
    return out


def korobov_vcs(ctx, ext, nat):
    K = H.Kernel(ext, lambda *a: None, axioms=[], u32="int")
    N, D, Lo, Up = z3.Ints("N D L U")

    def thunk(K2):
        for p in (N >= 0, D >= 0, Lo >= 0, Up >= Lo):
            K2.assume(p)
        return K2.call_kernel("quasirandom_kgf", [N, D]), K2.call_kernel("quasirandom_kgf_batch", [Lo, Up, D])
    res = K.explore(thunk)
    ctx.trusted.update(["model:libm pow = uninterpreted function of its two arguments; x % 1 = x - floor(x) (numpy) / x - trunc(x) (C fmod under cdivision)",
                        "model:numpy broadcasting of (1,D) with (n,1) operands, np.arange(L, U+1)[r] = L + r, np.newaxis indexing"])
    if len(res) != 1:
        raise Unsupported("Korobov kernels: expected one returning path")
    pc, schemas, (r1, r2), tags = res[0]
    if not (isinstance(r1, H.LamArr) and isinstance(r2, H.LamArr)):
        raise Unsupported("Korobov kernels do not return numpy expressions")
    shape1 = r1.ndim == 1 and z3.is_true(z3.simplify(r1.dims[0] == D))
    shape2 = r2.ndim == 2 and z3.is_true(z3.simplify(z3.And(r2.dims[0] == Up - Lo + 1, r2.dims[1] == D)))
    add = K.obligs.append
    add(H.Obligation("quasirandom_kgf/ensures/shape", "post", pc, schemas, z3.BoolVal(bool(shape1)), "result has shape (D,)"))
    add(H.Obligation("quasirandom_kgf_batch/ensures/shape", "post", pc, schemas, z3.BoolVal(bool(shape2)), "result has shape (U-L+1, D)"))
    if shape1 and shape2:
        inr = lambda r, i: z3.And(r >= 0, r <= Up - Lo, i >= 0, i < D)  # noqa
        add(H.Obligation("quasirandom_kgf_batch/ensures/row_equals_single", "post", pc, schemas,
                         H.Schema("post", "pair", lambda r, i: z3.Implies(inr(r, i), r2.fn(r, i) == z3.substitute(r1.fn(i), (N, Lo + r)))),
                         "row r of quasirandom_kgf_batch(L, U, D) equals quasirandom_kgf(L + r, D), coordinate by coordinate"))
        add(H.Obligation("quasirandom_kgf/ensures/unit_interval", "post", pc, schemas,
                         H.Schema("post", "idx", lambda i: z3.Implies(z3.And(i >= 0, i < D), z3.And(r1.fn(i) >= 0, r1.fn(i) < 1))), "every coordinate lies in [0,1)"))
        add(H.Obligation("quasirandom_kgf_batch/ensures/unit_interval", "post", pc, schemas,
                         H.Schema("post", "pair", lambda r, i: z3.Implies(inr(r, i), z3.And(r2.fn(r, i) >= 0, r2.fn(r, i) < 1))), "every coordinate lies in [0,1)"))
        # depends on (seed, D) only: the value term mentions no other input
        free = _free_consts(z3.simplify(r1.fn(z3.Int("i_"))))
        allowed = {"N", "D", "i_"}
        extra = sorted(n for n in free if n not in allowed and not n.startswith("a!") and not n.startswith("a_uninit"))
        add(H.Obligation("quasirandom_kgf/ensures/depends_on_seed_and_dimension_only", "post", pc, schemas, z3.BoolVal(not extra),
                         f"the value term of coordinate i mentions only N, D, i and the alpha array (itself a function of D and i): other symbols {extra}"))
    out = []
    for ob in K.obligs:
        fq = ob.label.split("/")[0]
        out.append({"K": K, "ob": ob, "extra": {}, "ident": f"sampling._lds.{ob.label}", "clause": (ob.note or CLAUSES.get(ob.kind, ob.kind)) + f" [{ob.kind}; for all seeds and D; integers unbounded, floats as reals]",
                    "fn": ctx.functions.get(f"{PKG}._lds.{fq}"), "replay": lambda m, nat=nat: kernel_probe(nat, "kgf")})
    return out


def _free_consts(t):
    return {x.decl().name() for x in H._walk([t]) if z3.is_const(x) and x.decl().kind() == z3.Z3_OP_UNINTERPRETED}


_PENDING = []


def _build_one(i):
    it = _PENDING[i]
    t0 = time.time()
    try:
        hyps, goal = H.build_vc(it["K"], it["ob"], extra_idx=it["extra"])
        hyps, pure = H.slim(hyps, goal)
        smt2 = solve.to_smt2(hyps, goal)
        hyps_only = None
        if it.get("vacuity"):
            s = z3.Solver()
            s.set("timeout", 20000)
            s.add(*hyps)
            hyps_only = str(s.check())
        return i, smt2, pure, hyps_only, None, round(time.time() - t0, 2)
    except Exception as e:  # noqa
        return i, None, False, None, f"{type(e).__name__}: {e}", round(time.time() - t0, 2)


def register_vcs(ctx, pending, vacuity=False):
    """Build the quantifier-free VCs in parallel (instantiation is the slow part) and register them as P obligations."""
    global _PENDING
    if not pending:
        return
    # vacuity guard: in the thorough tier every VC's hypotheses are checked satisfiable; in quick, the postconditions'
    for it in pending:
        it["vacuity"] = vacuity or it["ob"].kind == "post"
    _PENDING = pending
    with mp.get_context("fork").Pool(min(16, os.cpu_count() or 4)) as pool:
        built = pool.map(_build_one, range(len(pending)), chunksize=1)
    vac = 0
    for i, smt2, pure, hyps_only, err, dt in built:
        it = pending[i]
        r = ctx._new(f"{ctx.prop}/{it['ident']}", "P", it["clause"])
        r.fn, r.replay = it["fn"], it["replay"]
        if err is not None:
            r.verdict, r.why = "unknown", f"VC construction failed: {err}"
            continue
        if hyps_only == "unsat":
            vac += 1
            ctx.checker_errors.append(f"vacuous hypotheses in {it['ident']}")
            r.verdict, r.why = "error", "hypotheses unsatisfiable (vacuous VC)"
            continue
        r.smt2 = smt2
        r.opts = {"tactic": "qfaufbv", "tactic2": "smt", "timeout_ms": 150000} if pure else {"timeout_ms": 150000}
    ctx.notes.append(f"vacuity guard: {sum(1 for b in built if b[3] is not None)} VC hypothesis sets checked satisfiable, {vac} vacuous")
