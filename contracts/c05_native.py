"""Native side of C05: the oracle of the statement evaluated in float64 from thakkar_interp.npz, native execution of the
de-cythonised kernel text, and the bounded run-time contracts (tag B) on the real (compiled) functions."""
import os

import numpy as np

from pyvc import source

BOHR = 0.5291772108           # the statement's b (Angstrom per bohr)
U32 = 2.0 ** -24              # unit round-off of float32 (half an ulp, relative)


class Table:
    def __init__(self):
        self.path = os.path.join(source.SRC_ROOT, "chmpy/interpolate/thakkar_interp.npz")
        d = np.load(self.path)
        self.domain32 = d["domain"]
        self.rho32 = d["rho"]
        self.X = self.domain32.astype(np.float64)
        self.R = self.rho32.astype(np.float64)
        self.n = self.X.shape[0]
        # the two scalars the kernel derives from the table, as float32 computes them
        self.dx32 = np.float32(self.domain32[1] - self.domain32[0])
        self.inv32 = np.float32(1.0) / self.dx32

    def T(self, row, x, high_fill_zero=False):
        """Oracle T_Z(x): piecewise-linear interpolant of row `row` on the squared-distance grid; flat below the second knot and
        beyond the last (batch path) / zero beyond the last (single-point path)."""
        X, R, n = self.X, self.R, self.n
        inv = float(self.inv32)
        x = np.asarray(x, dtype=np.float64)
        j = np.trunc(inv * (x - X[0])).astype(np.int64)
        jc = np.clip(j, 1, n - 2)
        t = (x - X[jc]) * inv
        v = (1.0 - t) * R[row, jc] + t * R[row, jc + 1]
        v = np.where(j <= 0, R[row, 0], v)
        v = np.where(j >= n - 1, 0.0 if high_fill_zero else R[row, n - 1], v)
        return v

    def rho(self, Z, pos, pts, high_fill_zero=False):
        """Oracle rho(p) = sum_a T_{Z_a}(|p - a|^2 / b^2), float64, on the float32-rounded coordinates the kernel receives."""
        pos = np.asarray(pos, np.float32).astype(np.float64).reshape(-1, 3)
        pts = np.asarray(pts, np.float32).astype(np.float64).reshape(-1, 3)
        out = np.zeros(len(pts))
        for zz, a in zip(Z, pos):
            x = ((pts - a) ** 2).sum(1) / (BOHR * BOHR)
            out += self.T(int(zz) - 1, x, high_fill_zero)
        return out

    def kappa(self):
        """max |x dln(rho)/dx| over all rows and cells: relative condition number of T w.r.t. a relative error in x."""
        dx = float(self.X[1] - self.X[0])
        lr = np.abs(np.log(self.R[:, 1:] / self.R[:, :-1])) / dx
        return float((lr * self.X[1:]).max())

    def max_log_slope_per_angstrom(self, rmin=0.25):
        """max |dln(rho)/dr| (1/Angstrom) over all rows for r >= rmin Angstrom."""
        dx = float(self.X[1] - self.X[0])
        lr = np.abs(np.log(self.R[:, 1:] / self.R[:, :-1])) / dx
        r = np.sqrt(self.X[1:]) * BOHR
        g = lr * 2.0 * np.sqrt(self.X[1:]) / BOHR
        return float(g[:, r >= rmin].max())


# ---- native execution of the de-cythonised text -------------------------------------------------------------------------
def native_namespace(pyx):
    """exec the de-cythonised text with numpy float64 arrays standing for memoryviews (floats as reals, like the proofs)."""
    ns = {"__file__": pyx.path, "__name__": "c05_extracted",
          "c_int": lambda v: int(v), "c_u32": lambda v: int(v) & 0xFFFFFFFF, "c_array": lambda n: np.zeros(n)}
    exec(compile(pyx.py_text, pyx.path + " (de-cythonised)", "exec"), ns)
    return ns


def spec_T(X, Y, x, high_zero=False):
    """The contract's T for an arbitrary table (X: knots, Y: row), scalar x, plain float64."""
    n = len(X)
    s = (x - X[0]) / (X[1] - X[0])
    if s < 1:
        return Y[0]
    if s >= n - 1:
        return 0.0 if high_zero else Y[n - 1]
    m = int(np.floor(s))
    t = (x - X[m]) / (X[1] - X[0])
    return (1.0 - t) * Y[m] + t * Y[m + 1]


def extracted_clause_failures(pyx, seed, n_cases=60):
    """The kernel clauses evaluated natively on the de-cythonised SOURCE (seeded generic tables / geometries).
    -> {clause_key: witness}.  Used as replay for refuted P obligations about the .pyx (the binary cannot be rebuilt here)."""
    rng = np.random.default_rng(seed)
    fails = {}
    try:
        ns = native_namespace(pyx)
    except Exception as e:  # noqa
        return {"<exec>": {"error": repr(e)}}, 0

    def note(key, w):
        fails.setdefault(key, w)
    n_eval = 0
    for case in range(n_cases):
        n = int(rng.integers(3, 9))
        x0 = float(rng.uniform(0.01, 0.2))
        dx = float(rng.uniform(0.05, 0.5))
        X = x0 + dx * np.arange(n)
        N = int(rng.integers(1, 4))
        Yrows = np.exp(-rng.uniform(0.1, 1.0, (N, 1)) * np.arange(n)[None, :]) * rng.uniform(0.5, 3, (N, 1))
        pos = rng.uniform(-1, 1, (N, 3))
        pts = rng.uniform(-1.5, 1.5, (4, 3))
        # make sure all three regimes occur: scale so that x covers [<x1, > x_{n-1}]
        scale = np.sqrt((X[-1] + dx) * BOHR * BOHR / 4.0)
        pos, pts = pos * scale, pts * scale * rng.uniform(0.2, 1.6)
        w = {"knots": X.tolist(), "rows": Yrows.tolist(), "atoms": pos.tolist(), "points": pts.tolist()}
        r2 = lambda p, a: float(((p - a) ** 2).sum() / (BOHR * BOHR))
        try:
            # interp_f / interp_f_one on their own
            xs = np.array([r2(pts[0], pos[0]), X[0] - 0.3 * dx, X[0] + 0.5 * dx, X[-1] + dx, X[1] + 0.25 * dx, X[n - 2] + 0.75 * dx])
            y = np.zeros(len(xs))
            ns["interp_f"](xs, X, Yrows[0], y)
            for k, xv in enumerate(xs):
                n_eval += 1
                if not np.isclose(y[k], spec_T(X, Yrows[0], xv), rtol=1e-9, atol=1e-300):
                    note("interp_f", dict(w, x=float(xv), observed=float(y[k]), expected=float(spec_T(X, Yrows[0], xv))))
                v1 = ns["interp_f_one"](float(xv), X, Yrows[0])
                if not np.isclose(v1, spec_T(X, Yrows[0], xv, True), rtol=1e-9, atol=1e-300):
                    note("interp_f_one", dict(w, x=float(xv), observed=float(v1), expected=float(spec_T(X, Yrows[0], xv, True))))
            # kernel objects
            A = ns["PromoleculeDensity"](pos.copy(), X, Yrows)
            got = np.asarray(A.rho(pts))
            exp = np.array([sum(spec_T(X, Yrows[i], r2(p, pos[i])) for i in range(N)) for p in pts])
            n_eval += len(pts)
            if not np.allclose(got, exp, rtol=4e-6):     # the source itself asks for float32 result arrays
                note("rho", dict(w, observed=got.tolist(), expected=exp.tolist()))
            got1 = np.array([A.one_rho(p.copy()) for p in pts])
            exp1 = np.array([sum(spec_T(X, Yrows[i], r2(p, pos[i]), True) for i in range(N)) for p in pts])
            if not np.allclose(got1, exp1, rtol=1e-9):
                note("one_rho", dict(w, observed=got1.tolist(), expected=exp1.tolist()))
            N2 = int(rng.integers(1, 3))
            pos2 = rng.uniform(-1, 1, (N2, 3)) * scale
            Y2 = np.exp(-rng.uniform(0.1, 1.0, (N2, 1)) * np.arange(n)[None, :])
            Bk = ns["PromoleculeDensity"](pos2.copy(), X, Y2)
            bg = float(rng.choice([0.0, 0.01]))
            S = ns["StockholderWeight"](A, Bk, background=bg)
            ra, rb = exp, np.array([sum(spec_T(X, Y2[i], r2(p, pos2[i])) for i in range(N2)) for p in pts])
            gotw = np.asarray(S.weights(pts))
            if not np.allclose(gotw, ra / (ra + rb + bg), rtol=4e-6):
                note("weights", dict(w, atoms_b=pos2.tolist(), rows_b=Y2.tolist(), background=bg, observed=gotw.tolist(), expected=(ra / (ra + rb + bg)).tolist()))
            ra1 = exp1
            rb1 = np.array([sum(spec_T(X, Y2[i], r2(p, pos2[i]), True) for i in range(N2)) for p in pts])
            ok = (ra1 + rb1 + bg) > 0
            gw1 = np.array([S.one_weight(p.copy()) if o else np.nan for p, o in zip(pts, ok)])
            if not np.allclose(gw1[ok], ra1[ok] / (ra1 + rb1 + bg)[ok], rtol=1e-9):
                note("one_weight", dict(w, atoms_b=pos2.tolist(), rows_b=Y2.tolist(), background=bg, observed=gw1.tolist()))
        except Exception as e:  # noqa  -- a mutated source may crash; that is a failure of every clause it reaches
            note("crash", dict(w, error=repr(e)))
    return fails, n_eval


# ---- bounded run-time contracts on the real classes (compiled kernel) ------------------------------------------------------
def _far_points(rng, pos, n, box, dmin=0.3):
    pts = rng.uniform(-box, box, (n, 3)).astype(np.float32)
    pos32 = np.asarray(pos, np.float32).astype(np.float64)
    d = np.sqrt(((pts.astype(np.float64)[:, None, :] - pos32[None]) ** 2).sum(2)).min(1)
    return pts[d >= dmin]


def _rot(rng):
    q = rng.normal(size=4)
    q /= np.linalg.norm(q)
    w, x, y, z = q
    return np.array([[1 - 2 * (y * y + z * z), 2 * (x * y - z * w), 2 * (x * z + y * w)],
                     [2 * (x * y + z * w), 1 - 2 * (x * x + z * z), 2 * (y * z - x * w)],
                     [2 * (x * z - y * w), 2 * (y * z + x * w), 1 - 2 * (x * x + y * y)]])


def bounded_checks(tab, seed, tier):
    """-> list of dict(ident, domain, evaluations, distinct, failures, rule)."""
    from chmpy.interpolate.density import PromoleculeDensity, StockholderWeight
    rng = np.random.default_rng(seed)
    kap = tab.kappa()
    G = tab.max_log_slope_per_angstrom(0.25)
    out = []

    def rtol(natoms):
        # x = |p-a|^2/b^2 carries <= 10 float32 roundings (3 differences, 3 squares, 2 sums, 1 division, 1 conversion), amplified by
        # kappa = max |x dln rho/dx| of the table; the interpolation itself <= 8 roundings; a sum of N positive terms <= N roundings.
        return (10.0 * kap + 8.0 + natoms) * U32

    def rec(fails, key, inp, obs, clause):
        if sum(1 for f in fails if f["key"] == key) < 1 and len(fails) < 3:
            fails.append({"input": inp, "observed": obs, "clause": clause, "key": key})

    # -- (1) single atoms, all 103 elements, radial scan including both table ends ---------------------------------------------
    fails, ev = [], 0
    nrad = 200 if tier == "quick" else 2000
    r_end = np.sqrt(tab.X[-1]) * BOHR
    def single(Z):
        nonlocal ev
        radii = np.concatenate([np.linspace(0.3, r_end + 0.4, nrad - 8), [0.3, 0.35, r_end - 1e-3, r_end, r_end + 1e-3, r_end + 1.0, 15.0, 30.0]])
        dirs = rng.normal(size=(len(radii), 3))
        dirs /= np.linalg.norm(dirs, axis=1)[:, None]
        a = rng.uniform(-5, 5, 3)
        pts = (a + dirs * radii[:, None]).astype(np.float32)
        got = np.asarray(PromoleculeDensity(([Z], [a])).rho(pts), dtype=np.float64)
        exp = tab.rho([Z], [a], pts)
        ev += len(pts)
        bad = ~(np.abs(got - exp) <= rtol(1) * exp) | ~(got > 0)
        if bad.any():
            k = int(np.argmax(bad))
            rec(fails, "single", {"Z": Z, "atom": a.tolist(), "point": pts[k].tolist()}, {"rho": float(got[k]), "oracle": float(exp[k]), "rtol": rtol(1)},
                "rho(p) == T_Z(|p-a|^2/b^2) > 0 for a single atom")
    for Z in range(1, 104):
        try:
            single(Z)
        except Exception as e:  # noqa -- a valid input must not raise
            ev += 1
            rec(fails, "single_raise", {"Z": Z}, {"raised": repr(e)}, "PromoleculeDensity(([Z],[a])).rho(points) returns for every Z in 1..103")
    out.append(dict(ident="density.PromoleculeDensity.rho/bounded/single_atom_table", failures=fails, evaluations=ev, distinct=ev,
                    domain=f"Z = 1..103, one atom at a seeded position, {nrad} radii from 0.3 A to beyond the table end ({r_end:.3f} A) incl. 15 and 30 A; "
                           f"relative tolerance (10*kappa+9)*2^-24 = {rtol(1):.2e} (kappa = {kap:.1f} from the table; float32 kernel)",
                    rule="distinct (element, radius) pairs"))

    # -- (1b) points very far from the atom (the statement quantifies over all geometries) ------------------------------------------------------
    f_far, ev_far = [], 0
    far = [50.0, 500.0, 5.0e3, 7.6e3, 7.7e3, 8.0e3, 1.0e4, 1.0e5, 1.0e6]
    for Z in (1, 6, 26, 79, 103):
        for r in far:
            try:
                p = np.array([[r, 0.0, 0.0]])
                got = float(PromoleculeDensity(([Z], [[0.0, 0.0, 0.0]])).rho(p)[0])
                exp = float(tab.rho([Z], [[0, 0, 0]], p)[0])
                ev_far += 1
                if not (abs(got - exp) <= rtol(1) * exp and got > 0):
                    rec(f_far, "int_cast_overflow" if r >= 7.6e3 else "far", {"Z": [Z], "atoms": [[0.0, 0.0, 0.0]], "point": p[0].tolist()},
                        {"rho": got, "oracle": exp}, "beyond the table rho(p) == last tabulated value of the row, however far the point is")
            except Exception as e:  # noqa
                ev_far += 1
                rec(f_far, "far_raise", {"Z": [Z], "r": r}, {"raised": repr(e)}, "rho returns normally")
    # -- (1c) one very large batch (more points than any internal block size one might introduce): every entry is evaluated
    f_big, ev_big = [], 0
    nbig = 2 ** 20 + 37
    try:
        pts = np.zeros((nbig, 3))
        pts[:, 0] = np.linspace(0.5, 6.0, nbig)
        pts[:, 1] = 0.25
        d6 = PromoleculeDensity(([8, 1], [[0.0, 0.0, 0.0], [0.96, 0.0, 0.0]]))
        big = np.asarray(d6.rho(pts))
        idx = np.r_[0, 1, 2 ** 19, 2 ** 20 - 1, 2 ** 20, nbig - 3, nbig - 2, nbig - 1]
        small = np.asarray(d6.rho(pts[idx]))
        ev_big = len(idx)
        if big.shape != (nbig,) or not np.allclose(big[idx], small, rtol=1e-6, atol=0) or not np.all(big > 0):
            rec(f_big, "large_batch", {"points": nbig, "atoms": "O, H", "checked_rows": idx.tolist()}, {"batch": np.asarray(big)[idx].tolist() if big.shape == (nbig,) else list(big.shape),
                "alone": small.tolist(), "non_positive_entries": int((big <= 0).sum()) if big.shape == (nbig,) else None},
                "every entry of one large batch equals the density of that point evaluated on its own, and is positive")
    except Exception as e:  # noqa
        ev_big += 1
        rec(f_big, "large_batch_raise", {"points": nbig}, {"raised": repr(e)[:200]}, "rho returns normally")
    out.append(dict(ident="density.PromoleculeDensity.rho/bounded/large_batch", failures=f_big, evaluations=ev_big, distinct=ev_big,
                    domain=f"one call with {nbig} points (2^20 + 37) on a line near an OH pair; first, middle, 2^20-th and last rows against their own evaluation", rule="rows compared"))
    out.append(dict(ident="density.PromoleculeDensity.rho/bounded/far_points", failures=f_far, evaluations=ev_far, distinct=ev_far,
                    domain="Z in {1, 6, 26, 79, 103}, one atom at the origin, points at 50 A .. 1e6 A along x; same relative tolerance", rule="distinct (element, distance) pairs"))

    # -- (1c) a system of several thousand atoms: the density of the whole is the sum of the densities of its parts, at points close to a heavy nucleus included
    f_sys, ev_sys = [], 0
    try:
        g_ = np.arange(17) * 2.4
        latt = np.array([[x_, y_, z_] for x_ in g_ for y_ in g_ for z_ in g_], dtype=float)                # 4913 sites
        Zl = rng.choice([1, 6, 7, 8], size=len(latt))
        Zl[len(latt) // 2] = 79
        centre = latt[len(latt) // 2]
        dirs = rng.normal(size=(24, 3))
        dirs /= np.linalg.norm(dirs, axis=1)[:, None]
        ptsL = (centre + dirs * np.linspace(0.35, 1.4, 24)[:, None]).astype(np.float32)
        whole = np.asarray(PromoleculeDensity((Zl, latt)).rho(ptsL), dtype=np.float64)
        parts = np.zeros(len(ptsL))
        for lo in range(0, len(latt), 1000):
            parts += np.asarray(PromoleculeDensity((Zl[lo:lo + 1000], latt[lo:lo + 1000])).rho(ptsL), dtype=np.float64)
        ev_sys = len(ptsL)
        tolL = (10.0 * kap + 8.0 + 64) * U32           # (only a few dozen atoms are within table range of these points)
        badL = ~(np.abs(whole - parts) <= 4 * tolL * parts)
        if badL.any():
            k = int(np.argmax(badL))
            rec(f_sys, "large_system", {"atoms": int(len(latt)), "lattice": "17 x 17 x 17 sites 2.4 A apart, H/C/N/O and one Au at the centre", "point": ptsL[k].tolist(),
                                        "distance_from_the_Au_nucleus": float(np.linalg.norm(ptsL[k] - centre))},
                {"rho_of_all_4913_atoms": float(whole[k]), "sum_over_5_parts": float(parts[k])}, "rho of a large system equals the sum of rho over a partition of its atoms")
    except Exception as e:  # noqa
        ev_sys += 1
        rec(f_sys, "large_system_raise", {"atoms": 4913}, {"raised": repr(e)[:200]}, "rho returns normally")
    out.append(dict(ident="density.PromoleculeDensity.rho/bounded/large_system", failures=f_sys, evaluations=ev_sys, distinct=ev_sys,
                    domain="4913 atoms on a lattice (H/C/N/O, one Au), 24 points 0.35-1.4 A from the Au nucleus: whole system against the sum over five parts", rule="points compared"))

    # -- (2) multi-atom systems: oracle sum, positivity, additivity, order, rigid motion, weights ------------------------------
    nsys = 120 if tier == "quick" else 2000
    npt = 400 if tier == "quick" else 1500
    f_sum, f_add, f_ord, f_rig, f_w, f_ctor = [], [], [], [], [], []
    ev_sum = ev_add = ev_ord = ev_rig = ev_w = 0
    def system(s, Z, pos, pts):
        nonlocal ev_sum, ev_add, ev_ord, ev_rig, ev_w
        N = len(Z)
        tol = rtol(N)
        full = PromoleculeDensity((Z, pos))
        got = np.asarray(full.rho(pts), dtype=np.float64)
        exp = tab.rho(Z, pos, pts)
        ev_sum += len(pts)
        bad = ~(np.abs(got - exp) <= tol * exp) | ~(got > 0)
        if bad.any():
            k = int(np.argmax(bad))
            rec(f_sum, "sum", {"Z": Z.tolist(), "atoms": pos.tolist(), "point": pts[k].tolist()}, {"rho": float(got[k]), "oracle": float(exp[k]), "rtol": tol},
                "rho(p) == sum_a T_{Z_a}(|p-a|^2/b^2) > 0")
        # the density at a point does not depend on the batch the point sits in: batches of 1..5 points (and the same points as a float64 array / nested list)
        for k in (1, 2, 3, 4, 5):
            for form, sub in (("float32 array", pts[:k]), ("float64 array", np.asarray(pts[:k], dtype=np.float64)), ("nested list", np.asarray(pts[:k], dtype=np.float64).tolist())):
                try:
                    gk = np.asarray(full.rho(sub), dtype=np.float64).reshape(-1)
                except Exception as e:  # noqa
                    gk = None
                    obs = {"raised": repr(e)[:160]}
                ev_sum += k
                if gk is None or gk.shape != (k,) or not np.all(np.abs(gk - got[:k]) <= tol * got[:k]):
                    rec(f_sum, "batch", {"Z": Z.tolist(), "atoms": pos.tolist(), "points": np.asarray(pts[:k], dtype=float).tolist(), "given_as": form},
                        obs if gk is None else {"rho_of_small_batch": gk.tolist(), "same_rows_in_the_large_batch": got[:k].tolist()},
                        "rho of a batch is, row by row, rho of each point (any batch size, any accepted array form)")
        # additivity over a split into two disjoint atom sets
        cut = int(rng.integers(1, N))
        ga = np.asarray(PromoleculeDensity((Z[:cut], pos[:cut])).rho(pts), dtype=np.float64)
        gb = np.asarray(PromoleculeDensity((Z[cut:], pos[cut:])).rho(pts), dtype=np.float64)
        ev_add += len(pts)
        bad = ~(np.abs(ga + gb - got) <= 2 * tol * got)
        if bad.any():
            k = int(np.argmax(bad))
            rec(f_add, "additive", {"Z": Z.tolist(), "atoms": pos.tolist(), "cut": cut, "point": pts[k].tolist()},
                {"rho_A": float(ga[k]), "rho_B": float(gb[k]), "rho_AB": float(got[k])}, "rho_{A u B} == rho_A + rho_B for disjoint atom sets")
        # order independence
        perm = rng.permutation(N)
        gp = np.asarray(PromoleculeDensity((Z[perm], pos[perm])).rho(pts), dtype=np.float64)
        ev_ord += len(pts)
        bad = ~(np.abs(gp - got) <= 2 * tol * got)
        if bad.any():
            k = int(np.argmax(bad))
            rec(f_ord, "order", {"Z": Z.tolist(), "atoms": pos.tolist(), "perm": perm.tolist(), "point": pts[k].tolist()},
                {"rho": float(got[k]), "rho_permuted": float(gp[k])}, "rho is independent of the order of the atoms")
        # rigid motion applied to atoms and points together
        Rm, tv = _rot(rng), rng.uniform(-3, 3, 3)
        pos2 = pos @ Rm.T + tv
        pts2 = (pts.astype(np.float64) @ Rm.T + tv)
        gr = np.asarray(PromoleculeDensity((Z, pos2)).rho(pts2), dtype=np.float64)
        cmax = float(max(np.abs(pos2).max(), np.abs(pts2).max(), np.abs(pos).max(), 12.0))
        # rounding the moved coordinates to float32 moves every distance by <= 2*sqrt(3)*2^-24*cmax (Angstrom); G = max |dln rho/dr|
        tol_r = 2 * tol + G * 2 * np.sqrt(3.0) * U32 * cmax * 2
        ev_rig += len(pts)
        bad = ~(np.abs(gr - got) <= tol_r * got)
        if bad.any():
            k = int(np.argmax(bad))
            rec(f_rig, "rigid", {"Z": Z.tolist(), "atoms": pos.tolist(), "R": Rm.tolist(), "t": tv.tolist(), "point": pts[k].tolist()},
                {"rho": float(got[k]), "rho_moved": float(gr[k]), "rtol": tol_r}, "rho is invariant under a rigid motion of atoms and points together")
        # stockholder weights of the split, with and without background
        for bg in (0.0, float(rng.choice([1e-4, 1e-2, 0.5]))):
            A = PromoleculeDensity((Z[:cut], pos[:cut]))
            Bd = PromoleculeDensity((Z[cut:], pos[cut:]))
            if s % 2:
                SW = StockholderWeight(A, Bd, background=bg)
                SWc = StockholderWeight(Bd, A, background=bg)
            else:
                SW = StockholderWeight.from_arrays(Z[:cut], pos[:cut], Z[cut:], pos[cut:], background=bg)
                SWc = StockholderWeight.from_arrays(Z[cut:], pos[cut:], Z[:cut], pos[:cut], background=bg)
            w = np.asarray(SW.weights(pts), dtype=np.float64)
            wc = np.asarray(SWc.weights(pts), dtype=np.float64)
            ea, eb = tab.rho(Z[:cut], pos[:cut], pts), tab.rho(Z[cut:], pos[cut:], pts)
            we = ea / (ea + eb + bg)
            ev_w += len(pts)
            # w and 1-w both carry relative errors 2*tol of the densities: absolute tolerance 4*tol + float32 division/storage
            atol = 4 * tol + 4 * U32
            bad = ~(np.abs(w - we) <= atol) | ~((w >= 0) & (w <= 1))
            if bg == 0.0:
                bad |= ~(np.abs(w + wc - 1.0) <= 2 * atol)
            else:
                bad |= ~(w + wc <= 1.0 + 2 * atol)
            if bg != 0.0 and s % 2 == 0:
                # ... and a later call WITHOUT the keyword is back at background 0 (an option given once is not remembered)
                w0 = np.asarray(StockholderWeight.from_arrays(Z[:cut], pos[:cut], Z[cut:], pos[cut:]).weights(pts), dtype=np.float64)
                ev_w += len(pts)
                bad0 = ~(np.abs(w0 - ea / (ea + eb)) <= atol)
                if bad0.any():
                    k = int(np.argmax(bad0))
                    rec(f_w, "weights_default_after_option", {"Z": Z.tolist(), "atoms": pos.tolist(), "cut": cut, "history": f"from_arrays(..., background={bg}) then from_arrays(...) without the keyword",
                                                              "point": pts[k].tolist()}, {"w": float(w0[k]), "oracle_without_background": float((ea / (ea + eb))[k])},
                        "from_arrays without a background keyword uses background 0, whatever earlier calls were given")
            if bad.any():
                k = int(np.argmax(bad))
                rec(f_w, "weights", {"Z": Z.tolist(), "atoms": pos.tolist(), "cut": cut, "background": bg, "point": pts[k].tolist()},
                    {"w": float(w[k]), "w_complement": float(wc[k]), "oracle": float(we[k]), "atol": atol},
                    "w == rho_A/(rho_A+rho_B+bg) in [0,1]; w_A + w_B == 1 without background")
    f_raise = []
    for s in range(nsys):
        N = int(rng.integers(2, 40)) if s % 3 else int(rng.integers(2, 5))
        Z = rng.integers(1, 104, N)
        if s < 4:
            Z[0], Z[-1] = (1, 103) if s % 2 else (103, 1)      # both ends of the element range in every run
        pos = rng.uniform(-8, 8, (N, 3))
        if s % 10 == 7 and N >= 3:
            # sites shared by two different atoms (mixed occupancy, or the same site listed in both sets of a split): they are two atoms, both count
            pos[1] = pos[0]
            pos[-1] = pos[N // 2]
            Z[1] = Z[0] % 103 + 1
        pts = _far_points(rng, pos, npt, 12.0)
        if len(pts) == 0:
            continue
        try:
            system(s, Z, pos, pts)
        except Exception as e:  # noqa -- a valid input must not raise
            ev_sum += 1
            rec(f_raise, "raise", {"Z": Z.tolist(), "atoms": pos.tolist(), "n_points": int(len(pts))}, {"raised": repr(e)},
                "construction, rho and weights return normally for atomic numbers 1..103 and points away from nuclei")
    f_sum.extend(f_raise[: max(0, 3 - len(f_sum))])
    # constructor domain
    ev_c = 0
    for badZ in (0, -1, 104, 300):
        ev_c += 1
        try:
            PromoleculeDensity(([1, badZ], [[0, 0, 0], [1, 0, 0]]))
            rec(f_ctor, f"ctor{badZ}", {"Z": [1, badZ]}, "constructor accepted an atomic number outside 1..103", "elements outside 1..103 are rejected (no silent row wrap-around)")
        except ValueError:
            pass
        except Exception as e:  # noqa
            rec(f_ctor, f"ctor{badZ}", {"Z": [1, badZ]}, {"raised": repr(e)}, "elements outside 1..103 are rejected with ValueError (no silent row wrap-around)")
    dom = (f"{nsys} seeded systems of 2..39 atoms (every tenth with two sites shared by two atoms), Z uniform in 1..103, coordinates in [-8,8]^3 A, up to {npt} points in [-12,12]^3 A at least 0.3 A from every nucleus; "
           f"relative tolerance (10*kappa+8+N)*2^-24 (kappa = {kap:.1f})")
    out.append(dict(ident="density.PromoleculeDensity.rho/bounded/sum_of_atoms", failures=f_sum, evaluations=ev_sum, distinct=ev_sum, domain=dom, rule="distinct (system, point) pairs"))
    out.append(dict(ident="density.PromoleculeDensity.rho/bounded/additive", failures=f_add, evaluations=ev_add, distinct=ev_add, domain=dom + "; random split", rule="distinct (system, point) pairs"))
    out.append(dict(ident="density.PromoleculeDensity.rho/bounded/order_invariant", failures=f_ord, evaluations=ev_ord, distinct=ev_ord, domain=dom + "; random permutation", rule="distinct (system, point) pairs"))
    out.append(dict(ident="density.PromoleculeDensity.rho/bounded/rigid_motion", failures=f_rig, evaluations=ev_rig, distinct=ev_rig,
                    domain=dom + f"; random rotation + translation in [-3,3]^3; extra tolerance G*4*sqrt(3)*2^-24*max|coordinate| with G = {G:.1f}/A (max |dln rho/dr| for r >= 0.25 A)",
                    rule="distinct (system, point) pairs"))
    out.append(dict(ident="density.StockholderWeight.weights/bounded/shares", failures=f_w, evaluations=ev_w, distinct=ev_w,
                    domain=dom + "; split into interior/exterior sets, background in {0, 1e-4, 1e-2, 0.5}; constructor and from_arrays", rule="distinct (system, background, point)"))
    out.append(dict(ident="density.PromoleculeDensity.__init__/bounded/element_range", failures=f_ctor, evaluations=ev_c, distinct=ev_c,
                    domain="atomic numbers 0, -1, 104, 300 next to a valid one", rule="distinct invalid atomic numbers"))

    # -- (2b) the pure-Python reference interpolator of the package (lerp.py; unused by the kernel, the only other implementation in the tree)
    from chmpy.interpolate.lerp import vectorized_lerp
    f_l, ev_l = [], 0
    dxe = float(tab.X[1] - tab.X[0])
    dev = np.abs((tab.X - tab.X[0]) / dxe - np.arange(tab.n))
    ratio = tab.R[:, 1:] / tab.R[:, :-1]
    # on the measured (not exactly uniform) grid the two implementations may pick neighbouring cells within |dev| of a knot; the interpolant is continuous,
    # so they then differ by at most (|dev_j| + |dev_j+1|) * (1 - ratio_j) relative
    tol_l = float(2 * ((dev[1:-1] + dev[2:])[None, :] * (1 - ratio[:, 1:])).max() + 64 * 2.0 ** -53)     # + float64 round-off of the two evaluations
    for row in range(103):
        try:
            xs = np.concatenate([rng.uniform(tab.X[1], tab.X[-1] + 1.0, 400 if tier == "quick" else 4000), tab.X[1:-1] + 1e-9, [tab.X[-1], tab.X[-1] + 0.5]])
            got = vectorized_lerp(xs, tab.X, tab.R[row])
            exp = tab.T(row, xs)
            ev_l += len(xs)
            bad = ~(np.abs(got - exp) <= tol_l * exp)
            if bad.any():
                k = int(np.argmax(bad))
                rec(f_l, "lerp", {"row": row, "x": float(xs[k])}, {"lerp": float(got[k]), "oracle": float(exp[k]), "rtol": tol_l}, "vectorized_lerp(x, domain, row) == T_row(x) for x >= second knot")
        except Exception as e:  # noqa
            ev_l += 1
            rec(f_l, "lerp_raise", {"row": row}, {"raised": repr(e)}, "vectorized_lerp returns normally")
    out.append(dict(ident="lerp.vectorized_lerp/bounded/agrees_with_oracle", failures=f_l, evaluations=ev_l, distinct=ev_l,
                    domain=f"all 103 rows, seeded x in [second knot, last knot + 1] plus every interior knot + 1e-9 and the table end (float64 arguments); below the second knot the "
                           f"reference interpolates where the kernel is deliberately flat (inside the 0.3 A exclusion), so that zone is left out; relative tolerance {tol_l:.1e} "
                           "(cell-assignment ambiguity on the measured grid)", rule="distinct (row, x) pairs"))

    # -- (3) single-point path (one_rho / one_weight) through the radial root finders ------------------------------------------
    from chmpy.interpolate._density import sphere_promolecule_radii, sphere_stockholder_radii
    f_root, ev_root = [], 0
    nroot = 25 if tier == "quick" else 400
    def roots(Z, pos):
        nonlocal ev_root
        N = len(Z)
        pd = PromoleculeDensity((Z, pos))
        o = pos.mean(axis=0).astype(np.float32)
        dirs = rng.normal(size=(60, 3))
        dirs = (dirs / np.linalg.norm(dirs, axis=1)[:, None]).astype(np.float32)
        iso = float(rng.choice([2e-4, 2e-3, 1e-2]))
        lo, hi = 0.0, 20.0
        r = np.asarray(sphere_promolecule_radii(pd.dens, o, dirs, lo, hi, 1e-7, 60, iso))
        ok = r > 0
        pts = (o.astype(np.float64) + dirs.astype(np.float64)[ok] * r[ok][:, None])
        d = np.sqrt(((pts[:, None, :] - np.asarray(pos, np.float32).astype(np.float64)[None]) ** 2).sum(2)).min(1)
        keep = d >= 0.3
        val = tab.rho(Z, pos, pts[keep], high_fill_zero=True)
        ev_root += int(keep.sum())
        # Brent stops within xtol/2 + tol*|r| of a sign change (xtol = 1e-5 A hard-wired, tol = 1e-7), radii are float32 (2^-24 * 20 A):
        # |rho(root) - iso| <= G * position error * rho  + kernel tolerance
        tol_pos = G * (1e-5 + 1e-7 * 20 + 4 * U32 * 20) + 2 * rtol(N)
        bad = ~(np.abs(val - iso) <= tol_pos * iso)
        if bad.any():
            k = int(np.argmax(bad))
            rec(f_root, "root_pro", {"Z": Z.tolist(), "atoms": pos.tolist(), "origin": o.tolist(), "direction": dirs[ok][keep][k].tolist(), "isovalue": iso},
                {"radius": float(r[ok][keep][k]), "oracle_rho_at_radius": float(val[k]), "rtol": tol_pos},
                "the radius found by the single-point path is a root of the oracle density (one_rho agrees with the oracle at the root)")
        # stockholder: interior = these atoms, exterior = a shifted copy; weight 0.5 surface
        shift = np.array([rng.uniform(4.0, 6.0), 0, 0])
        pe = pos + shift
        sw = StockholderWeight(pd, PromoleculeDensity((Z, pe)))
        # upper end of the bracket chosen so that the interior density is still inside its table (the single-point path returns 0 beyond it
        # and one_weight then divides 0/0, see the note in the evidence)
        upper = float(np.sqrt(tab.X[-1]) * BOHR - 0.2 - np.sqrt(((pos - o.astype(np.float64)) ** 2).sum(1)).max())
        rs = np.asarray(sphere_stockholder_radii(sw.s, o, dirs, 0.0, upper, 1e-7, 60, 0.5))
        oks = rs > 0
        if oks.any():
            ps = (o.astype(np.float64) + dirs.astype(np.float64)[oks] * rs[oks][:, None])
            allpos = np.vstack([pos, pe])
            dd = np.sqrt(((ps[:, None, :] - np.asarray(allpos, np.float32).astype(np.float64)[None]) ** 2).sum(2)).min(1)
            kp = dd >= 0.3
            ea = tab.rho(Z, pos, ps[kp], True)
            eb = tab.rho(Z, pe, ps[kp], True)
            tot = ea + eb
            kp2 = (ea > 0) & (eb > 0)
            wv = ea[kp2] / tot[kp2]
            ev_root += int(kp2.sum())
            # dw/dr <= G/2 at w = 1/2 (w(1-w) * |dln(rho_a/rho_b)/dr| <= 2G/4)
            tol_w = 0.5 * G * (1e-5 + 1e-7 * 20 + 4 * U32 * 20) + 4 * rtol(N)
            badw = ~(np.abs(wv - 0.5) <= tol_w)
            if badw.any():
                k = int(np.argmax(badw))
                rec(f_root, "root_stock", {"Z": Z.tolist(), "atoms": pos.tolist(), "exterior_shift": shift.tolist(), "origin": o.tolist(), "point": ps[kp][kp2][k].tolist()},
                    {"oracle_weight_at_radius": float(wv[k]), "atol": tol_w}, "the radius found by one_weight is a root of (oracle weight - 0.5)")
    for s in range(nroot):
        N = int(rng.integers(1, 8))
        Z = rng.integers(1, 104, N)
        pos = rng.uniform(-2.5, 2.5, (N, 3))
        try:
            roots(Z, pos)
        except Exception as e:  # noqa
            ev_root += 1
            rec(f_root, "root_raise", {"Z": Z.tolist(), "atoms": pos.tolist()}, {"raised": repr(e)}, "the radial root finders return normally")
    out.append(dict(ident="_density.sphere_radii/bounded/single_point_path", failures=f_root, evaluations=ev_root, distinct=ev_root,
                    domain=f"{nroot} seeded systems of 1..7 atoms in [-2.5,2.5]^3 A, 60 directions from the centroid, isovalues 2e-4/2e-3/1e-2 (density) and weight 0.5 against a copy "
                           f"shifted by 4..6 A; bracket [0, 20] A (density) / [0, table end - molecular radius] (weight), tol 1e-7, 60 iterations; roots nearer than 0.3 A to a nucleus skipped; tolerance G*(1e-5 + 2e-6 + 80*2^-24) + kernel tolerance",
                    rule="distinct (system, direction) roots"))
    return out
