"""C03 — periodic neighbourhood queries return exactly the atoms within the radius (crystal/crystal.py, util/num.py)."""
import ast, os
import contextlib
import io
import itertools
import time
from fractions import Fraction

import numpy as np
import z3

from pyvc import frames
from pyvc.api import Contract, Interp, NDArr, Obj, conj, farr, real_matrix, reals, shell, source
from pyvc.symex import Frame, ModelFn as _MF
from pyvc.values import PyRaise, Unsupported, z, to_real, num_cmp, num_binop

CR = "chmpy.crystal.crystal"


# ------------------------------------------------------------------------------------------------ oracle (brute force)
def brute_force(crystal, centres, radius):
    """All periodic images (uc_atom, cell) within `radius` of any centre (Cartesian), from an independently generous box."""
    uc = crystal.unit_cell_atoms()
    D = crystal.unit_cell.direct
    smin = np.linalg.svd(D, compute_uv=False).min()
    half = int(np.ceil(radius / smin)) + 1
    fo = crystal.to_fractional(np.asarray(centres))
    lo = np.floor(fo.min(axis=0)).astype(int) - half
    hi = np.ceil(fo.max(axis=0)).astype(int) + half
    cells = np.array(list(itertools.product(range(lo[0], hi[0] + 1), range(lo[1], hi[1] + 1), range(lo[2], hi[2] + 1))))
    out = []
    frac = uc["frac_pos"]
    centres = np.asarray(centres)
    for p in range(len(frac)):
        pos = (frac[p] + cells) @ D
        d = np.min(np.linalg.norm(pos[:, None, :] - centres[None, :, :], axis=2), axis=1)
        for k in np.where(d <= radius)[0]:
            out.append((p, tuple(int(v) for v in cells[k]), float(d[k]), pos[k]))
    return out, uc


def make_crystal(rng, kind):
    from chmpy.crystal import Crystal, UnitCell, SpaceGroup, AsymmetricUnit
    from chmpy import Element
    if kind == "triclinic":
        while True:
            L = rng.uniform(4, 11, 3)
            A = rng.uniform(np.radians(55), np.radians(125), 3)
            ca, cb, cg = np.cos(A)
            if 1 - ca * ca - cb * cb - cg * cg + 2 * ca * cb * cg > 0.15:
                break
        uc, sg = UnitCell.from_lengths_and_angles(L, A), int(rng.choice([1, 2]))
    elif kind == "monoclinic":
        uc, sg = UnitCell.from_lengths_and_angles(rng.uniform(4, 12, 3), [np.pi / 2, rng.uniform(np.radians(95), np.radians(130)), np.pi / 2]), int(rng.choice([4, 14]))
    elif kind == "rhombohedral":
        a = rng.uniform(5, 9)
        al = rng.uniform(np.radians(50), np.radians(110))
        uc, sg = UnitCell.from_lengths_and_angles([a, a, a], [al, al, al]), 1
    elif kind == "hexagonal":
        a, c = rng.uniform(4, 9), rng.uniform(5, 14)
        uc, sg = UnitCell.from_lengths_and_angles([a, a, c], [np.pi / 2, np.pi / 2, 2 * np.pi / 3]), int(rng.choice([143, 168]))
    else:
        uc, sg = UnitCell.from_lengths_and_angles(rng.uniform(4, 10, 3), [np.pi / 2] * 3), int(rng.choice([19, 61]))
    n = int(rng.integers(2, 6))
    els = [Element[str(s)] for s in rng.choice(["C", "N", "O", "H", "S"], size=n)]
    pos = rng.uniform(-0.4, 1.4, (n, 3))          # centres inside and outside the reference cell
    if rng.integers(0, 2):                         # some sites on exact special positions (images coincide and are merged)
        pos[0] = rng.choice([0.0, 0.5], size=3)
        if n > 2:
            pos[1] = [0.0, 0.0, rng.uniform(0.1, 0.4)]
    return Crystal(uc, SpaceGroup(sg), AsymmetricUnit(els, pos))


def key_of(el, pos):
    return (int(el), tuple(np.round(np.asarray(pos, dtype=float), 5) + 0.0))


def _quick_valid(hyps, goal, algebra=False, timeout_ms=3000):
    """Small synchronous validity query used to recognise locals by their meaning."""
    from pyvc import cert
    if algebra and z3.is_eq(goal):
        try:
            if cert.certify_equation([z(h) for h in hyps], goal.arg(0), goal.arg(1)).get("ok"):
                return True
        except Exception:  # noqa
            pass
    sv = z3.Solver()
    sv.set("timeout", timeout_ms)
    for h in hyps:
        sv.add(z(h))
    sv.add(z3.Not(goal))
    return sv.check() == z3.unsat


def compare_atoms(got_el, got_pos, exp_el, exp_pos, tol=1e-6):
    """One-to-one matching of returned and expected atoms (same element, positions within tol); None when they agree."""
    from scipy.spatial import cKDTree
    got_pos, exp_pos = np.asarray(got_pos, dtype=float).reshape(-1, 3), np.asarray(exp_pos, dtype=float).reshape(-1, 3)
    got_el, exp_el = np.asarray(got_el).astype(int), np.asarray(exp_el).astype(int)
    if len(got_pos) == 0 and len(exp_pos) == 0:
        return None
    used = np.zeros(len(got_pos), dtype=bool)
    missing = []
    if len(got_pos):
        tree = cKDTree(got_pos)
        for e, p_ in zip(exp_el, exp_pos):
            cands = [j for j in tree.query_ball_point(p_, tol) if not used[j] and got_el[j] == e]
            if cands:
                used[cands[0]] = True
            else:
                missing.append(p_.tolist())
    else:
        missing = exp_pos.tolist()
    extra = got_pos[~used].tolist() if len(got_pos) else []
    if not missing and not extra:
        return None
    return {"returned": int(len(got_pos)), "expected": int(len(exp_pos)), "missing": len(missing), "extra_or_duplicate": len(extra),
            "first_missing": missing[:2], "first_extra": extra[:2]}


def not_own(exp, uc, own_positions, tol=1e-3):
    """Expected neighbours: brute-force hits that are not (within tol of) one of the centre's own atoms."""
    own = np.asarray(own_positions, dtype=float).reshape(-1, 3)
    els, pos = [], []
    for p_, cell, d, q in exp:
        if np.linalg.norm(own - q, axis=1).min() < tol:
            continue
        els.append(uc["element"][p_])
        pos.append(q)
    return els, pos


def compare_sets(got, exp):
    g, e = sorted(got), sorted(exp)
    if g == e:
        return None
    gs, es = set(g), set(e)
    return {"returned": len(g), "expected": len(e), "missing": len(es - gs), "extra": len(gs - es), "duplicates": len(g) - len(gs),
            "first_missing": [list(map(float, k[1])) for k in sorted(es - gs)[:2]], "first_extra": [list(map(float, k[1])) for k in sorted(gs - es)[:2]]}


def native_queries(crystal, radius, rng, label):
    """Run-time contract on the real query functions; returns list of failure dicts."""
    fails = []
    uc = crystal.unit_cell_atoms()
    n_evals = 0
    # atoms_in_radius at an arbitrary origin
    origin = crystal.to_cartesian(rng.uniform(-1.2, 2.2, (1, 3)))[0]
    exp, _ = brute_force(crystal, [origin], radius)
    res = crystal.atoms_in_radius(radius, origin=origin)
    n_evals += 1
    got_pairs = sorted((int(u), tuple(int(round(v)) for v in c)) for u, c in zip(res["uc_atom"], res["cell"]))
    exp_pairs = sorted((p, c) for p, c, _, _ in exp)
    bad = None
    if got_pairs != exp_pairs:
        bad = {"returned": len(got_pairs), "expected": len(exp_pairs), "missing": len(set(exp_pairs) - set(got_pairs)), "extra": len(set(got_pairs) - set(exp_pairs)),
               "duplicates": len(got_pairs) - len(set(got_pairs))}
    else:
        # parent-site indices, independently of the unit-cell list: the reported atom must be a symmetry image of asymmetric-unit site `asym_atom` with that element
        ops = crystal.space_group.symmetry_operations
        apos = crystal.asymmetric_unit.positions
        anum = np.asarray(crystal.asymmetric_unit.atomic_numbers)
        for el, fp, aa in list(zip(res["element"], res["frac_pos"], res["asym_atom"]))[:60]:
            ok_img = 0 <= int(aa) < len(apos) and anum[int(aa)] == el and any(
                np.abs((lambda dlt: dlt - np.round(dlt))(op.apply(apos[int(aa)][None, :])[0] - fp)).max() < 1e-6 for op in ops)
            if not ok_img:
                bad = {"reported_parent_site_is_not_a_symmetry_parent": {"asym_atom": int(aa), "element": int(el), "frac_pos": np.asarray(fp).tolist()}}
                break
    if bad is None:
        # reported data belong to those images
        for u, c, el, cp, fp, aa in zip(res["uc_atom"], res["cell"], res["element"], res["cart_pos"], res["frac_pos"], res["asym_atom"]):
            if el != uc["element"][u] or aa != uc["asym_atom"][u] or not np.allclose(fp, uc["frac_pos"][u] + c, atol=1e-9) or \
                    not np.allclose(cp, crystal.to_cartesian(fp), atol=1e-8) or np.linalg.norm(cp - origin) > radius + 1e-9:
                bad = {"inconsistent_row": {"uc_atom": int(u), "cell": [float(v) for v in c]}}
                break
    if bad:
        fails.append({"input": {"crystal": label, "query": "atoms_in_radius", "radius": radius, "origin": origin.tolist()}, "observed": bad,
                      "clause": "atoms_in_radius returns exactly the periodic images within the radius, once each, with their own element/positions/parent indices", "key": "atoms_in_radius"})
    # atomic_surroundings
    cart_asym = crystal.to_cartesian(crystal.asymmetric_unit.positions)
    sur = crystal.atomic_surroundings(radius=radius)
    n_evals += 1
    for i, s in enumerate(sur):
        exp, _ = brute_force(crystal, [cart_asym[i]], radius)
        e_el, e_pos = not_own(exp, uc, [cart_asym[i]])
        diff = compare_atoms(s["neighbours"]["element"], s["neighbours"]["cart_pos"], e_el, e_pos)
        if diff is None:
            dd = np.linalg.norm(s["neighbours"]["cart_pos"] - cart_asym[i], axis=1)
            if not np.allclose(dd, s["neighbours"]["distance"], atol=1e-9) or s["centre"]["asym_atom"] != i:
                diff = {"distances_or_centre_inconsistent": True}
            else:
                # parent-site indices: match on (asym index encoded as element) as well
                ea = [int(uc["asym_atom"][p]) for p, c, d, pos in exp if d > 1e-3]
                ep = [pos for p, c, d, pos in exp if d > 1e-3]
                if compare_atoms(s["neighbours"]["asym_atom"], s["neighbours"]["cart_pos"], ea, ep) is not None:
                    diff = {"parent_site_indices_wrong": True}
        if diff:
            fails.append({"input": {"crystal": label, "query": "atomic_surroundings", "radius": radius, "asym_atom": i}, "observed": diff,
                          "clause": "atomic_surroundings: exactly the images within the radius of the site, the site itself excluded", "key": "atomic_surroundings"})
            break
    return fails, n_evals


def build(ctx):
    ctx.level = "proof"
    ctx.explanation = ("P: extent.complete — for every invertible cell (D.V = 1), radius >= 0, centre and atom image f = p + n (0 <= p < 1, n integer): "
                       "|f.D - o| <= r implies n lies inside the cell bounds the real code computes (the code is executed symbolically up to its call of slab; "
                       "Cauchy-Schwarz is a separately proved lemma); slab layout and the ball bookkeeping on small symbolic instances with an exact model of the KD-tree "
                       "(selected <=> within the radius); F: every neighbourhood query sizes its slab with the same extent expression; the cell loop of slab is a map. "
                       "B: all query functions against a brute-force periodic search on generated oblique/orthogonal crystals and the bundled structures.")
    ctx.assumptions += ["cKDTree.query_ball_point returns exactly the indices within the radius; cKDTree.query the nearest point (scipy)",
                        "floats are reals (points at distance exactly equal to the radius are not decided)",
                        "unit_cell_atoms is the list of unit-cell atoms with 0 <= frac_pos < 1 (property C01)"]
    mod = source.load_module(CR)
    f_air = ctx.fn(CR, "Crystal.atoms_in_radius")
    f_slab = ctx.fn(CR, "Crystal.slab")
    f_as = ctx.fn(CR, "Crystal.atomic_surroundings")
    f_me = ctx.fn(CR, "Crystal.molecule_environment")
    f_ags = ctx.fn(CR, "Crystal.atom_group_surroundings")
    ctx.fn("chmpy.util.num", "cartesian_product")

    # ------------------------------------------------------------------ L: Cauchy-Schwarz in R^3 (Lagrange identity, exact)
    d = reals("d", 3)
    v = reals("v", 3)
    lag = (sum(x * x for x in d) * sum(x * x for x in v) - sum(a * b for a, b in zip(d, v)) ** 2
           - sum((d[j] * v[k] - d[k] * v[j]) ** 2 for j in range(3) for k in range(j + 1, 3)))
    r = ctx.prove_identity("lemma/lagrange_identity", [lag], [], clause="(sum d^2)(sum v^2) - (d.v)^2 == sum_{j<k} (d_j v_k - d_k v_j)^2, hence (d.v)^2 <= |d|^2 |v|^2")
    r.tag = "L"

    # ------------------------------------------------------------------ P: extent.complete for atoms_in_radius
    D = real_matrix("D", 3, 3)
    V = real_matrix("V", 3, 3)
    o = reals("o", 3)
    p = reals("p", 3)
    n = [z3.Int(f"n{i}") for i in range(3)]
    rad = z3.Real("r")
    inv_hyps = [sum(D[i][k] * V[k][j] for k in range(3)) == (1 if i == j else 0) for i in range(3) for j in range(3)] + \
               [sum(V[i][k] * D[k][j] for k in range(3)) == (1 if i == j else 0) for i in range(3) for j in range(3)]
    captured = {}

    class _SlabReached(BaseException):
        """Raised by the contract standing in for Crystal.slab: the run is stopped at the call (wherever it is made -- in the query itself or in a helper it calls)
        and the bounds it was given are what the obligations are about."""

        def __init__(self, bounds):
            self.bounds = bounds

    def slab_result(I2, self_, bounds=None, **kw):
        captured["bounds"] = bounds
        raise _SlabReached(bounds)
    contracts = {CR + ".Crystal.slab": Contract(result=lambda I2, self_, bounds=None: slab_result(I2, self_, bounds))}

    class _Tree:
        pass

    def kdtree_model(I2, pts, *a, **k):
        t = _Tree()
        t.pts = pts
        return t
    models = {"scipy.spatial.cKDTree": _MF("scipy.cKDTree(exact ball/nearest queries)", kdtree_model)}
    I = ctx.interp(contracts=contracts, models=models)
    CRcls = I.class_of(mod, "Crystal")

    def extent_replay(m):
        from chmpy.crystal import Crystal
        from chmpy.tests import TEST_FILES
        with contextlib.redirect_stdout(io.StringIO()):
            c = Crystal.load(str(TEST_FILES["iceII.cif"]))
        fails, _ = native_queries(c, 12.0, np.random.default_rng(5), "iceII.cif")
        return {"native_inputs": {"structure": "iceII.cif (rhombohedral, alpha = 113 deg)", "radius": 12.0}, "reproduced": bool(fails),
                "observed": fails[0]["observed"] if fails else "all images within 12 A found"}

    def ob_extent():
        # execute the body of atoms_in_radius statement by statement up to its call of slab, then read its locals
        I.pc, I.decisions, I.dpos, I.new_alts, I.cur_safety, I.fresh_count, I.depth, I.no_fork = [rad >= 0] + inv_hyps, [], 0, [], [], 0, 1, 0
        ucell = shell(I, "chmpy.crystal.unit_cell", "UnitCell", direct=farr(D), inverse=farr(V), lengths=[z3.Real(f"len{i}") for i in range(3)])
        cr = Obj(CRcls, {"unit_cell": ucell})
        fr = Frame(mod, {"self": cr, "radius": rad, "origin": farr(o)}, CRcls, fname=f_air.qualname, fnode=f_air.node)
        Evs, Fvs = [z3.Real(f"E{i}") for i in range(3)], [z3.Real(f"F{i}") for i in range(3)]
        orig = None
        found = {}
        fo_spec = [sum(o[k] * V[k][i] for k in range(3)) for i in range(3)]
        A2s = [sum(V[k][i] * V[k][i] for k in range(3)) for i in range(3)]
        for st in f_air.node.body:
            if isinstance(st, ast.Expr) and isinstance(st.value, ast.Constant):
                continue
            try:
                I.exec_stmt(st, fr)
            except _SlabReached as reached_:
                bounds = reached_.bounds
                break
            if orig is None:
                # find, BY MEANING (not by name), the local holding the fractional origin o.V and the one holding the extent r|a*_i|;
                # abstract them so that the statements that follow (floor/ceil, integer conversion) are executed on E, F
                for name_, val_ in list(fr.env.items()):
                    if name_ in ("self", "radius", "origin") or not isinstance(val_, NDArr) or val_.shape != (3,) or name_ in found.values():
                        continue
                    cells = val_.flat()
                    if "F" not in found and all(_quick_valid(list(I.pc), z(cells[i]) == fo_spec[i], algebra=True) for i in range(3)):
                        found["F"] = name_
                    elif "E" not in found and all(_quick_valid([rad >= 0] + [h for h in I.pc if "py_sqrt" in str(h)],
                                                               z3.And(z(cells[i]) * z(cells[i]) == rad * rad * A2s[i], z(cells[i]) >= 0)) for i in range(3)):
                        found["E"] = name_
                if "E" in found and "F" in found:
                    orig = (fr.env[found["E"]].flat(), fr.env[found["F"]].flat())
                    fr.env[found["E"]] = farr(Evs)
                    fr.env[found["F"]] = farr(Fvs)
        else:
            raise Unsupported("atoms_in_radius no longer calls self.slab")
        if orig is None:
            # the code does not compute (under any name) the origin o.V and the extent r|a*_i| before calling slab: the clause is decided natively
            ctx.notes.append("C03 extent.complete: locals for o.V / r|a*| not recognised in atoms_in_radius; decided by the brute-force fall-back")
            fb = extent_replay(None)
            ctx.add_bounded("crystal.Crystal.atoms_in_radius/ensures/extent.complete/fallback", "ice II, r = 12 (extent obligations could not be attached to the source)", 1, 1,
                            [] if not fb["reproduced"] else [{"input": fb["native_inputs"], "observed": fb["observed"], "clause": "no atom within the radius is missing", "key": "extent-fallback"}])
            return
        E, Fo = orig
        (hmin, kmin, lmin), (hmax, kmax, lmax) = [(b_.flat() if isinstance(b_, NDArr) else b_) for b_ in bounds]
        lo, hi = [hmin, kmin, lmin], [hmax, kmax, lmax]
        pc = list(I.pc)
        sqrt_axioms = [h for h in pc if "py_sqrt" in str(h)]
        f = [p[i] + z3.ToReal(n[i]) for i in range(3)]
        x = [sum(f[k] * D[k][i] for k in range(3)) for i in range(3)]
        fo = [sum(o[k] * V[k][i] for k in range(3)) for i in range(3)]
        for i in range(3):
            A2 = sum(V[k][i] * V[k][i] for k in range(3))
            lab = f"crystal.Crystal.atoms_in_radius/ensures/extent.complete/axis{i}"
            ctx.prove(lab + "/frac_origin", pc, z(Fo[i]) == fo[i], algebra=True, clause="the code's fractional origin is o . V", replay=extent_replay, fn=f_air)
            ctx.prove(lab + "/extent_is_r_times_reciprocal_length", [rad >= 0] + sqrt_axioms, z3.And(z(E[i]) * z(E[i]) == rad * rad * A2, z(E[i]) >= 0),
                      clause="the code's fractional extent along axis i is radius * |column i of the inverse cell matrix| (what Cauchy-Schwarz requires)",
                      replay=extent_replay, fn=f_air, timeout_ms=20000)
            ctx.prove(lab + "/offset_identity", inv_hyps, f[i] - fo[i] == sum((x[k] - o[k]) * V[k][i] for k in range(3)),
                      algebra=True, clause="f_i - fo_i == ((x - o) . V)_i  whenever D.V = 1", replay=extent_replay, fn=f_air)
            # from Cauchy-Schwarz (lemma) and |x - o| <= r:  t^2 <= r^2 A2 = E^2, E >= 0  =>  -E <= t <= E
            t, Ev, Fv = z3.Real(f"t{i}"), Evs[i], Fvs[i]
            ctx.prove(lab + "/offset_within_extent", [Ev >= 0, t * t <= Ev * Ev], z3.And(-Ev <= t, t <= Ev),
                      clause="t^2 <= E^2 and E >= 0 imply |t| <= E", fn=f_air)
            # integer bounds, with the code's own floor/ceil expressions (extent and origin abstracted to E, F)
            lo_i, hi_i = z(lo[i]), z(hi[i])
            hy = [z3.And(p[i] >= 0, p[i] < 1), t == p[i] + z3.ToReal(n[i]) - Fv, -Ev <= t, t <= Ev]
            ctx.prove(lab + "/lower", hy, lo_i <= n[i], clause="an image within the radius has cell index n_i >= the lower bound passed to slab", replay=extent_replay, fn=f_air)
            ctx.prove(lab + "/upper", hy, n[i] <= hi_i, clause="... and n_i <= the upper bound passed to slab", replay=extent_replay, fn=f_air)
    ctx.attempt("crystal.Crystal.atoms_in_radius/ensures/extent.complete", ob_extent, replay=extent_replay, fn=f_air)

    # ------------------------------------------------------------------ P: multi-centre queries (two centres, symbolic): bounds cover the extent of EVERY centre
    def ob_multi(fsrc, label, setup):
        """Execute the body of a multi-centre query up to its call of slab; `setup(I, cr)` returns (frame env, list of fractional centres as z3 term triples)."""
        I.pc, I.decisions, I.dpos, I.new_alts, I.cur_safety, I.fresh_count, I.depth, I.no_fork = [rad >= 0] + inv_hyps, [], 0, [], [], 0, 1, 0
        ucell = shell(I, "chmpy.crystal.unit_cell", "UnitCell", direct=farr(D), inverse=farr(V), lengths=[z3.Real(f"len{i}") for i in range(3)])
        cr = Obj(CRcls, {"unit_cell": ucell})
        env0, centres = setup(I, cr)
        fr = Frame(mod, dict(env0, self=cr, radius=rad), CRcls, fname=fsrc.qualname, fnode=fsrc.node)
        Evs = [z3.Real(f"E{i}") for i in range(3)]
        A2s = [sum(V[k][i] * V[k][i] for k in range(3)) for i in range(3)]
        found_E = None
        bounds = None

        def run(stmts):
            nonlocal found_E, bounds
            for st in stmts:
                if isinstance(st, ast.Expr) and isinstance(st.value, ast.Constant):
                    continue
                try:
                    I.exec_stmt(st, fr)
                except _SlabReached as reached_:
                    bounds = reached_.bounds
                    return True
                if found_E is None:
                    for name_, val_ in list(fr.env.items()):
                        if name_ in ("self", "radius") or name_ in env0 or not isinstance(val_, NDArr) or val_.shape != (3,):
                            continue
                        cells = val_.flat()
                        if any(type(c_).__name__ == "InfVal" for c_ in cells):
                            continue
                        if all(_quick_valid([rad >= 0] + [h for h in I.pc if "py_sqrt" in str(h)], z3.And(z(cells[i]) * z(cells[i]) == rad * rad * A2s[i], z(cells[i]) >= 0)) for i in range(3)):
                            found_E = name_
                            fr.env[name_] = farr(Evs)
                            break
            return False
        reached = run(fsrc.node.body)
        if not reached or found_E is None or bounds is None:
            ctx.notes.append(f"C03 {label}: extent local / slab call not recognised; decided by the brute-force stand-in")
            return
        (hmin, kmin, lmin), (hmax, kmax, lmax) = [(b_.flat() if isinstance(b_, NDArr) else b_) for b_ in bounds]
        lo, hi = [hmin, kmin, lmin], [hmax, kmax, lmax]
        for ci, fc in enumerate(centres):
            for i in range(3):
                t = z3.Real(f"t{i}")
                if os.environ.get("PYVC_DEBUG") and ci == 0 and i == 0:
                    print("GOAL", z3.simplify(z(hi[i])), "||", z3.simplify(z(lo[i])))
                hy = [Evs[i] >= 0, z3.And(p[i] >= 0, p[i] < 1), t == p[i] + z3.ToReal(n[i]) - fc[i], -Evs[i] <= t, t <= Evs[i]]
                ctx.prove(f"crystal.Crystal.{label}/ensures/extent.complete/centre{ci}/axis{i}", hy, z3.And(z(lo[i]) <= n[i], n[i] <= z(hi[i])),
                          clause="an image within the radius of THIS centre has its cell index inside the bounds passed to slab (bounds accumulate over all centres)",
                          replay=extent_replay, fn=fsrc)

    def setup_as(I_, cr):
        P2 = real_matrix("c", 2, 3)
        cr.fields["asymmetric_unit"] = shell(I_, "chmpy.crystal.asymmetric_unit", "AsymmetricUnit", positions=farr(P2), elements=[None, None])
        return {}, [P2[0], P2[1]]

    def setup_me(I_, cr):
        M2 = real_matrix("m", 2, 3)
        molobj = shell(I_, "chmpy.core.molecule", "Molecule", positions=farr(M2))
        fc = [[sum(M2[c_][k] * V[k][i] for k in range(3)) for i in range(3)] for c_ in range(2)]
        return {"mol": molobj, "threshold": Fraction(1, 1000)}, fc
    ctx.attempt("crystal.Crystal.atomic_surroundings/ensures/extent.complete", lambda: ob_multi(f_as, "atomic_surroundings", setup_as), replay=extent_replay, fn=f_as)
    ctx.attempt("crystal.Crystal.molecule_environment/ensures/extent.complete", lambda: ob_multi(f_me, "molecule_environment", setup_me), replay=extent_replay, fn=f_me)

    # ------------------------------------------------------------------ F: every query uses the same extent expression
    cf = frames.ClassFrames(mod, "Crystal")
    exprs = {}
    for name, node in cf.methods.items():
        for a in ast.walk(node):
            if isinstance(a, ast.Assign) and len(a.targets) == 1 and isinstance(a.targets[0], ast.Name) and a.targets[0].id == "frac_radius":
                exprs.setdefault(name, []).append(ast.unparse(a.value))
    canon = ast.unparse(ast.parse("radius * np.linalg.norm(self.unit_cell.inverse, axis=0)").body[0].value)
    per_site = {k: v for k, v in exprs.items()}
    ref = exprs.get("atoms_in_radius", [None])[0]
    bad = {k: v for k, v in per_site.items() if any(e.replace("radius * 2", "radius") != ref for e in v)}
    def native_fallback():
        r_ = extent_replay(None)
        return None if not r_["reproduced"] else {"input": r_["native_inputs"], "observed": r_["observed"]}
    ctx.pattern("crystal.Crystal/frac_radius/uniform_extent", bool(ref) and not bad, fallback=native_fallback,
               clause="every neighbourhood query computes its fractional extent with the expression proved complete for atoms_in_radius (symmetry_unique_dimers with twice the radius)",
               detail={"reference": ref, "sites": per_site, "differing": bad})
    # bounds accumulate the per-centre extents: ceil(frac_radius + pos) / floor(pos - frac_radius) through maximum/minimum
    acc_bad = {}
    for name in ("atomic_surroundings", "atom_group_surroundings", "molecule_environment", "functional_group_surroundings"):
        if name not in cf.methods:
            continue
        src = ast.unparse(cf.methods[name])
        ok = ("hklmax = np.maximum(hklmax, np.ceil(frac_radius + pos))" in src and "hklmin = np.minimum(hklmin, np.floor(pos - frac_radius))" in src
              and "hmax, kmax, lmax = hklmax.astype(int)" in src and "hmin, kmin, lmin = hklmin.astype(int)" in src
              and "bounds=((hmin, kmin, lmin), (hmax, kmax, lmax))" in src)
        if not ok:
            acc_bad[name] = "bounds are not the running max of ceil(extent + centre) / min of floor(centre - extent)"
    ctx.pattern("crystal.Crystal/bounds/accumulated_over_centres", not acc_bad, fallback=native_fallback,
               clause="multi-centre queries take, per axis, the maximum of ceil(extent + centre) and the minimum of floor(centre - extent) over all centre atoms and pass them to slab unchanged",
               detail=acc_bad)
    # slab's loop stores into slices of pos / slab_cells indexed by the loop counter: check disjoint block stores instead of append.  (A slab written without a loop —
    # broadcasting — has no such shape: the clause is then decided by the layout instance below and the run-time fall-back.)
    loops_ = [x for x in ast.walk(f_slab.node) if isinstance(x, ast.For)]
    stores, ok_blocks = [], False
    if loops_:
        loop = loops_[0]
        stores = [ast.unparse(t) for s in loop.body if isinstance(s, ast.Assign) for t in s.targets]
        ok_blocks = stores == ["pos[i * n_uc:(i + 1) * n_uc, :]", "slab_cells[i * n_uc:(i + 1) * n_uc]"] and ast.unparse(loop.iter) == "enumerate(cells)"
    ctx.pattern("crystal.Crystal.slab/loop0/block_stores", ok_blocks, clause="iteration i writes rows [i*n_uc, (i+1)*n_uc) of pos and slab_cells only (disjoint blocks, one per cell)",
                detail=stores, fn=f_slab, fallback=native_fallback)

    srcme = ast.unparse(f_me.node)
    ctx.pattern("crystal.Crystal.molecule_environment/threshold_parameter_used", "if d < threshold:" in srcme,
                clause="the centre molecule's own atoms are recognised with the caller's `threshold`, not a hard-coded tolerance", fn=f_me, fallback=lambda: None)
    slab_and_ball_instances(ctx, mod)
    bounded(ctx)


def slab_and_ball_instances(ctx, mod):
    """Small symbolic instances: slab layout (2 unit-cell atoms, box 2x1x1) and atoms_in_radius bookkeeping with an exact KD-tree model."""
    f_slab = ctx.fn(CR, "Crystal.slab")
    f_air = ctx.fn(CR, "Crystal.atoms_in_radius")
    ucp = real_matrix("u", 2, 3)
    D = real_matrix("D", 3, 3)
    V = real_matrix("V", 3, 3)

    def uca_result(I2, self_, *a, **k):
        from pyvc.api import iarr
        return {"asym_atom": iarr([0, 1]), "frac_pos": farr(ucp), "element": iarr([z3.Int("el0"), z3.Int("el1")]), "symop": iarr([16484, 16484]),
                "label": NDArr(np.array(["A1", "B1"], dtype=object), "o"), "occupation": farr([1, 1]), "cart_pos": farr([[0, 0, 0], [0, 0, 0]])}

    class _Tree:
        pass

    def kdtree_model(I2, pts, *a, **k):
        t = _Tree()
        t.pts = pts
        return t

    def ball(I2, tree, centre=None, radius=None, *a, **k):
        centre = k.pop("x", centre)          # scipy's own parameter names, for keyword calls: query_ball_point(x=..., r=...)
        radius = k.pop("r", radius)
        pts = tree.pts
        c = centre.flat() if isinstance(centre, NDArr) else list(centre)
        out = []
        for j in range(pts.shape[0]):
            d2 = sum((to_real(pts.data[j, i]) - to_real(c[i])) * (to_real(pts.data[j, i]) - to_real(c[i])) for i in range(3))
            if I2.decide(d2 <= to_real(radius) * to_real(radius)):
                out.append(j)
        return out
    from pyvc.libmodels import MODELS
    models = {"scipy.spatial.cKDTree": _MF("scipy.cKDTree(exact ball/nearest queries)", kdtree_model), "_Tree.query_ball_point": _MF("scipy.cKDTree.query_ball_point(exact)", ball)}
    contracts = {CR + ".Crystal.unit_cell_atoms": Contract(result=uca_result)}
    I = ctx.interp(contracts=contracts, models=models)
    I.models["_Tree.query_ball_point"] = models["_Tree.query_ball_point"]
    CRcls = I.class_of(mod, "Crystal")

    def mk(I2):
        ucell = shell(I2, "chmpy.crystal.unit_cell", "UnitCell", direct=farr(D), inverse=farr(V), lengths=[z3.Real(f"len{i}") for i in range(3)])
        return Obj(CRcls, {"unit_cell": ucell})

    def layout_replay(m):
        from chmpy.crystal import Crystal
        from chmpy.tests import TEST_FILES
        with contextlib.redirect_stdout(io.StringIO()):
            c = Crystal.load(str(TEST_FILES["acetic_acid.cif"]))
        uc = c.unit_cell_atoms()
        n_uc = len(uc["frac_pos"])
        sd = c.slab(bounds=((-1, 0, 0), (0, 0, 1)))
        cells = {tuple(int(v) for v in row) for row in sd["cell"]}
        bad = None
        if cells != {(-1, 0, 0), (-1, 0, 1), (0, 0, 0), (0, 0, 1)} or len(sd["frac_pos"]) != 4 * n_uc:
            bad = {"cells": sorted(cells), "rows": len(sd["frac_pos"]), "expected_rows": 4 * n_uc}
        else:
            for row in range(len(sd["frac_pos"])):
                a_ = row % n_uc
                if sd["element"][row] != uc["element"][a_] or sd["asym_atom"][row] != uc["asym_atom"][a_] or \
                        not np.allclose(sd["frac_pos"][row], uc["frac_pos"][a_] + sd["cell"][row]) or \
                        not np.allclose(sd["cart_pos"][row], c.to_cartesian(sd["frac_pos"][row])):
                    bad = {"row": row, "unit_cell_atom": a_}
                    break
        return {"native_inputs": {"structure": "acetic_acid.cif", "bounds": [[-1, 0, 0], [0, 0, 1]]}, "reproduced": bad is not None, "observed": bad}

    def ob_layout():
        def thunk(I2, a, kw):
            return I2.call(I2.getattr(mk(I2), "slab"), [], {"bounds": ((-1, 0, 0), (0, 0, 1))})
        res = I.explore(thunk)
        assert len(res) == 1 and res[0].kind == "return", [(r.kind, r.value) for r in res]
        sd = res[0].value
        cells = sd["cell"].data
        pos = sd["frac_pos"].data
        ncell = 4
        goals = [z3.BoolVal(sd["n_uc"] == 2 and sd["n_cells"] == ncell and pos.shape == (8, 3))]
        seen = set()
        if pos.shape == (8, 3):
            for q in range(ncell):
                cq = tuple(cells[q * 2])
                seen.add(tuple(int(x) for x in cq))
                for a_ in range(2):
                    row = q * 2 + a_
                    goals.append(z3.BoolVal(tuple(cells[row]) == cq))
                    goals += [pos[row, i] == ucp[a_][i] + z(to_real(cq[i])) for i in range(3)]
                    goals.append(z(sd["element"].data[row]) == z3.Int(f"el{a_}"))
                    goals.append(z3.BoolVal(int(sd["asym_atom"].data[row]) == a_))
                    goals += [sd["cart_pos"].data[row, i] == sum(pos[row, k] * D[k][i] for k in range(3)) for i in range(3)]
            goals.append(z3.BoolVal(seen == {(-1, 0, 0), (-1, 0, 1), (0, 0, 0), (0, 0, 1)}))
        ctx.prove("crystal.Crystal.slab/ensures/layout_instance", res[0].pc, conj(goals),
                  clause="bounds ((-1,0,0),(0,0,1)), two unit-cell atoms: row q*n_uc + a of every array is atom a translated by cell q; the cells are the box, each once; Cartesian = fractional . D",
                  fn=f_slab, replay=layout_replay)
    ctx.attempt("crystal.Crystal.slab/ensures/layout_instance", ob_layout, replay=layout_replay, fn=f_slab)

    def ob_ball():
        o = reals("o", 3)
        rad = z3.Real("r")

        def slab_res(I2, self_, bounds=None):
            from pyvc.api import iarr
            P = real_matrix("q", 3, 3)
            return {"cart_pos": farr(P), "element": iarr([z3.Int(f"e{j}") for j in range(3)]), "asym_atom": iarr([0, 1, 0]), "frac_pos": farr(real_matrix("g", 3, 3)),
                    "cell": farr(real_matrix("c", 3, 3)), "n_uc": 3, "n_cells": 1, "label": NDArr(np.array(["a", "b", "c"], dtype=object), "o")}
        I3 = ctx.interp(contracts={CR + ".Crystal.slab": Contract(result=slab_res)}, models=models)
        I3.models["_Tree.query_ball_point"] = models["_Tree.query_ball_point"]
        C3 = I3.class_of(mod, "Crystal")

        def thunk(I2, a, kw):
            ucell = shell(I2, "chmpy.crystal.unit_cell", "UnitCell", direct=farr(D), inverse=farr(V), lengths=[z3.Real(f"len{i}") for i in range(3)])
            return I2.call(I2.getattr(Obj(C3, {"unit_cell": ucell}), "atoms_in_radius"), [rad], {"origin": farr(o)})
        res = I3.explore(thunk, pre=[rad >= 0])
        P = real_matrix("q", 3, 3)
        within = [sum((P[j][i] - o[i]) * (P[j][i] - o[i]) for i in range(3)) <= rad * rad for j in range(3)]
        for k, r in enumerate(res):
            if r.kind != "return":
                ctx.prove(f"crystal.Crystal.atoms_in_radius/ensures/ball.bookkeeping/path{k}", r.pc, z3.BoolVal(False), clause="returns normally", fn=f_air)
                continue
            out = r.value
            sel = [int(v) for v in out["uc_atom"].flat()]
            goals = []
            for j in range(3):
                goals.append(within[j] if j in sel else z3.Not(within[j]))
            goals.append(z3.BoolVal(sel == sorted(set(sel))))
            for pos_, j in enumerate(sel):
                goals += [out["cart_pos"].data[pos_, i] == P[j][i] for i in range(3)]
                goals.append(z(out["element"].data[pos_]) == z3.Int(f"e{j}"))
                goals.append(z3.BoolVal(int(out["asym_atom"].data[pos_]) == [0, 1, 0][j]))
            ctx.prove(f"crystal.Crystal.atoms_in_radius/ensures/ball.bookkeeping/path{k}", r.pc, conj(goals),
                      clause="3-atom slab instance: the returned rows are exactly the atoms within the radius (no more, no fewer, none twice) and every returned array is indexed by the same rows",
                      fn=f_air)
    ctx.attempt("crystal.Crystal.atoms_in_radius/ensures/ball.bookkeeping", ob_ball)


def bounded(ctx):
    from chmpy.crystal import Crystal
    from chmpy.tests import TEST_FILES
    rng = np.random.default_rng(ctx.seed + 3)
    fails, evals, distinct = [], 0, set()
    with contextlib.redirect_stdout(io.StringIO()):
        bundled = {nm: Crystal.load(str(TEST_FILES[nm])) for nm in ("iceII.cif", "acetic_acid.cif")}
    cases = [("iceII.cif", bundled["iceII.cif"], 12.0), ("iceII.cif", bundled["iceII.cif"], 3.5), ("acetic_acid.cif", bundled["acetic_acid.cif"], 6.0)]
    kinds = ["triclinic", "monoclinic", "rhombohedral", "hexagonal", "orthorhombic"]
    nrand = 10 if ctx.tier == "quick" else 120
    for k in range(nrand):
        kind = kinds[k % len(kinds)]
        c = make_crystal(rng, kind)
        r = float(rng.choice([1.2, 3.8, 6.0, 9.0, 12.0])) if ctx.tier == "thorough" else float(rng.choice([1.2, 3.8, 6.0, 9.0]))
        cases.append((f"generated {kind} #{k} sg {c.space_group.international_tables_number} cell {np.round(c.unit_cell.parameters, 2).tolist()}", c, r))
    for label, c, r in cases:
        try:
            f, n = native_queries(c, r, rng, label)
        except Exception as e:  # noqa
            f, n = [{"input": {"crystal": label, "radius": r}, "observed": {"exception": repr(e)[:300]}, "clause": "neighbourhood queries run", "key": "exception"}], 1
        evals += n
        distinct.add((label, r))
        for x in f:
            if len(fails) < 3:
                fails.append(x)
    # molecule-centred queries on the bundled molecular crystal
    c = bundled["acetic_acid.cif"]
    for radius in (3.8, 6.0):
        uc = c.unit_cell_atoms()
        for mol, els, pos in c.molecule_environments(radius=radius):
            evals += 1
            exp, _ = brute_force(c, mol.positions, radius)
            e_el, e_pos = not_own(exp, uc, mol.positions)
            diff = compare_atoms(els, pos, e_el, e_pos)
            if diff and len(fails) < 3:
                fails.append({"input": {"crystal": "acetic_acid.cif", "query": "molecule_environments", "radius": radius}, "observed": diff,
                              "clause": "molecule environment: exactly the images within the radius of the nearest atom of the molecule, the molecule's own atoms excluded",
                              "key": "molecule_environment"})
        # a centre molecule whose coordinates are slightly off the crystal's sites (0.01 A), recognised with a widened threshold
        import copy as _copy
        mol0 = _copy.deepcopy(c.symmetry_unique_molecules()[0])
        mol0.positions = mol0.positions + 0.006 * np.sign(rng.normal(size=mol0.positions.shape))
        _, els_p, pos_p = c.molecule_environment(mol0, radius=radius, threshold=0.05)
        evals += 1
        exp, _ = brute_force(c, mol0.positions, radius)
        e_el, e_pos = not_own(exp, uc, mol0.positions, tol=0.05)
        diff = compare_atoms(els_p, pos_p, e_el, e_pos)
        if diff and len(fails) < 3:
            fails.append({"input": {"crystal": "acetic_acid.cif", "query": "molecule_environment(perturbed molecule, threshold=0.05)", "radius": radius}, "observed": diff,
                          "clause": "the centre's own atoms are excluded using the caller's threshold", "key": "molecule_environment_threshold"})
        (cel, cpos), (nel, npos) = c.atom_group_surroundings([0, 1, 2], radius=radius)
        evals += 1
        exp, _ = brute_force(c, cpos, radius)
        e_el, e_pos = not_own(exp, uc, cpos)
        diff = compare_atoms(nel, npos, e_el, e_pos)
        if diff and len(fails) < 3:
            fails.append({"input": {"crystal": "acetic_acid.cif", "query": "atom_group_surroundings", "atoms": [0, 1, 2], "radius": radius}, "observed": diff,
                          "clause": "atom-group surroundings: images within the radius of the group, the group's own atoms excluded", "key": "atom_group_surroundings"})
    ctx.add_bounded("crystal.Crystal/bounded/brute_force_periodic_search", "ice II (r = 3.5, 12), acetic acid, generated triclinic/monoclinic/rhombohedral/hexagonal/orthorhombic crystals "
                    "(angles 50-130 deg), radii 1.2-12 A, centres inside and outside the reference cell; compared with an exhaustive search over a box sized by the smallest singular value",
                    evals, len(distinct), fails, rule="distinct (crystal, radius)")
