"""Generic run-time contracts shared by the properties (bounded stand-ins, never counted as proved):

  * arguments_unchanged — a function under contract does not modify the arrays / lists its caller passed in;
  * repeatable          — calling it again with the same arguments gives the same result;
  * input_forms_agree   — the same numbers handed over in another form (nested list, integer dtype when the values are integral, float32 when exactly
                          representable, Fortran-ordered / strided array) give the same result as the float64 C-ordered array, whenever the function accepts that form
                          on this tree at all.

Each case is a zero-argument factory returning (callable, args tuple, kwargs dict); results are compared with `summ` (arrays by value with a tolerance)."""
import copy

import numpy as np


def summ(v, depth=0):
    if depth > 6:
        return "..."
    if isinstance(v, np.ndarray):
        if v.dtype.kind in "fc":
            return summ(v.tolist(), depth + 1)
        return v.tolist()
    if isinstance(v, (float, np.floating)):
        return float(v)
    if isinstance(v, (complex, np.complexfloating)):
        return complex(v)
    if isinstance(v, (int, np.integer, str, bool)) or v is None:
        return v if not isinstance(v, np.integer) else int(v)
    if isinstance(v, (list, tuple)):
        return [summ(x, depth + 1) for x in v]
    if isinstance(v, dict):
        return {str(k): summ(x, depth + 1) for k, x in v.items()}
    if hasattr(v, "toarray"):
        return summ(np.asarray(v.toarray()), depth + 1)
    for attr in ("positions", "vertices"):
        if hasattr(v, attr):
            return (type(v).__name__, summ(np.asarray(getattr(v, attr)), depth + 1))
    return type(v).__name__


def close(a, b, tol):
    if isinstance(a, (list, tuple)) and isinstance(b, (list, tuple)):
        return len(a) == len(b) and all(close(x, y, tol) for x, y in zip(a, b))
    if isinstance(a, dict) and isinstance(b, dict):
        return a.keys() == b.keys() and all(close(a[k], b[k], tol) for k in a)
    if isinstance(a, bool) or isinstance(b, bool) or isinstance(a, str) or isinstance(b, str) or a is None or b is None:
        return a == b
    if isinstance(a, (int, float, complex)) and isinstance(b, (int, float, complex)):
        return abs(a - b) <= tol * max(1.0, abs(a), abs(b)) or (a != a and b != b)
    return a == b


def _snap(v):
    if isinstance(v, np.ndarray):
        return ("arr", v.dtype.str, v.shape, v.tobytes())
    if isinstance(v, (list, tuple)):
        return [_snap(x) for x in v]
    if isinstance(v, dict):
        return {k: _snap(x) for k, x in v.items()}
    if hasattr(v, "positions") and isinstance(getattr(v, "positions", None), np.ndarray):
        return (type(v).__name__, _snap(np.asarray(v.positions)))
    return repr(v)[:200] if isinstance(v, (int, float, str, bool, type(None))) else type(v).__name__


def forms_of(a):
    """Other spellings of the same numeric array (name, value)."""
    out = []
    if isinstance(a, np.ndarray) and a.dtype.kind in "iu" and a.size:
        out.append(("nested list of ints", a.tolist()))
        out.append(("int32 array" if a.dtype.itemsize == 8 else "int64 array", a.astype(np.int32 if a.dtype.itemsize == 8 else np.int64)))
        if a.ndim == 1:
            big = np.zeros(2 * a.shape[0], dtype=a.dtype)
            big[::2] = a
            out.append(("strided view", big[::2]))
        return out
    if not (isinstance(a, np.ndarray) and a.dtype.kind == "f" and a.size):
        return out
    out.append(("nested list", a.tolist()))
    if a.ndim >= 2:
        out.append(("Fortran-ordered array", np.asfortranarray(a)))
        big = np.zeros(tuple(2 * s for s in a.shape), dtype=a.dtype)
        view = big[tuple(slice(None, None, 2) for _ in a.shape)]
        view[...] = a
        out.append(("strided view", view))
    if np.all(a == np.round(a)) and np.abs(a).max() < 2 ** 31:
        out.append(("int64 array", a.astype(np.int64)))
        out.append(("nested list of ints", a.astype(np.int64).tolist()))
    if np.array_equal(a.astype(np.float32).astype(np.float64), a):
        out.append(("float32 array", a.astype(np.float32)))
    return out


def public_calls(ctx):
    """Entry used by pyvc.main after the property's own contracts: the sample calls of common_cases for this property."""
    from . import common_cases
    from .c09_native import quiet_stderr
    cs = common_cases.cases(ctx.prop, ctx.seed)
    if not cs:
        return
    with quiet_stderr():
        run_cases(ctx, "public_calls/arguments_unchanged_repeatable_input_forms", cs)
    if isinstance(getattr(ctx, "explanation", None), str) and "public-call contracts" not in ctx.explanation:
        ctx.explanation += (" B (generic): public-call contracts on sample calls of the entry points the property is observed at -- the caller's arguments are unchanged, a second call and the same "
                            "call after the other calls return the same, an earlier result is not modified by later calls, other accepted input forms (list, integer / float32 dtype, other memory layout) agree.")


def run_cases(ctx, ident, cases, tol=1e-7, forms=True):
    fails, evals, distinct = [], 0, 0
    first = []
    for label, make in cases:
        try:
            fn, args, kwargs = make()
        except Exception as e:  # noqa -- the harness could not build its own input: not a finding
            ctx.notes.append(f"{ctx.prop}/{ident}: case '{label}' could not be built: {e!r}"[:200])
            continue
        distinct += 1
        before = _snap([args, kwargs])
        try:
            raw1 = fn(*args, **kwargs)
            r1 = summ(raw1)
        except Exception as e:  # noqa
            ctx.notes.append(f"{ctx.prop}/{ident}: case '{label}' raised {e!r} (skipped: not a valid input on this tree)"[:200])
            continue
        evals += 1
        if _snap([args, kwargs]) != before:
            fails.append({"input": {"call": label}, "observed": "an array / list passed in by the caller was modified by the call", "key": "arguments_modified",
                          "clause": "a function under contract does not modify the arrays or lists its caller passes in"})
            continue
        try:
            r2 = summ(fn(*args, **kwargs))
            evals += 1
            if not close(r1, r2, tol):
                fails.append({"input": {"call": label}, "observed": "the second call with the same arguments returned something else", "key": "not_repeatable",
                              "clause": "calling a function under contract again with the same arguments gives the same result"})
                continue
        except Exception as e:  # noqa
            fails.append({"input": {"call": label}, "observed": f"the second call with the same arguments raised {e!r}"[:200], "key": "not_repeatable",
                          "clause": "calling a function under contract again with the same arguments gives the same result"})
            continue
        first.append((label, make, r1, raw1))
        if not forms:
            continue
        for k, a in enumerate(args):
            for fname, alt in forms_of(a):
                try:
                    fn2, args2, kwargs2 = make()        # fresh arguments (objects among them are rebuilt, not copied)
                    args2 = list(args2)
                    args2[k] = alt
                    r3 = summ(fn2(*args2, **kwargs2))
                except Exception:  # noqa -- this form is not accepted by the function on this tree: nothing to compare
                    continue
                evals += 1
                t = 1e-4 if "float32" in fname else tol
                if not close(r1, r3, t):
                    fails.append({"input": {"call": label, "argument": k, "given_as": fname}, "observed": "the result differs from the one for the same numbers as a float64 C-ordered array",
                                  "key": "input_form", "clause": "the same numbers handed over in another accepted form (list, integer dtype, float32, other memory layout) give the same result"})
                    break
    # history independence: after all the other calls (other objects of the same classes, other sizes), the same call on freshly built arguments gives the same result
    for label, make, r1, raw1 in first:
        if not close(r1, summ(raw1), 0.0):
            fails.append({"input": {"call": label}, "observed": "the object returned by this call was changed by later calls (a buffer shared between results)", "key": "result_shared",
                          "clause": "a result handed to the caller is not modified by later calls"})
            continue
        try:
            fn, args, kwargs = make()
            r4 = summ(fn(*args, **kwargs))
            evals += 1
        except Exception as e:  # noqa
            fails.append({"input": {"call": label}, "observed": f"after the other sample calls the same call raised {e!r}"[:200], "key": "history_dependent",
                          "clause": "the result of a call under contract does not depend on earlier calls with other arguments"})
            continue
        if not close(r1, r4, tol):
            fails.append({"input": {"call": label}, "observed": "after the other sample calls the same call on freshly built arguments returned something else", "key": "history_dependent",
                          "clause": "the result of a call under contract does not depend on earlier calls with other arguments"})
    ctx.add_bounded(ident, "public functions of the property called on sample inputs: caller's arrays unchanged, second call equal, same call after the other calls equal, earlier results not modified by later calls, other accepted input forms (nested list, int dtype for integral "
                    "values, float32 when exact, Fortran-ordered / strided array) give the same result", evals, distinct, fails[:3], rule="calls (case x form)")
