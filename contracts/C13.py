"""C13 — re-expressing a crystal (P1, supercell, trigonal axes) preserves the structure (crystal.py, unit_cell.py, space_group.py).

Oracle (from the statement).  Two descriptions are the same infinite arrangement iff there is a bijection of atoms, modulo the
respective lattices, preserving the element and the position.  Crystal descriptions are intrinsic (fractional coordinates + cell
metric), so "same position" is stated in the coordinates of the ORIGINAL lattice:
  supercell (u,v,w):  new_frac[k] . diag(u,v,w) - (q,r,s) == old_frac(atom)     with (q,r,s) integers in [0,u)x[0,v)x[0,w), each once,
                      new cell lengths == (u a, v b, w c), same angles (the sub-lattice diag(u,v,w).D up to a rigid motion);
  trigonal switch:    D' == T.D (T an integer / third-integer basis change), f'.D' == f.D (same Cartesian positions), the tabulated
                      operations of the new setting are the conjugates of the old ones modulo the lattice.
"""
import itertools
from fractions import Fraction

import z3
import os

from pyvc.api import Contract, NDArr, Obj, conj, farr, iarr, real_matrix, reals, source
from pyvc.libmodels import ufun
from pyvc.values import to_real, z

from contracts import c13_native as N
from contracts import c13_trigonal as T
from contracts.c13_support import SMT, eval_rat, prove_alg, prove_i

CR, UCM, SG = "chmpy.crystal.crystal", "chmpy.crystal.unit_cell", "chmpy.crystal.space_group"
AU, EL, MOL = "chmpy.crystal.asymmetric_unit", "chmpy.core.element", "chmpy.core.molecule"
EYE = lambda i, j: 1 if i == j else 0

# ---- symbols of the original cell -------------------------------------------------------------------------------------
La, Lb, Lc = reals("len", 3)
LEN = [La, Lb, Lc]
al, be, ga = z3.Real("alpha"), z3.Real("beta"), z3.Real("gamma")
COS, SIN = ufun("cos"), ufun("sin")
ca, cb, cg = COS(al), COS(be), COS(ga)
sa, sb, sg_ = SIN(al), SIN(be), SIN(ga)
RAD = 1 - ca * ca - cb * cb - cg * cg + 2 * ca * cb * cg
# the statement's domain: positive lengths, angles strictly inside (0, pi), positive volume
PRE = [La > 0, Lb > 0, Lc > 0, sa > 0, sb > 0, sg_ > 0, RAD > 0, ca * ca + sa * sa == 1, cb * cb + sb * sb == 1, cg * cg + sg_ * sg_ == 1]
D = real_matrix("D", 3, 3)
V = real_matrix("V", 3, 3)
INV = [sum(D[i][k] * V[k][j] for k in range(3)) == EYE(i, j) for i in range(3) for j in range(3)] + \
      [sum(V[i][k] * D[k][j] for k in range(3)) == EYE(i, j) for i in range(3) for j in range(3)]
_dot = lambda i, j: sum(D[i][k] * D[j][k] for k in range(3))
# what UnitCell(vectors) guarantees about lengths/angles (proved in C12: set_vectors/ensures/lengths, angle{k})
METRIC = [_dot(i, i) == LEN[i] * LEN[i] for i in range(3)] + [_dot(1, 2) == Lb * Lc * ca, _dot(2, 0) == Lc * La * cb, _dot(0, 1) == La * Lb * cg]
MASS = z3.Function("element_mass", z3.IntSort(), z3.RealSort())
MOL_SIZES = (2, 1)          # the symbolic unit cell holds two molecules: a diatomic and a single atom (distinguishes stacking orders)

# rational instance used to search for counter-models of statements about cells in arbitrary orientation:
# an orthorhombic cell (5, 10, 7) rotated about z by the 3-4-5 angle (all entries rational, cosines 0, sines 1)
INST_L = (5, 10, 7)
_Q = [[Fraction(3, 5), Fraction(4, 5), Fraction(0)], [Fraction(-4, 5), Fraction(3, 5), Fraction(0)], [Fraction(0), Fraction(0), Fraction(1)]]
INST_D = [[INST_L[i] * _Q[i][j] for j in range(3)] for i in range(3)]
INST_V = [[_Q[j][i] / INST_L[j] for j in range(3)] for i in range(3)]          # (diag(L) Q)^-1 = Q^T diag(1/L)


def instance_facts():
    f = [LEN[i] == INST_L[i] for i in range(3)] + [ca == 0, cb == 0, cg == 0, sa == 1, sb == 1, sg_ == 1]
    f += [D[i][j] == z(to_real(INST_D[i][j])) for i in range(3) for j in range(3)]
    f += [V[i][j] == z(to_real(INST_V[i][j])) for i in range(3) for j in range(3)]
    return f


def standard_instance_env(env_):
    """Exact rational point: orthorhombic cell (5, 10, 7) in standard orientation, seeded rational molecule positions."""
    e = {"len0": 5, "len1": 10, "len2": 7}
    for nm in ("alpha", "beta", "gamma"):
        e[f"py_cos({nm})"] = 0
        e[f"py_sin({nm})"] = 1
    for i in range(3):
        for j in range(3):
            e[f"D{i}{j}"] = INST_L[i] if i == j else 0
            e[f"V{i}{j}"] = Fraction(1, INST_L[i]) if i == j else 0
    k = 0
    for j, rows in enumerate(env_.mol_pos):
        for i, row in enumerate(rows):
            for x in range(3):
                k += 1
                e[f"m{j}p{i}{x}"] = Fraction(7 * k + 3, 11) - 2
    return e


def standard_instance_facts():
    f = [LEN[i] == INST_L[i] for i in range(3)] + [ca == 0, cb == 0, cg == 0, sa == 1, sb == 1, sg_ == 1]
    f += [D[i][j] == (INST_L[i] if i == j else 0) for i in range(3) for j in range(3)]
    f += [V[i][j] == (z(to_real(Fraction(1, INST_L[i]))) if i == j else 0) for i in range(3) for j in range(3)]
    return f


def ienv_angles(e):
    """the instance with values for the angle symbols themselves (only compared for equality, never fed to a trigonometric function)"""
    e = dict(e)
    e.update({"alpha": Fraction(11, 7), "beta": Fraction(11, 7) + Fraction(1, 1000), "gamma": Fraction(11, 7) + Fraction(2, 1000)})
    return e


def angle_facts():
    return [al == z(to_real(Fraction(11, 7))), be == z(to_real(Fraction(11, 7) + Fraction(1, 1000))), ga == z(to_real(Fraction(11, 7) + Fraction(2, 1000)))]


def mentions(term, names):
    seen, stack = set(), [term]
    while stack:
        t = stack.pop()
        if t.get_id() in seen:
            continue
        seen.add(t.get_id())
        if z3.is_const(t) and t.decl().kind() == z3.Z3_OP_UNINTERPRETED and t.decl().name() in names:
            return True
        stack.extend(t.children())
    return False


# ======================================================================================================================
def build(ctx):
    ctx.level = "other"
    thorough = ctx.tier == "thorough"
    # every obligation of this property that holds is discharged in < 2 s; cap the per-obligation solver budgets so that a mutated tree ends in refuted/unknown quickly
    from pyvc import solve
    solve.Z3_TIMEOUT_MS = min(solve.Z3_TIMEOUT_MS, 30000 if thorough else 20000)
    solve.CVC5_TIMEOUT_S = min(solve.CVC5_TIMEOUT_S, 30 if thorough else 20)
    ctx.assumptions += [
        "floats are reals (rounding is only covered by the bounded run-time contracts)",
        "cos^2+sin^2 = 1, sqrt(x)^2 = x for x >= 0; numpy.linalg.inv returns the two-sided inverse of a non-singular matrix; numpy dot/vstack/hstack/arange, "
        "itertools.product and copy.deepcopy as in pyvc.libmodels",
        "Crystal.unit_cell_molecules() returns molecules whose atoms partition the unit-cell contents, positions Cartesian in the crystal's own frame (C04; here a modular contract, "
        "its truth is only exercised by the bounded runs); in P1 the unit-cell contents are the asymmetric unit (C01)",
        "UnitCell(vectors) reports lengths/angles that are the row norms / row angles of the vectors (proved in C12) — used as the hypothesis METRIC for cells given by vectors",
        "AsymmetricUnit.__init__ / SpaceGroup.__init__ / Element[z] are used through contracts (fields stored in order; Element[z].atomic_number == z); AsymmetricUnit storing "
        "order is additionally proved from its source",
        "composition of the per-clause obligations into the statement (bijection modulo the lattices) is done on paper, see explanation",
        "domain: positive lengths, angles strictly inside (0, pi), positive volume; supercell sizes 1..3 per direction (complete in the thorough tier); the seven R-lattice groups",
    ]
    ctx.explanation = EXPLANATION
    env = Env(ctx)
    sizes_quick = [(1, 1, 1), (2, 1, 1), (1, 2, 3), (3, 3, 3)]
    sizes = list(itertools.product((1, 2, 3), repeat=3)) if thorough else sizes_quick
    for fname in ("as_P1_supercell", "to_translational_symmetry"):
        for size in sizes:
            supercell_obligations(ctx, env, fname, size)
    supercell_obligations(ctx, env, "as_P1", (1, 1, 1))
    if thorough:
        ctx.ground("crystal.Crystal.as_P1_supercell/sizes/complete", set(sizes) == set(itertools.product((1, 2, 3), repeat=3)), tag="G",
                   clause="all 27 supercell sizes of the statement's quantifier (1..3 per direction) are enumerated", detail={"sizes": len(sizes)})
    else:
        ctx.notes.append("quick tier: supercell sizes (1,1,1), (2,1,1), (1,2,3), (3,3,3); the complete set of 27 sizes is run in the thorough tier")
    lattice_lemmas(ctx)
    asym_unit_order(ctx, env)
    density_obligations(ctx, env)
    T.trigonal_obligations(ctx, env)
    N.bounded(ctx)


EXPLANATION = (
    "SUPERCELL / P1.  P — the real source of as_P1, as_P1_supercell and to_translational_symmetry is executed on a symbolic crystal (cell: arbitrary non-singular D with inverse V; unit cell = two "
    "molecules, 2 atoms + 1 atom, symbolic Cartesian positions p and atomic numbers; unit_cell_molecules under a modular contract) for every size of the tier: space_group_P1; cell_parameters "
    "(new lengths == (u a, v b, w c), same angles: the metric of the sub-lattice diag(u,v,w).D); count (== u v w n_uc, positions and numbers of equal length); enumeration (each row is identified by "
    "its atomic-number symbol and an integer cell offset read off an exact rational instance; the rows are a bijection onto atoms x residues mod (u,v,w), any enumeration order accepted); rows "
    "(for that atom and offset, proved for all inputs: same atomic number and new_frac . diag(size) - (q,r,s) == p . V, i.e. the atom coincides with the old one modulo the original lattice; proved from "
    "D.V == 1 and, if the code converts with the NEW cell's inverse, from the lemma 'new inverse . diag(size) == V'); cell/standard (that lemma and new direct == diag(size).D for cells in standard "
    "orientation: certificates over the closed forms of the real set_lengths_and_angles); any_cell_orientation (the same lemma for a cell given by arbitrary vectors whose lengths/angles are the row "
    "norms/angles: instance-guided counter-model search on a rotated orthorhombic cell, certificate/SMT otherwise; when the code does not use the new inverse this is a dataflow fact, tag F).  "
    "L residues: every integer is q + s k with 0 <= q < s, so every lattice image of the original crystal is one of the enumerated cells modulo the supercell lattice.  P density/formula: the real "
    "`density` == sum(mass of unit-cell elements)/volume/0.6022 (no stored 'density' property; a user-stored value is returned as is and is outside the statement); P volume ratio == u v w; "
    "P density invariant under as_P1_supercell (unit-cell contents of a P1 crystal = its asymmetric unit, C01).  P AsymmetricUnit.__init__ keeps row order.  "
    "TRIGONAL.  P — choose_trigonal_lattice on a symbolic crystal of group 148 (cell = arbitrary non-singular D, two sites f): direct' == T.D with the rational T read off the run; "
    "f'.direct' == f.direct (explicit certificate from inverse'.direct' == 1); new space group == SpaceGroup(same number, choice); memo dropped; there and back restores direct (identity), the "
    "space group, and the coordinates (second-step certificate + cancellation lemma g.D == f.D, D.V == 1 |- g == f); other group numbers raise ValueError, the same choice is a no-op, all seven "
    "groups accepted; UnitCell.as_rhombohedral/as_hexagonal: guard and the same T; side conditions of UnitCell(vectors) (non-singular, non-zero rows) by exact determinant identities + lemma "
    "nonzero_row.  G (complete, exact rationals, T taken from the source run): T_(R->H).T_(H->R) == 1, |det| == 1/3 and 3 (volume/count ratio), and for each of the seven groups the tabulated H "
    "operations re-expressed in the basis T.D are exactly the tabulated R operations modulo the lattice, each three times, and back.  "
    "B (never counted): the statement as a run-time contract on real crystals — every new atom coincides with exactly one old atom of the same element modulo the ORIGINAL lattice, every (old atom, "
    "cell residue) exactly once, count/volume/cell parameters/density — on acetic_acid.cif, r3c_example.cif, seeded molecular crystals in 14 settings (triclinic..cubic, both trigonal axes) with the "
    "cell in standard orientation and with the cell given by rotated vectors, and trigonal crystals after a switch; trigonal switch on the seven groups x both directions: expanded unit cells "
    "compared atom by atom modulo the primitive lattice (3 hexagonal-cell atoms per rhombohedral-cell atom), density, basis of the same lattice, round trip.  "
    "Level 'other': the partition contract of unit_cell_molecules (C04), float rounding, and the final composition of the clauses into 'same infinite arrangement' are not machine-checked."
)


# ======================================================================================================================
class Env:
    """Shared interpreter, classes and contracts for the symbolic crystal."""

    def __init__(self, ctx):
        self.ctx = ctx
        self.crmod, self.ucmod = source.load_module(CR), source.load_module(UCM)
        self.sgmod = source.load_module(SG)
        self.sg_log = []
        self.uca_elements = None
        env = self

        def el_getitem(I2, cls, val):
            return Obj(I2.class_of(source.load_module(EL), "Element"), {"atomic_number": val, "mass": MASS(val)})

        def sg_init(I2, self_, number, choice=""):
            self_.fields.update({"international_tables_number": number, "choice": choice})
            env.sg_log.append((number, choice))

        def au_init(I2, self_, elements, positions, labels=None, **kw):
            self_.fields.update({"elements": elements, "positions": positions, "atomic_numbers": iarr([e.fields["atomic_number"] for e in elements]), "properties": dict(kw)})

        def mols(I2, self_, *a_, **k):
            return env.molecules(I2)

        def uca(I2, self_, *a_, **k):
            return {"element": env.uca_elements(self_)}
        skip = Contract(result=lambda I2, self_: None)
        self.contracts = {EL + "._ElementMeta.__getitem__": Contract(result=el_getitem), SG + ".SpaceGroup.__init__": Contract(result=sg_init),
                          AU + ".AsymmetricUnit.__init__": Contract(result=au_init), UCM + ".UnitCell._set_cell_type": skip,
                          CR + ".Crystal.unit_cell_molecules": Contract(result=mols), CR + ".Crystal.unit_cell_atoms": Contract(result=uca)}
        self.I = ctx.interp(contracts=self.contracts)
        self.UC = self.I.class_of(self.ucmod, "UnitCell")
        self.CRc = self.I.class_of(self.crmod, "Crystal")
        self.SGc = self.I.class_of(self.sgmod, "SpaceGroup")
        self.mol_pos = [real_matrix(f"m{j}p", n, 3) for j, n in enumerate(MOL_SIZES)]
        self.mol_z = [[z3.Int(f"m{j}z{i}") for i in range(n)] for j, n in enumerate(MOL_SIZES)]
        for n in ("as_P1", "as_P1_supercell", "to_translational_symmetry", "choose_trigonal_lattice", "density", "to_cartesian", "to_fractional"):
            ctx.fn(CR, "Crystal." + n)
        for n in ("from_lengths_and_angles", "set_lengths_and_angles", "set_vectors", "volume", "to_fractional", "to_cartesian", "as_rhombohedral", "as_hexagonal"):
            ctx.fn(UCM, "UnitCell." + n)
        ctx.fn(MOL, "Molecule.translated")
        ctx.fn(SG, "SpaceGroup.has_hexagonal_rhombohedral_choices")
        self._std = None

    def molecules(self, I2):
        ELc = I2.class_of(source.load_module(EL), "Element")
        M = I2.class_of(source.load_module(MOL), "Molecule")
        return [Obj(M, {"positions": farr(self.mol_pos[j]), "elements": [Obj(ELc, {"atomic_number": zz}) for zz in self.mol_z[j]], "properties": {}})
                for j in range(len(MOL_SIZES))]

    def general_cell(self):
        return Obj(self.UC, {"direct": farr(D), "inverse": farr(V), "lengths": [La, Lb, Lc], "angles": [al, be, ga]})

    def standard_cell_terms(self):
        """direct / inverse closed forms of the real set_lengths_and_angles on (a, b, c, alpha, beta, gamma)."""
        if self._std is None:
            def thunk(I2, a_, kw):
                uc = Obj(self.UC, {})
                I2.call(I2.getattr(uc, "set_lengths_and_angles"), [[La, Lb, Lc], [al, be, ga]])
                return uc
            res = self.I.explore(thunk, pre=PRE)
            assert len(res) == 1 and res[0].kind == "return"
            uc = res[0].value
            self._std = (uc.fields["direct"].data, uc.fields["inverse"].data, res[0].pc)
        return self._std


# ======================================================================================================================
def supercell_obligations(ctx, env, fname, size):
    f_src = ctx.fn(CR, "Crystal." + fname)
    stag = "x".join(str(s) for s in size)
    lab = f"crystal.Crystal.{fname}/ensures/{stag}/" if fname != "as_P1" else "crystal.Crystal.as_P1/ensures/"
    replay_rows = N.replay_supercell(fname, size, "standard")
    replay_any = N.replay_supercell(fname, size, "rotated")

    def ob():
        env.sg_log.clear()

        def thunk(I2, a_, kw):
            cr = Obj(env.CRc, {"unit_cell": env.general_cell(), "space_group": None, "asymmetric_unit": None, "properties": {"titl": "T"}})
            new = I2.call(I2.getattr(cr, fname), [] if fname == "as_P1" else [size])
            return new
        res = env.I.explore(thunk, pre=PRE + INV)
        if os.environ.get("PYVC_DEBUG") and (len(res) != 1 or res[0].kind != "return"):
            print("C13DBG", fname, size, len(res), [(r_.kind, getattr(r_.value, "exc_type", None), getattr(r_.value, "msg", None)) for r_ in res][:4])
        if not res or any(r_.kind != "return" or not isinstance(r_.value, Obj) for r_ in res):     # (several returning paths are fine: each is checked)
            ctx.prove(lab + "returns", [], z3.BoolVal(False), clause=f"{fname}({size}) returns a crystal on every valid input", replay=replay_rows, fn=f_src)
            return
        def per_path(r, lab):
            new, H = r.value, r.pc
            au, sc, sgp = new.fields.get("asymmetric_unit"), new.fields.get("unit_cell"), new.fields.get("space_group")
            # ---- space group P1, cell lengths and angles ---------------------------------------------------------------
            ok_sg = isinstance(sgp, Obj) and sgp.fields.get("international_tables_number") == 1 and sgp.fields.get("choice") in ("", None)
            ctx.prove(lab + "space_group_P1", [], z3.BoolVal(bool(ok_sg)), clause="the result is in space group number 1", replay=replay_rows, fn=f_src)
            if not (isinstance(au, Obj) and isinstance(sc, Obj) and isinstance(au.fields.get("positions"), NDArr)):
                ctx.prove(lab + "shape", [], z3.BoolVal(False), clause="the result has a unit cell and an asymmetric unit with an (N, 3) position array", replay=replay_rows, fn=f_src)
                return
            scL, scA = list(_flat(sc.fields["lengths"])), list(_flat(sc.fields["angles"]))
            ienv = standard_instance_env(env)
            sfacts = standard_instance_facts()
            prove_i(ctx, lab + "cell_parameters", H, conj([z(to_real(scL[i])) == size[i] * LEN[i] for i in range(3)] + [z(to_real(scA[i])) == [al, be, ga][i] for i in range(3)]),
                    ienv_angles(ienv), sfacts + angle_facts(), clause="new cell: lengths == (u a, v b, w c), angles unchanged (the metric of the sub-lattice diag(u,v,w).D)", replay=replay_rows, fn=f_src)
            P, Z = au.fields["positions"].data, au.fields["atomic_numbers"].data
            cells = list(itertools.product(range(size[0]), range(size[1]), range(size[2])))
            n_uc = sum(MOL_SIZES)
            n_expected = len(cells) * n_uc
            ctx.prove(lab + "count", [], z3.BoolVal(P.shape == (n_expected, 3) and Z.shape == (n_expected,)),
                      clause=f"atom count == u v w n_uc == {len(cells)} x {n_uc} (cell-volume ratio x unit-cell contents), positions and atomic numbers stacked to the same length",
                      replay=replay_rows, fn=f_src)
            if P.shape != (n_expected, 3) or Z.shape != (n_expected,):
                return
            # which atom and which cell each row describes: the atom is read off the row's atomic number (a distinct symbol per atom of the symbolic unit cell), the integer
            # cell offset from an exact evaluation on a rational instance (it is then PROVED for all inputs in `rows`); any order of enumeration is accepted
            zname = {str(env.mol_z[j][i]): (j, i) for j in range(len(MOL_SIZES)) for i in range(MOL_SIZES[j])}
            expected, ident_ok = [], True
            canon = [(n, j, i) for n in cells for j in range(len(MOL_SIZES)) for i in range(MOL_SIZES[j])]
            for k in range(n_expected):
                ji = zname.get(str(Z[k])) if z3.is_expr(Z[k]) else None
                if ji is None:
                    ident_ok = False
                    expected.append(canon[k])
                    continue
                j, i = ji
                try:
                    vals = [eval_rat(z(to_real(P[k, x])), ienv) * size[x] - sum(ienv[f"m{j}p{i}{m}"] * ienv[f"V{m}{x}"] for m in range(3)) for x in range(3)]
                    n = tuple(int(v) for v in vals) if all(Fraction(v).denominator == 1 for v in vals) else canon[k][0]
                except (ValueError, ZeroDivisionError):
                    n = canon[k][0]
                expected.append((n, j, i))
            seen = {}
            for (n, j, i) in expected:
                key = (j, i) + tuple(n[x] % size[x] for x in range(3))
                seen[key] = seen.get(key, 0) + 1
            complete = ident_ok and len(seen) == n_expected and all(v == 1 for v in seen.values())
            ctx.prove(lab + "enumeration", [], z3.BoolVal(bool(complete)), clause="every atom of the unit cell appears once for every residue (q,r,s) modulo (u,v,w): the rows are a bijection onto "
                      "(atoms of the unit cell) x (cells of the supercell); every row carries the atomic number of one of the unit-cell atoms", replay=replay_rows, fn=f_src)
            if not complete:
                return          # the rows are not a re-expression of the unit-cell contents: nothing further to state about them
            # ---- cut: abstract the supercell's inverse matrix entries -----------------------------------------------------
            Sinv, S = sc.fields["inverse"].data, sc.fields["direct"].data
            W = real_matrix("W", 3, 3)
            subs = []
            for j in range(3):
                for i in range(3):
                    t = z(to_real(Sinv[j, i]))
                    if not (z3.is_rational_value(t) or z3.is_int_value(t)):
                        subs.append((t, W[j][i]))
            lemma_terms = [z(to_real(Sinv[j, i])) * size[i] == V[j][i] for j in range(3) for i in range(3)]
            lemma_abs = [z3.substitute(g, *subs) if subs else g for g in lemma_terms]
            goals = []
            for k, (n, j, i) in enumerate(expected):
                p = env.mol_pos[j][i]
                goals.append(z(Z[k]) == env.mol_z[j][i] if z3.is_expr(Z[k]) else z3.BoolVal(False))
                for x in range(3):
                    g = z(to_real(P[k, x])) * size[x] - n[x] == sum(p[m] * V[m][x] for m in range(3))
                    goals.append(z3.substitute(g, *subs) if subs else g)
            wnames = {f"W{j}{i}" for j in range(3) for i in range(3)}
            uses_W = any(mentions(g, wnames) for g in goals)
            hy_rows = INV + (lemma_abs if uses_W else [])
            wenv = dict(ienv)
            for j in range(3):
                for i in range(3):
                    try:
                        wenv[f"W{j}{i}"] = eval_rat(z(to_real(Sinv[j, i])), ienv)
                    except (ValueError, ZeroDivisionError):
                        pass
            prove_i(ctx, lab + "rows", hy_rows, conj(goals), wenv, sfacts, clause="row k: atomic number == that of (molecule j, atom i) and new_frac . diag(size) - (q,r,s) == p_(j,i) . V (the old fractional "
                      "position) for the integer offset (q,r,s) and atom (j,i) identified in `enumeration`" +
                      ("; hypothesis: new inverse . diag(size) == V (lemma cell/standard, any_cell_orientation)" if uses_W else "; no hypothesis on the new cell's inverse needed"),
                    replay=replay_rows, fn=f_src)
            # ---- the lemma for cells in standard orientation ---------------------------------------------------------------
            DA, VA, Hstd = env.standard_cell_terms()
            std_sub = [(D[i][j], z(to_real(DA[i, j]))) for i in range(3) for j in range(3)] + [(V[i][j], z(to_real(VA[i, j]))) for i in range(3) for j in range(3)]
            Hs = list(Hstd) + [h for h in H if not any(h.eq(q) for q in INV)]
            cell_goals = [z3.substitute(g, *std_sub) for g in lemma_terms] + \
                         [z3.substitute(z(to_real(S[i, j])) == size[i] * D[i][j], *std_sub) for i in range(3) for j in range(3)]
            prove_i(ctx, lab + "cell/standard", Hs, conj(cell_goals), ienv, sfacts[:9], algebra=True, clause="cell in standard orientation (a along x, b in the xy plane — what "
                    "from_lengths_and_angles / CIF / SHELX input gives): new inverse . diag(size) == inverse and new direct == diag(size) . direct", replay=replay_rows, fn=f_src)
            # ---- any orientation ---------------------------------------------------------------------------------------------
            ident = lab + "any_cell_orientation"
            clause_any = ("cell given by arbitrary lattice vectors (UnitCell(vectors): VASP/xtb/reduced cells, or after choose_trigonal_lattice), lengths/angles = row norms/angles: "
                          "new inverse . diag(size) == inverse, i.e. the new fractional coordinates still describe the same arrangement")
            if not uses_W:
                ctx.ground(ident, True, tag="F", clause="the new fractional coordinates do not depend on the new cell's inverse matrix: `rows` holds for every non-singular cell", fn=f_src)
            else:
                Hg = list(H) + METRIC
                # 1. cheap counter-model search on the rational instance (a false statement makes the certificate search run away)
                inst = Hg + instance_facts()
                s = z3.Solver()
                s.set("timeout", 10000)
                for h in inst:
                    s.add(z(h))
                s.add(z3.Not(conj(lemma_terms)))
                verdict = s.check()
                if verdict == z3.sat:
                    ctx.prove(ident, inst, conj(lemma_terms), clause=clause_any + "  [counter-model searched on the rational instance: orthorhombic cell (5, 10, 7) rotated by the "
                              "3-4-5 angle about z]", replay=replay_any, fn=f_src, split=False)
                else:
                    # 2. the general statement: certificate first, SMT with a short budget otherwise (never reported as proved from the instance alone)
                    prove_alg(ctx, ident, Hg, conj(lemma_terms), clause=clause_any, replay=replay_any, fn=f_src, **SMT)
            ctx.safety(f"crystal.Crystal.{fname}/{stag}", res, fn=f_src)

        rets = [r_ for r_ in res if r_.kind == "return" and isinstance(r_.value, Obj)]
        for k_, r_ in enumerate(rets):
            per_path(r_, lab if len(rets) == 1 else lab + f"path{k_}/")
    ctx.attempt(lab + "rows", ob, replay=replay_rows, fn=f_src)


def _flat(v):
    return v.flat() if isinstance(v, NDArr) else list(v)


# ======================================================================================================================
def lattice_lemmas(ctx):
    n, q, k = z3.Int("n"), z3.Int("q"), z3.Int("k")
    for s in (1, 2, 3):
        ctx.prove(f"lemma/residues/{s}", [], z3.And(n - s * (n / s) >= 0, n - s * (n / s) < s), clause=f"every integer n is q + {s} k with 0 <= q < {s}: a lattice translation of the original "
                      "crystal is a translation by one of the enumerated cells (q) modulo the supercell lattice; distinct q are distinct modulo it", tag="L")


def asym_unit_order(ctx, env):
    """AsymmetricUnit.__init__ from its real source: positions and atomic numbers are stored in the given order."""
    f = ctx.fn(AU, "AsymmetricUnit.__init__")
    aumod = source.load_module(AU)
    I = ctx.interp()
    AUc = I.class_of(aumod, "AsymmetricUnit")
    ELc = I.class_of(source.load_module(EL), "Element")
    zs = [z3.Int(f"z{i}") for i in range(3)]
    X = real_matrix("x", 3, 3)

    def ob():
        def thunk(I2, a_, kw):
            return I2.instantiate(AUc, [[Obj(ELc, {"atomic_number": zz}) for zz in zs], farr(X)], {"labels": ["a", "b", "c"]})
        res = I.explore(thunk)
        ok = len(res) == 1 and res[0].kind == "return"
        goals = [z3.BoolVal(ok)]
        if ok:
            o = res[0].value
            Pd, Zd = o.fields["positions"].data, o.fields["atomic_numbers"].data
            goals.append(z3.BoolVal(Pd.shape == (3, 3) and Zd.shape == (3,)))
            if Pd.shape == (3, 3) and Zd.shape == (3,):
                goals += [z(Zd[i]) == zs[i] for i in range(3)] + [z(to_real(Pd[i, j])) == X[i][j] for i in range(3) for j in range(3)]
        ctx.prove("asymmetric_unit.AsymmetricUnit.__init__/ensures/order", res[0].pc if ok else [], conj(goals), clause="positions and atomic numbers are stored row for row in the order given "
                  "(justifies the constructor contract used in the supercell runs)", fn=f)
    ctx.attempt("asymmetric_unit.AsymmetricUnit.__init__/ensures/order", ob, fn=f)


# ======================================================================================================================
def density_obligations(ctx, env):
    f_den = ctx.fn(CR, "Crystal.density")
    zs = [zz for row in env.mol_z for zz in row]
    replay = N.replay_density
    ienv = standard_instance_env(env)
    mfacts = []
    for k, zz in enumerate(zs):
        ienv[f"element_mass({zz})"] = Fraction(12 + 5 * k, 1) + Fraction(1, 100)
        mfacts.append(MASS(zz) == z(to_real(ienv[f"element_mass({zz})"])))
    az = [z3.Int("asym_z0")]                 # the asymmetric unit of the original crystal holds a different atom list than its unit cell
    ienv[f"element_mass({az[0]})"] = Fraction(1)
    mfacts.append(MASS(az[0]) == 1)
    sfacts = standard_instance_facts() + mfacts
    AUc = env.I.class_of(source.load_module(AU), "AsymmetricUnit")

    def original(props):
        au = Obj(AUc, {"atomic_numbers": iarr(az), "positions": farr(real_matrix("af", 1, 3)), "elements": None, "labels": None, "properties": {}})
        return Obj(env.CRc, {"unit_cell": env.general_cell(), "space_group": None, "asymmetric_unit": au, "properties": props, "_c13_original": True})

    def ob_formula():
        env.uca_elements = lambda self_: iarr(zs)

        def thunk(I2, a_, kw):
            cr = original({})
            return I2.getattr(cr, "density"), I2.call(I2.getattr(cr.fields["unit_cell"], "volume"), [])
        res = env.I.explore(thunk, pre=PRE)
        if len(res) != 1 or res[0].kind != "return":
            ctx.prove("crystal.Crystal.density/ensures/formula", [], z3.BoolVal(False), clause="density is computed (no exception) from the unit-cell contents and the cell volume", replay=replay, fn=f_den)
            return
        dens, vol = res[0].value
        prove_i(ctx, "crystal.Crystal.density/ensures/formula", res[0].pc, z3.And(vol > 0, z(dens) * vol * z3.RealVal("0.6022") == sum(MASS(zz) for zz in zs)), ienv, sfacts,
                clause="without a stored 'density' property: density == sum of the atomic masses of the unit-cell contents / cell volume / 0.6022, volume() > 0",
                algebra=True, replay=replay, fn=f_den)
        ctx.safety("crystal.Crystal.density", res, fn=f_den)
    ctx.attempt("crystal.Crystal.density/ensures/formula", ob_formula, replay=replay, fn=f_den)

    for size in ((1, 1, 1), (2, 1, 1), (1, 2, 3), (3, 3, 3)):
        stag = "x".join(map(str, size))

        def ob_inv(size=size, stag=stag):
            # unit-cell contents: of the original crystal = atoms of its molecules (C04 contract); of a P1 crystal = its asymmetric unit (C01)
            def elements(self_):
                return iarr(zs) if self_.fields.get("_c13_original") else self_.fields["asymmetric_unit"].fields["atomic_numbers"]
            env.uca_elements = elements

            def thunk(I2, a_, kw):
                cr = original({"titl": "T"})
                new = I2.call(I2.getattr(cr, "as_P1_supercell"), [size])
                return (I2.getattr(cr, "density"), I2.getattr(new, "density"), I2.call(I2.getattr(cr.fields["unit_cell"], "volume"), []),
                        I2.call(I2.getattr(new.fields["unit_cell"], "volume"), []))
            res = env.I.explore(thunk, pre=PRE + INV)
            if len(res) != 1 or res[0].kind != "return":
                ctx.prove(f"crystal.Crystal.density/ensures/supercell_invariant/{stag}", [], z3.BoolVal(False), clause="density of the supercell crystal is computed", replay=replay, fn=f_den)
                return
            d0, d1, v0, v1 = res[0].value
            prove_i(ctx, f"unit_cell.UnitCell.volume/ensures/supercell_ratio/{stag}", res[0].pc, z(v1) == size[0] * size[1] * size[2] * z(v0), ienv, sfacts,
                    clause=f"volume(supercell {size}) == u v w volume(cell): the atom count ratio (rows/count) equals the cell-volume ratio", algebra=True, replay=replay, fn=ctx.fn(UCM, "UnitCell.volume"))
            prove_i(ctx, f"crystal.Crystal.density/ensures/supercell_invariant/{stag}", res[0].pc, z(d0) == z(d1), ienv, sfacts,
                    clause=f"density(as_P1_supercell({size})) == density(original): mass and volume both scale by u v w", algebra=True, replay=replay, fn=f_den)
        ctx.attempt(f"crystal.Crystal.density/ensures/supercell_invariant/{stag}", ob_inv, replay=replay, fn=f_den)
