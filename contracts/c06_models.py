"""C06 — engine extensions and assumed library contracts (tag A) used by the P obligations on the Python wrappers.

Nothing under pyvc/ is edited: `Interp06` subclasses the symbolic executor for the two constructs of mc/_mc.py it does not know
(`faces.shape = -1, 3` — an in-place reshape — and the `np.r_[...]` index trick), the rest are ModelFn entries passed to it.
"""
import ast

import numpy as np
import z3

from pyvc.symex import Interp, ModelFn, PyRaise
from pyvc.values import NDArr, Unsupported, b_and, num_cmp, obj_array, to_real


class RStack:
    """numpy.r_ (only the form np.r_[sequence of scalars])."""


class NT:
    """Instance of a namedtuple / of an opaque library class: named fields."""

    def __init__(self, name, fields, vals):
        self.name, self.fields, self.vals = name, list(fields), dict(vals)

    def __repr__(self):
        return f"<{self.name} {self.fields}>"


class Interp06(Interp):
    def assign(self, t, v, fr):
        if isinstance(t, ast.Attribute) and t.attr == "shape":
            base = self.eval(t.value, fr)
            if isinstance(base, NDArr):       # ndarray.shape = ... : in-place reshape, identity kept
                shp = tuple(v) if isinstance(v, (tuple, list)) else (v,)
                try:
                    base.data = base.data.reshape(shp)
                except (ValueError, TypeError):
                    raise PyRaise("ValueError", "cannot reshape")
                self.used_models.add("ndarray.shape = (in-place reshape)")
                return
        return super().assign(t, v, fr)

    def subscript(self, base, idx):
        if isinstance(base, RStack):
            parts = list(idx) if isinstance(idx, tuple) else [idx]
            cells = []
            for p in parts:
                if isinstance(p, NDArr):
                    if p.ndim > 1:
                        raise Unsupported("np.r_ of a matrix")
                    cells.extend(p.flat())
                elif isinstance(p, (tuple, list)):
                    cells.extend(p)
                elif isinstance(p, slice):
                    raise Unsupported("np.r_ slice form")
                else:
                    cells.append(p)
            self.used_models.add("numpy.r_[sequence] (concatenation into a 1-d float array)")
            return NDArr(obj_array([to_real(c) for c in cells]), "f")
        if isinstance(base, NT):
            if isinstance(idx, int) and not isinstance(idx, bool):
                if not -len(base.fields) <= idx < len(base.fields):
                    raise PyRaise("IndexError")
                return base.vals[base.fields[idx]]
            raise Unsupported("namedtuple subscript")
        return super().subscript(base, idx)

    def getattr(self, base, attr):
        if isinstance(base, NT):
            if attr in base.vals:
                return base.vals[attr]
            raise PyRaise("AttributeError", attr)
        return super().getattr(base, attr)

    def iterate(self, v, symbolic_ok=False):
        if isinstance(v, NT):
            return [v.vals[k] for k in v.fields]
        return super().iterate(v, symbolic_ok=symbolic_ok)


def _arr(a):
    return a if isinstance(a, NDArr) else NDArr(obj_array(a))


def m_fliplr(I, a):
    a = _arr(a)
    if a.ndim < 2:
        raise PyRaise("ValueError", "Input must be >= 2-d.")
    return NDArr(a.data[:, ::-1].copy(), a.kind)


def m_array_equal(I, a, b):
    a, b = _arr(a), _arr(b)
    if a.shape != b.shape:
        return False
    return b_and(*[num_cmp("==", x, y) for x, y in zip(a.flat(), b.flat())])


def make_arange(lengths, default=2):
    """numpy.arange(start, stop, step) with symbolic real arguments: the number of knots is a function of the arguments; the harness
    fixes it per (start, stop) pair and the relation n == ceil((stop - start) / step), step > 0 is ASSUMED on the path."""
    def m_arange(I, *a, dtype=None):
        if all(isinstance(x, int) for x in a):
            return NDArr(obj_array(list(range(*a))), "i")
        if len(a) != 3:
            raise Unsupported("arange form")
        start, stop, step = a
        n = lengths.get((str(start), str(stop)), default)
        I.assume(z3.And(to_real(step) > 0, start + (n - 1) * step < stop, stop <= start + n * step))
        return NDArr(obj_array([to_real(start + i * step) for i in range(n)]), "f")
    return m_arange


def m_meshgrid(I, *xs, indexing="xy"):
    """numpy.meshgrid of three 1-d arrays, default 'xy' indexing: outputs of shape (len(y), len(x), len(z)) with
    X[j,i,k] = x[i], Y[j,i,k] = y[j], Z[j,i,k] = z[k]."""
    xs = [_arr(x) for x in xs]
    if len(xs) != 3 or any(x.ndim != 1 for x in xs):
        raise Unsupported("meshgrid form")
    if indexing not in ("xy", "ij"):
        raise PyRaise("ValueError")
    nx, ny, nz = [x.shape[0] for x in xs]
    shape = (ny, nx, nz) if indexing == "xy" else (nx, ny, nz)
    outs = [np.empty(shape, dtype=object) for _ in range(3)]
    for j in range(ny):
        for i in range(nx):
            for k in range(nz):
                ix = (j, i, k) if indexing == "xy" else (i, j, k)
                outs[0][ix] = xs[0].data[i]
                outs[1][ix] = xs[1].data[j]
                outs[2][ix] = xs[2].data[k]
    return [NDArr(o, "f") for o in outs]


def m_namedtuple(I, name, fields):
    names = fields.split() if isinstance(fields, str) else list(fields)

    def make(*a, **k):
        if len(a) + len(k) != len(names):
            raise PyRaise("TypeError", "namedtuple arity")
        vals = dict(zip(names, a))
        vals.update(k)
        return NT(name, names, vals)
    make._pyvc_native = True
    return make


def m_time(I):
    return I.fresh("real", "t")


def m_trimesh(I, vertices=None, faces=None, **kw):
    """trimesh.Trimesh(vertices=, faces=, ...): an opaque record of its arguments with empty attribute dictionaries."""
    vals = {"vertices": vertices, "faces": faces, "kwargs": dict(kw), "vertex_attributes": {}, "face_attributes": {}}
    return NT("Trimesh", list(vals), vals)


BASE_MODELS = {
    "numpy.fliplr": ModelFn("numpy.fliplr (reverses the column order)", m_fliplr),
    "numpy.array_equal": ModelFn("numpy.array_equal (same shape and cell-wise equal)", m_array_equal),
    "numpy.r_": RStack(),
    "numpy.meshgrid": ModelFn("numpy.meshgrid (three 1-d arrays; 'xy': X[j,i,k]=x[i], Y[j,i,k]=y[j], Z[j,i,k]=z[k])", m_meshgrid),
    "collections.namedtuple": ModelFn("collections.namedtuple (record of named fields)", m_namedtuple),
    "time.time": ModelFn("time.time (some real number)", m_time),
    "trimesh.Trimesh": ModelFn("trimesh.Trimesh (opaque record of its constructor arguments)", m_trimesh),
}


def sym_matrix(prefix, n, m, sort="real"):
    mk = z3.Real if sort == "real" else z3.Int
    return NDArr(obj_array([[mk(f"{prefix}{i}_{j}") for j in range(m)] for i in range(n)]), "f" if sort == "real" else "i")


def sym_vector(prefix, n, sort="real"):
    mk = z3.Real if sort == "real" else z3.Int
    return NDArr(obj_array([mk(f"{prefix}{i}") for i in range(n)]), "f" if sort == "real" else "i")


def det3(a, b, c):
    """Triple product a . (b x c) of three 3-vectors of terms."""
    return (a[0] * (b[1] * c[2] - b[2] * c[1]) - a[1] * (b[0] * c[2] - b[2] * c[0]) + a[2] * (b[0] * c[1] - b[1] * c[0]))


def tetra(rows):
    """Triple product (r1 - r0) . ((r2 - r0) x (r3 - r0)) of four points given as rows of terms."""
    d = [[rows[k][c] - rows[0][c] for c in range(3)] for k in (1, 2, 3)]
    return det3(d[0], d[1], d[2])
