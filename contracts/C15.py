"""C15 — CIF text written by the library parses back to the same data (src/chmpy/fmt/cif.py).

Statement: serialising any dictionary of data blocks holding scalar items and equal-length loop columns (ints, floats, strings with
or without embedded spaces) and parsing the text returns the same block names, item names, value types and values, loop columns still
aligned row by row; numbers with a standard uncertainty in parentheses parse to the number; quoted strings lose only their quotes.

Dom (what "any" means here; written out in c15_native.string_class and below):
  names     block and item names without white space (symbolic names: an ASCII letter followed by printable characters other than ' " ; _)
  ints      plain int (not bool); symbolic obligations |n| < 10**18 (the engine models up to 18 digits), split at 2**53
  floats    finite; loop columns |x| < 10**7 (fits 20.12f up to the sign), compared within half a unit of the 12th decimal; scalars exact
  strings   printable ASCII, single line, not spelled like a number (NUM_ERR_REGEX), not starting with _ # ; or a reserved word
            (data_ loop_ save_ global_ stop_), not needing nested quotes (blank + both quote characters)
  documents every block has at least one item
Classes of Dom in which the unchanged tree fails are kept as SEPARATE obligations (see DEFECT CLASSES in build()).
"""
import ast
import time
from fractions import Fraction

import numpy as np
import z3

from pyvc import frames, source
from pyvc.api import conj
from pyvc.strings import SStr, Lit, Fmt, Sym
from pyvc.values import PyRaise, Unsupported, is_sym, to_real, z

from contracts import c15_models as M
from contracts import c15_native as N

CIF = "chmpy.fmt.cif"
H12 = Fraction(1, 2 * 10 ** 12)
TWO53 = 2 ** 53
B18 = 10 ** 18
FLIM = 10 ** 7


# ================================================================================================ symbolic documents
def _is_float_leaf(v):
    return isinstance(v, Fraction) or (is_sym(v) and z3.is_real(v))


def _is_int_leaf(v):
    return (isinstance(v, int) and not isinstance(v, bool)) or (is_sym(v) and z3.is_int(v))


def _same_str(a, b):
    if isinstance(a, str) and isinstance(b, str):
        return a == b
    if isinstance(a, (str, SStr)) and isinstance(b, (str, SStr)):
        return M._same_text(SStr.wrap(a), SStr.wrap(b))
    return False


def _find_key(d, k):
    for k2 in d:
        if _same_str(k, k2):
            return k2
    return None


def compare_symbolic(inp, out):
    """(structure_ok: bool, problems: [str], numeric goals: [z3 Bool]) for 'out is the same document as inp'.
    Structure = block names, item names, column lengths, string values, the TYPE of integer items; numeric goals = integer equality and
    float closeness.  The type of float items is NOT judged here (obligations token.float/type/* carry it)."""
    problems, goals = [], []

    def leaf(path, a, b, pos):
        if isinstance(a, (str, SStr)):
            if not _same_str(a, b):
                problems.append(f"{path}: {b!r} != {a!r}")
        elif _is_int_leaf(a):
            if not _is_int_leaf(b):
                problems.append(f"{path}: an int came back as {'float' if _is_float_leaf(b) else type(b).__name__} ({b!r})")
                if _is_float_leaf(b):
                    goals.append(to_real(z(b)) == to_real(z(a)))
            else:
                goals.append(z(b) == z(a))
        elif _is_float_leaf(a):
            if not (_is_float_leaf(b) or _is_int_leaf(b)):
                problems.append(f"{path}: a float came back as {type(b).__name__} ({b!r})")
            else:
                d = to_real(z(b)) - to_real(z(a))
                goals.append(z3.And(d <= z(H12), d >= -z(H12)) if pos == "loop" else d == 0)
        else:
            problems.append(f"{path}: unexpected input leaf {a!r}")

    if not isinstance(out, dict):
        return False, [f"result {out!r}"], []
    if len(out) != len(inp):
        problems.append(f"{len(out)} blocks, expected {len(inp)}: {list(out)!r}")
    for bn, blk in inp.items():
        k = _find_key(out, bn)
        if k is None:
            problems.append(f"block {bn!r} missing; got {list(out)!r}")
            continue
        ob = out[k]
        if len(ob) != len(blk):
            problems.append(f"block {bn!r}: items {list(ob)!r}, expected {list(blk)!r}")
        for name, v in blk.items():
            k2 = _find_key(ob, name)
            if k2 is None:
                problems.append(f"item {bn!r}.{name!r} missing")
                continue
            w = ob[k2]
            if isinstance(v, list):
                if not isinstance(w, list) or len(w) != len(v):
                    problems.append(f"column {name!r}: {w!r}, expected {len(v)} rows")
                    continue
                for i, (a, b) in enumerate(zip(v, w)):
                    leaf(f"{name!r}[{i}]", a, b, "loop")
            else:
                if isinstance(w, list):
                    problems.append(f"scalar {name!r} came back as a column")
                else:
                    leaf(f"{name!r}", v, w, "scalar")
    return not problems, problems, goals


def concretise(v, model, _names=None, mid=None):
    """Symbolic document -> native document, values taken from the counter-model where it has them (distinct symbolic words get distinct texts).
    mid: text to use for the unconstrained middle part of every symbolic word (default: a few characters of 'x%.' as long as the model says)."""
    names = _names if _names is not None else {}
    if isinstance(v, dict):
        return {concretise(k, model, names, mid): concretise(x, model, names, mid) for k, x in v.items()}
    if isinstance(v, list):
        return [concretise(x, model, names, mid) for x in v]
    if isinstance(v, SStr):
        out = ""
        for seg in v.segs:
            if isinstance(seg, Lit):
                out += seg.text
            elif isinstance(seg, Sym):
                base = str(seg.term).rsplit("_", 1)[0]
                idx = names.setdefault(base, len(names))
                role = getattr(seg, "c15_role", "mid")
                if role == "first":
                    out += "ABCDEFGHJKLMNPQRSTUVWXYZ"[idx % 24]
                elif role == "last":
                    out += "bcdfghjkmnpqrstvwxyz0123"[idx % 24]
                else:
                    try:
                        k = int(model.get(str(seg._length), 1))
                    except Exception:  # noqa
                        k = 1
                    out += mid if mid is not None else ("x%." * 3)[:max(0, min(k, 6))]
            else:
                raise ValueError("formatted segment in an input document")
        return out
    if is_sym(v):
        name = str(v)
        if z3.is_int(v):
            try:
                return int(model.get(name, 7))
            except Exception:  # noqa
                return 7
        try:
            return float(Fraction(model.get(name, Fraction(5, 4))))
        except Exception:  # noqa
            return 1.25
    if isinstance(v, Fraction):
        return float(v)
    return v


# ================================================================================================ build
def build(ctx):
    ctx.level = "other"
    ctx.explanation = (
        "P (real source executed symbolically on structured strings): Cif.to_string and Cif.from_string run back to back on whole documents whose "
        "block/item/column names, plain words, quoted phrases, integers and floats are SYMBOLIC (shapes: scalars+3-column loop, prefix/length "
        "groups, two blocks, interleaved scalars/vectors, underscore-free names, 3 rows x 4 columns; thorough adds three more); per path: same "
        "block names, item names, column lengths with rows aligned, identical strings, identical ints of type int, floats within 0.5e-12.  Token "
        "lemmas through the real tokeniser and coercion: ints exact for |n| <= 2^53 (scalar and loop), loop floats within 0.5e-12 and of type "
        "float when the 12-decimal rendering is not integral, 'x(u)' parses to x (directly and inside parsed hand-written text next to single- and "
        "double-quoted fields), quoting decision (blank => quoted, with a delimiter absent from the text), is_scalar / format_field per type.  "
        "F: the writer's row loop and block loop are maps.  G: the structural rules standing in for `re` agree with the real `re` on every string "
        "over a 15-character alphabet up to length 4 (5 in thorough) and on rendered numbers.  "
        "B only (native, never counted as proved): strings outside the symbolic class 'ASCII letter + printable characters without quotes, semicolon, "
        "underscore' — covered by every string over an 11-character alphabet up to length 3 (4 thorough) in scalar / first / middle / last loop "
        "position, per class; seeded documents with random shapes and 0-60 rows (the reader's loops are not frame-checked: row counts beyond 3 are B); "
        "scalar floats (text is repr(): value and type are B only); with_uncertainty=True; quoted hand-written text.  "
        "Classes of the domain in which the unchanged tree fails are separate obligations (ids contain gt_2p53, integral_rendering, "
        "scalar_integral_floats, loop_before_next_block, strings/<pos>/empty|lead_blank|lead_quote|blank_and_quote|blank_run); everything else "
        "discharges independently of them.")
    ctx.notes.append("defect classes kept as separate obligations: " + "; ".join(f"{k}: {v}" for k, v in N.STRING_CLASSES.items()) +
                     "; gt_2p53: ints beyond 2**53 go through float(); integral_rendering / scalar_integral_floats: floats whose text is integral come back as int; "
                     "loop_before_next_block: is_data_line accepts the next block's data_ line as a loop row")
    ctx.assumptions += [
        "CPython format/parse contract: format(x,'20.12f') renders round-half-even(x*10^12)/10^12 right-aligned, float() of that text returns it; "
        "'20d' renders the integer; float(integer text) is exact iff |n| <= 2**53, otherwise an integer-valued double within |n|*2**-53",
        "floats are reals (binary64 representation error of the decimal text, <= 1/2 ulp, is not modelled; the native stand-ins allow |x|*2**-52 for it)",
        "re on NUM_ERR_REGEX / VALUES_REGEX / QUOTE_REGEX: structural rules keyed on the exact pattern text (c15_models), cross-checked against `re` (G)",
        "str.split/strip/join/startswith and dict lookup on structured strings (engine models + c15_models.CifInterp); two symbolic names that are "
        "not the same text are distinct (they are distinct keys of the input dict)",
        "itertools.groupby consumed in order; hasattr(x,'__len__') is True for list/tuple/str and False for int/float",
        "Dom: see module docstring; symbolic ints |n| < 10**18; symbolic loop floats |x| < 10**7",
    ]
    mod = source.load_module(CIF)
    fns = {}
    for n in ("parse_value", "parse_quote", "needs_quote", "is_scalar", "format_field", "Cif.__init__", "Cif.to_string", "Cif.parse", "Cif.parse_data_name",
              "Cif.parse_loop_block", "Cif.parse_data_block_name", "Cif.is_data_line", "Cif.is_comment_line", "Cif.is_data_name_line", "Cif.is_empty_line",
              "Cif.parse_comment_line", "Cif.current_data_block", "Cif.from_string", "Cif.parse_quoted_block"):
        try:
            fns[n] = ctx.fn(CIF, n)
        except KeyError:
            ctx.undecided(f"fmt.cif.{n}/present", f"function {n} not found in the source")
    I = M.make_interp(ctx)
    CifCls = I.class_of(mod, "Cif")
    f_to, f_parse, f_pv, f_ff, f_nq, f_sc = (fns.get(k) for k in ("Cif.to_string", "Cif.parse", "parse_value", "format_field", "needs_quote", "is_scalar"))

    model_conformance(ctx, I)
    small_functions(ctx, I, mod, f_nq, f_sc, f_ff)
    token_lemmas(ctx, I, mod, CifCls, f_pv, f_parse)
    documents(ctx, I, CifCls, f_to, f_parse)
    frames_part(ctx, f_to)
    engine_guard(ctx, I, f_pv, f_ff, f_nq, f_sc, fns.get("parse_quote"))
    bounded(ctx)


# ================================================================================================ G: models vs re
def model_conformance(ctx, I):
    t0 = time.time()
    alphabet = "1-+.,eE()x '\";\n"
    L = 4 if ctx.tier == "quick" else 5
    cnt, bad = M.conformance(alphabet, L)
    ctx.ground("models/regex_rules_conform", not bad,
               clause=f"the structural rules used for NUM_ERR_REGEX.match, VALUES_REGEX.findall and QUOTE_REGEX.match return what `re` returns (span, groups, tokens) "
                      f"on all {cnt} strings over {alphabet!r} up to length {L}", detail=bad[:3], witness=bad[:2], seconds=time.time() - t0)
    # rendered numbers: the rules on a Fmt atom vs `re` on the rendered text
    import re
    t0 = time.time()
    bad = []
    I.pc, I.fresh_count, I.cur_safety, I.decisions, I.dpos, I.new_alts, I.no_fork, I.depth = [], 0, [], [], 0, [], 0, 0
    num, val = re.compile(M.NUM_PAT), re.compile(M.VAL_PAT)

    def render(s):
        if isinstance(s, str):
            return s
        out = ""
        for seg in s.segs:
            if isinstance(seg, Lit):
                out += seg.text
            else:
                v = z3.simplify(z(seg.value))
                pv = v.as_long() if z3.is_int_value(v) else float(Fraction(v.numerator_as_long(), v.denominator_as_long()))
                t = format(pv, seg.spec)
                out += t.strip() if getattr(seg, "_stripped", False) else t
        return out
    ints = [0, 7, -7, 10 ** 17, -10 ** 17, 123456789012345678]
    flts = [Fraction(0), Fraction(1, 2), Fraction(-1, 2), Fraction(1234567123456789012, 10 ** 12), Fraction(-99999999, 10), Fraction(1, 10 ** 13), Fraction(-1, 10 ** 13)]
    cases = 0
    for ci, n in enumerate(ints):
        for x in (flts[ci % len(flts)], flts[(3 * ci + 2) % len(flts)]):
            fi = lambda spec="20d": Fmt(I, z3.IntVal(n), spec)
            ff = lambda spec="20.12f": Fmt(I, z3.RealVal(str(x)), spec)
            rows = [SStr([fi()]), SStr([ff()]), SStr([fi(), Lit(" "), ff()]), SStr([ff(), Lit(" 'a b' "), fi(), Lit(" x")]),
                    SStr([Lit("'a b' "), fi(), Lit(" "), ff(), Lit(' "c d"')]), SStr([Lit("w "), ff(), Lit(" it's "), fi()])]
            toks = [SStr([fi().stripped()]), SStr([ff().stripped()]), SStr([fi("d")]), SStr([ff(".4f"), Lit("("), Fmt(I, z3.IntVal(abs(n) % 1000), "d"), Lit(")")]),
                    SStr([fi("d"), Lit("(3)")]), SStr([ff(".3f"), Lit("e5")]), SStr([ff(".3f"), Lit("(x)")])]
            for r in rows:
                cases += 1
                try:
                    got = [render(t) for t in M.values_findall(I, r)]
                except Unsupported as e:
                    got = f"unsupported: {e}"
                exp = val.findall(render(r))
                if got != exp:
                    bad.append({"rule": "VALUES_REGEX.findall", "text": render(r), "re": exp, "rule_says": got})
            for t in toks:
                cases += 1
                txt = render(t)
                m = num.match(txt)
                try:
                    r = M.num_match(I, t)
                    got = None if r is None else (render(r.groups[0]), render(r.groups[1]), None if r.groups[5] is None else render(r.groups[5]))
                except Unsupported as e:
                    got = f"unsupported: {e}"
                exp = None if m is None else (m.group(0), m.group(1), m.group(5))
                if got != exp:
                    bad.append({"rule": "NUM_ERR_REGEX.match", "text": txt, "re": exp, "rule_says": got})
    ctx.ground("models/regex_rules_conform_rendered_numbers", not bad,
               clause=f"on {cases} rows/tokens built from rendered integers and fixed-point numbers (padded, unpadded, with uncertainty) the rules agree with `re` on the rendered text",
               detail=bad[:3], witness=bad[:2], seconds=time.time() - t0)


# ================================================================================================ P: small functions
def small_functions(ctx, I, mod, f_nq, f_sc, f_ff):
    n, x = z3.Int("n"), z3.Real("x")
    w, wc = M.word("w")
    w2, wc2 = M.word("v")
    W = SStr(list(w))
    PH = SStr.concat(list(w) + [" "] + list(w2))

    def native_small(m):
        cif = N.cifmod()
        obs = {"needs_quote('a b')": cif.needs_quote("a b"), "needs_quote('ab')": cif.needs_quote("ab"), "needs_quote(3)": cif.needs_quote(3),
               "is_scalar('ab')": cif.is_scalar("ab"), "is_scalar(2.5)": cif.is_scalar(2.5), "is_scalar([1])": cif.is_scalar([1]),
               "format_field('a b')": cif.format_field("a b"), "format_field(7)": cif.format_field(7), "format_field(2.5)": cif.format_field(2.5)}
        ok = obs == {"needs_quote('a b')": True, "needs_quote('ab')": False, "needs_quote(3)": False, "is_scalar('ab')": True, "is_scalar(2.5)": True,
                     "is_scalar([1])": False, "format_field('a b')": obs["format_field('a b')"], "format_field(7)": f"{7:20d}", "format_field(2.5)": f"{2.5:20.12f}"} \
            and obs["format_field('a b')"] in ("'a b'", '"a b"')
        return {"native_inputs": "'a b', 'ab', 3, 2.5, [1], 7", "reproduced": not ok, "observed": obs}

    def run1(fname, arg, pre=()):
        return I.run(ctx.fn(CIF, fname), [arg], pre=list(pre))

    def ob_needs_quote():
        for label, arg, pre, want in (("word", W, wc, False), ("phrase", PH, wc + wc2, True), ("int", n, [], False), ("float", x, [], False)):
            res = run1("needs_quote", arg, pre)
            for k, r in enumerate(res):
                ok = r.kind == "return" and (r.value is want)
                if want is False and label in ("word",):
                    ok = r.kind == "return"         # quoting a blank-free string is harmless; only the blank case is prescribed
                ctx.prove(f"fmt.cif.needs_quote/ensures/{label}" + (f"/path{k}" if len(res) > 1 else ""), r.pc, z3.BoolVal(bool(ok)),
                          clause={"word": "needs_quote terminates normally on a blank-free string", "phrase": "a string with an embedded blank (and no quote character) needs quoting",
                                  "int": "numbers are never quoted", "float": "numbers are never quoted"}[label], replay=native_small, fn=f_nq)
    def ob_needs_quote_any():
        # any string without quote characters: blank => quoted  (z3 strings; s = c.rest with |c| = 1: a string holding a blank is not empty)
        c, rest = z3.String("s_first"), z3.String("s_rest")
        s = z3.Concat(c, rest)
        res = run1("needs_quote", SStr([Sym(c, "any", 1), Sym(rest)]), [z3.Length(c) == 1])
        for k, r in enumerate(res):
            val = z(r.value) if r.kind == "return" else z3.BoolVal(False)
            ctx.prove("fmt.cif.needs_quote/ensures/any_string_blank_implies_quoted" + (f"/path{k}" if len(res) > 1 else ""),
                      list(r.pc) + [z3.Contains(s, z3.StringVal(" ")), z3.Not(z3.Contains(s, z3.StringVal("'"))), z3.Not(z3.Contains(s, z3.StringVal('"')))],
                      val, clause="forall strings s without quote characters: ' ' in s => needs_quote(s)", replay=native_small, fn=f_nq, timeout_ms=20000)
    ctx.attempt("fmt.cif.needs_quote/ensures", ob_needs_quote, replay=native_small, fn=f_nq)
    ctx.attempt("fmt.cif.needs_quote/ensures/any_string_blank_implies_quoted", ob_needs_quote_any, replay=native_small, fn=f_nq)

    def ob_is_scalar():
        for label, arg, pre, want in (("str", W, wc, True), ("phrase", PH, wc + wc2, True), ("int", n, [], True), ("float", x, [], True),
                                      ("list", [n, 1], [], False), ("list_of_str", [W], wc, False), ("empty_list", [], [], False)):
            fv = I.lookup_global(mod, "is_scalar")
            res = I.run(fv, [arg], pre=list(pre))
            for k, r in enumerate(res):
                ok = r.kind == "return" and (r.value is want)
                ctx.prove(f"fmt.cif.is_scalar/ensures/{label}" + (f"/path{k}" if len(res) > 1 else ""), r.pc, z3.BoolVal(bool(ok)),
                          clause=f"is_scalar({label}) is {want}: strings and numbers are scalar items, lists are loop columns", replay=native_small, fn=f_sc)
    ctx.attempt("fmt.cif.is_scalar/ensures", ob_is_scalar, replay=native_small, fn=f_sc)

    def ob_format_field():
        for label, arg, pre in (("int", n, [n > -B18, n < B18]), ("float", x, [x > -FLIM, x < FLIM]), ("word", W, wc), ("phrase", PH, wc + wc2)):
            res = run1("format_field", arg, pre)
            for k, r in enumerate(res):
                v = r.value if r.kind == "return" else None
                if label in ("int", "float"):
                    ok = isinstance(v, SStr) and len(v.segs) == 1 and isinstance(v.segs[0], Fmt) and v.segs[0].value is arg and \
                        v.segs[0].kind == ("d" if label == "int" else "f") and (label == "int" or v.segs[0].prec == 12) and v.segs[0].p["align"] in (None, ">")
                    cl = "an int is written as its decimal digits" if label == "int" else "a float is written in fixed point with 12 decimals"
                elif label == "word":
                    ok = isinstance(v, SStr) and (M._same_text(v, W) or _quoted_form(v, W))
                    cl = "a blank-free string is written as it is (or quoted)"
                else:
                    ok = isinstance(v, SStr) and _quoted_form(v, PH)
                    cl = "a string with a blank is written between quote characters that do not occur in it"
                ctx.prove(f"fmt.cif.format_field/ensures/{label}" + (f"/path{k}" if len(res) > 1 else ""), r.pc, z3.BoolVal(bool(ok)), clause=cl,
                          replay=native_small, fn=f_ff)
    ctx.attempt("fmt.cif.format_field/ensures", ob_format_field, replay=native_small, fn=f_ff)


def _quoted_form(v, inner):
    """v == q + inner + q for a quote character q that does not occur in the literal parts of inner."""
    segs = v.segs
    if len(segs) < 2 or not isinstance(segs[0], Lit) or not isinstance(segs[-1], Lit):
        return False
    q = segs[0].text[:1]
    if q not in ("'", '"') or not segs[-1].text.endswith(q):
        return False
    mid = SStr([Lit(segs[0].text[1:])] + list(segs[1:-1]) + [Lit(segs[-1].text[:-1])])
    if any(isinstance(g, Lit) and q in g.text for g in inner.segs):
        return False
    return M._same_text(SStr(list(mid.segs)), SStr(list(inner.segs)))


# ================================================================================================ P: token lemmas
def _run_doc(I, CifCls, make_doc, pre):
    """to_string then from_string on the real code; returns [(PathResult, input document)]."""
    holder = {}

    def thunk(I2, a, kw):
        d = make_doc()
        holder["doc"] = d
        c = I2.instantiate(CifCls, [d], {})
        text = I2.call(I2.getattr(c, "to_string"), [])
        c2 = I2.call(I2.getattr(CifCls, "from_string"), [text])
        return d, I2.getattr(c2, "data")
    return I.explore(thunk, pre=list(pre))


def _doc_replay(make_doc, float_type=True, variants=()):
    """Native replay of a document obligation: the concretised counter-model first, then variants of it for the same clause
    (e.g. the neighbouring integers: the model of an over-approximated float may pick a representable one)."""
    def replay(m):
        tried = []
        for delta in (None,) + tuple(variants):
            mm = dict(m)
            if delta is not None:
                for k, v in list(mm.items()):
                    if isinstance(v, int) and not isinstance(v, bool) and abs(v) > TWO53:
                        mm[k] = v + delta
            # the middle of a symbolic word is arbitrary text without blanks: also try the format's own reserved words there
            for mid in ((None,) if delta is not None else (None, "data_", "_loop_", "#x", "global_")):
                try:
                    d = concretise(make_doc(), mm, mid=mid)
                except Exception:  # noqa
                    continue
                ok, obs = N.roundtrip(d, float_type=float_type)
                tried.append(repr(d)[:200])
                if not ok:
                    return {"native_inputs": {"document": repr(d)[:600]}, "reproduced": True, "observed": obs}
        return {"native_inputs": {"documents_tried": tried}, "reproduced": False, "observed": obs}
    return replay


def token_lemmas(ctx, I, mod, CifCls, f_pv, f_parse):
    n, x, u = z3.Int("n"), z3.Real("x"), z3.Int("u")

    # ---- integers -------------------------------------------------------------------------------------------------
    for pos, mk in (("loop", lambda: {"b": {"l_a": [n]}}), ("scalar", lambda: {"b": {"k": n}})):
        def ob_int(pos=pos, mk=mk):
            for part, pre in (("le_2p53", [n >= -TWO53, n <= TWO53]), ("gt_2p53", [z3.Or(n > TWO53, n < -TWO53), n > -B18, n < B18])):
                res = _run_doc(I, CifCls, mk, pre)
                for k, r in enumerate(res):
                    ident = f"fmt.cif.parse_value/ensures/token.int/{pos}/{part}" + (f"/path{k}" if len(res) > 1 else "")
                    cl = (f"an int item in {pos} position with " + ("|n| <= 2**53" if part == "le_2p53" else "2**53 < |n| < 10**18") +
                          " is read back as the same int")
                    if r.kind != "return":
                        ctx.prove(ident, r.pc, z3.BoolVal(False), clause=cl + f" (raises {r.value.exc_type})", replay=_doc_replay(mk, variants=(1, -1, 2)), fn=f_pv)
                        continue
                    ok, problems, goals = compare_symbolic(*r.value)
                    ctx.prove(ident, r.pc, conj([z3.BoolVal(ok)] + goals), clause=cl, replay=_doc_replay(mk, variants=(1, -1, 2)), fn=f_pv, split=False)
        ctx.attempt(f"fmt.cif.parse_value/ensures/token.int/{pos}", ob_int, replay=_doc_replay(mk), fn=f_pv)

    # ---- loop floats: value and type ----------------------------------------------------------------------------------
    mkf = lambda: {"b": {"l_a": [x]}}

    def ob_float():
        res = _run_doc(I, CifCls, mkf, [x > -FLIM, x < FLIM])
        seen = set()
        for k, r in enumerate(res):
            if r.kind != "return":
                ctx.prove(f"fmt.cif.parse_value/ensures/token.float/loop/raises/path{k}", r.pc, z3.BoolVal(False),
                          clause=f"a float in a loop column parses back (raises {r.value.exc_type})", replay=_doc_replay(mkf), fn=f_pv)
                continue
            d, out = r.value
            ok, problems, goals = compare_symbolic(d, out)
            back = out.get("b", {}).get("l_a", [None])[0] if ok else None
            integral = _is_int_leaf(back)
            part = "integral_rendering" if integral else "non_integral_rendering"
            sfx = "" if part not in seen else f"/path{k}"
            seen.add(part)
            ctx.prove(f"fmt.cif.parse_value/ensures/token.float/loop/value/{part}{sfx}", r.pc, conj([z3.BoolVal(ok)] + goals),
                      clause="forall |x| < 1e7: a float in a loop column is read back within 0.5e-12 (half a unit of the 12th decimal written)",
                      replay=_doc_replay(mkf, float_type=False), fn=f_pv, split=False)
            ctx.prove(f"fmt.cif.parse_value/ensures/token.float/loop/type/{part}{sfx}", r.pc, z3.BoolVal(bool(ok and _is_float_leaf(back))),
                      clause="a float in a loop column is read back as a float" +
                             (" — case: its 12-decimal rendering is an integer (2.0, 1e-13, -0.0)" if integral else " — case: its 12-decimal rendering is not an integer"),
                      replay=_doc_replay(mkf), fn=f_pv)
    ctx.attempt("fmt.cif.parse_value/ensures/token.float/loop", ob_float, replay=_doc_replay(mkf), fn=f_pv)

    # ---- uncertainty: x(u) parses to x ---------------------------------------------------------------------------------
    H4 = Fraction(1, 2 * 10 ** 4)

    def unc_replay(m):
        cif = N.cifmod()
        try:
            xv = float(Fraction(m.get("x", Fraction(12345, 10000))))
            uv = abs(int(m.get("u", 12)))
        except Exception:  # noqa
            xv, uv = 1.2345, 12
        txt = f"{xv:.4f}({uv})"
        try:
            got = cif.parse_value(txt)
            got2 = cif.Cif.from_string(f"data_b\n_cell_a {txt}\nloop_\n_l_a\n_l_b\n'a b' {txt}\n#END").data
            ok = abs(float(got) - float(f"{xv:.4f}")) <= 1e-15 * max(1.0, abs(xv)) and isinstance(got, (int, float)) and \
                got2 == {"b": {"cell_a": got, "l_a": ["a b"], "l_b": [got]}}
            obs = {"parse_value": repr(got), "document": repr(got2)}
        except Exception as e:  # noqa
            ok, obs = False, {"exception": repr(e)[:200]}
        return {"native_inputs": {"text": txt}, "reproduced": not ok, "observed": obs}

    def ob_unc_direct():
        def thunk(I2, a, kw):
            t = SStr([Fmt(I2, x, ".4f"), Lit("("), Fmt(I2, u, "d"), Lit(")")])
            return I2.call(I2.lookup_global(mod, "parse_value"), [t])
        res = I.explore(thunk, pre=[x > -FLIM, x < FLIM, u >= 0, u < B18])
        for k, r in enumerate(res):
            ident = "fmt.cif.parse_value/ensures/token.uncertainty/float" + (f"/path{k}" if len(res) > 1 else "")
            cl = "forall |x| < 1e7, u >= 0: parse_value of the text '<x to 4 decimals>(<u>)' is that decimal number (a number, not a string)"
            if r.kind != "return" or not (_is_float_leaf(r.value) or _is_int_leaf(r.value)):
                ctx.prove(ident, r.pc, z3.BoolVal(False), clause=cl, replay=unc_replay, fn=f_pv)
                continue
            d = to_real(z(r.value)) - x
            ctx.prove(ident, r.pc, z3.And(d <= z(H4), d >= -z(H4)), clause=cl, replay=unc_replay, fn=f_pv, split=False)

        def thunk2(I2, a, kw):
            t = SStr([Fmt(I2, z3.Int("n"), "d"), Lit("("), Fmt(I2, u, "d"), Lit(")")])
            return I2.call(I2.lookup_global(mod, "parse_value"), [t])
        nn = z3.Int("n")
        res = I.explore(thunk2, pre=[nn >= -TWO53, nn <= TWO53, u >= 0, u < B18])
        for k, r in enumerate(res):
            ident = "fmt.cif.parse_value/ensures/token.uncertainty/int" + (f"/path{k}" if len(res) > 1 else "")
            cl = "forall |n| <= 2**53, u >= 0: parse_value('<n>(<u>)') == n"
            good = r.kind == "return" and _is_int_leaf(r.value)
            ctx.prove(ident, r.pc, (z(r.value) == nn) if good else z3.BoolVal(False), clause=cl, replay=unc_replay, fn=f_pv)
    ctx.attempt("fmt.cif.parse_value/ensures/token.uncertainty", ob_unc_direct, replay=unc_replay, fn=f_pv)

    def ob_unc_text():
        y, u2 = z3.Real("y"), z3.Int("u2")
        w, wc = M.word("w")
        H3 = Fraction(1, 2 * 10 ** 3)

        def thunk(I2, a, kw):
            text = SStr.concat(["data_b\n_cell_a ", Fmt(I2, x, ".4f"), "(", Fmt(I2, u, "d"), ")\n_name 'a b'\nloop_\n_l_a\n_l_b\n_l_c\n",
                                Fmt(I2, y, ".3f"), "(", Fmt(I2, u2, "d"), ") 'c d' "] + list(w) + ["\n\"e f\" ", Fmt(I2, x, ".4f"), "(", Fmt(I2, u, "d"), ") 7\n#END"])
            c2 = I2.call(I2.getattr(CifCls, "from_string"), [text])
            return I2.getattr(c2, "data")
        res = I.explore(thunk, pre=[x > -FLIM, x < FLIM, y > -FLIM, y < FLIM, u >= 0, u < B18, u2 >= 0, u2 < B18] + wc)
        for k, r in enumerate(res):
            ident = f"fmt.cif.Cif.parse/ensures/text_with_uncertainties_and_quotes/path{k}"
            cl = ("parsing hand-written text: a scalar and loop fields carrying '(u)' give the numbers, single- and double-quoted fields lose only their "
                  "quotes, the three columns stay aligned over two rows")
            if r.kind != "return":
                ctx.prove(ident, r.pc, z3.BoolVal(False), clause=cl + f" (raises {r.value.exc_type})", replay=unc_replay, fn=f_parse)
                continue
            d = r.value
            try:
                b = d["b"]
                struct = set(b) == {"cell_a", "name", "l_a", "l_b", "l_c"} and b["name"] == "a b" and len(b["l_a"]) == 2 and len(b["l_b"]) == 2 and \
                    len(b["l_c"]) == 2 and b["l_a"][1] == "e f" and b["l_b"][0] == "c d" and _same_str(b["l_c"][0], SStr(list(w))) and b["l_c"][1] == 7 and \
                    all(_is_float_leaf(v) or _is_int_leaf(v) for v in (b["cell_a"], b["l_a"][0], b["l_b"][1]))
            except Exception:  # noqa
                struct = False
            goals = [z3.BoolVal(bool(struct))]
            if struct:
                for got, want, h in ((b["cell_a"], x, H4), (b["l_a"][0], y, H3), (b["l_b"][1], x, H4)):
                    dd = to_real(z(got)) - want
                    goals.append(z3.And(dd <= z(h), dd >= -z(h)))
            ctx.prove(ident, r.pc, conj(goals), clause=cl, replay=unc_replay, fn=f_parse, split=False)
    ctx.attempt("fmt.cif.Cif.parse/ensures/text_with_uncertainties_and_quotes", ob_unc_text, replay=unc_replay, fn=f_parse)


# ================================================================================================ P: whole documents
def documents(ctx, I, CifCls, f_to, f_parse):
    n, m, j = z3.Int("n"), z3.Int("m"), z3.Int("j")
    x, y = z3.Real("x"), z3.Real("y")
    (w1, c1), (w2, c2), (w3, c3) = M.word("w1"), M.word("w2"), M.word("w3")
    (bn, c4), (kn, c5), (ln, c6), (b2n, c7) = M.word("blockname"), M.word("itemname"), M.word("colname"), M.word("block2name")
    W1, W3 = SStr(list(w1)), SStr(list(w3))
    PH = SStr.concat(list(w2) + [" "] + list(w3))
    PH2 = SStr.concat(list(w1) + [" "] + list(w2) + [" "] + list(w3))
    BN, KN, B2N = SStr(list(bn)), SStr(list(kn)), SStr(list(b2n))
    LN = SStr.concat(["atom_"] + list(ln))
    pre_i = [v >= -TWO53 for v in (n, m, j)] + [v <= TWO53 for v in (n, m, j)]
    pre_f = [x > -FLIM, x < FLIM, y > -FLIM, y < FLIM]
    pre_w = c1 + c2 + c3 + c4 + c5 + c6 + c7
    F = Fraction
    shapes = [
        ("scalars_and_loop", lambda: {BN: {KN: n, "sc_w": W1, "sc_p": PH, LN: [m, 3], "atom_x": [x, F(5, 2)], "atom_s": [PH, W3]}},
         "one block: int / word / phrase scalars and a 3-column loop (ints, floats, quoted phrase and word) with symbolic block, item and column names"),
        ("prefix_and_length_groups", lambda: {"b": {"a_1": [n, 2], "a_2": [1, 2, 3], "a_3": [W1, PH], "b_1": [x, F(1, 4)], "b_2": [PH2, W3]}},
         "columns grouped into loops by name prefix and by length (a_1 | a_2 | a_3 | b_1,b_2)"),
        ("two_blocks", lambda: {BN: {"k_": n, "s_": PH}, B2N: {"q_": W1, "l_a": [m, 1], "l_b": [W3, PH]}},
         "two blocks with symbolic names; loops in the final block"),
        ("interleaved", lambda: {"b": {"l_a": [n], KN: W1, "l_b": [PH], "j_": m, "l_c": [x]}},
         "scalar and vector items interleaved in the dictionary; single-row loop"),
        ("names_without_underscore", lambda: {"b": {"alpha": [n, 1], "beta": [PH, W1], "gamma": [y, x]}},
         "column names without an underscore (each its own prefix group)"),
        ("three_rows_four_columns", lambda: {"b": {"t_a": [W1, PH, W3], "t_b": [n, m, j], "t_c": [PH, W3, PH2], "t_d": [F(1, 8), x, F(-3, 2)]}},
         "three rows, four columns, quoted phrases in first, middle and last positions"),
    ]
    if ctx.tier == "thorough":
        shapes += [
            ("three_blocks", lambda: {BN: {"k_": n}, "mid_": {"s_": PH, "t_": W1}, B2N: {"l_a": [x, y], "l_b": [m, j]}}, "three blocks, loop in the last"),
            ("five_columns", lambda: {"b": {"c_1": [n, m], "c_2": [x, y], "c_3": [W1, W3], "c_4": [PH, PH2], "c_5": [j, 0]}}, "five columns of all kinds"),
            ("scalars_only", lambda: {BN: {KN: PH, "a_": W1, "b_": n, "c_": PH2, "d_": m}}, "a block of scalars only"),
        ]
    clause_tail = (": the parsed text has the same block names, item names, column lengths with rows aligned, identical strings, identical ints of type int, "
                   "floats within 0.5e-12 (float type: see token.float/type)")
    for label, mk, what in shapes:
        def ob(label=label, mk=mk, what=what):
            res = _run_doc(I, CifCls, mk, pre_i + pre_f + pre_w)
            for k, r in enumerate(res):
                ident = f"fmt.cif.Cif.from_string/ensures/roundtrip/{label}/path{k}"
                if r.kind != "return":
                    ctx.prove(ident, r.pc, z3.BoolVal(False), clause=what + f" (raises {r.value.exc_type} {r.value.msg})", replay=_doc_replay(mk, False), fn=f_parse)
                    continue
                ok, problems, goals = compare_symbolic(*r.value)
                rec = ctx.prove(ident, r.pc, conj([z3.BoolVal(ok)] + goals), clause=what + clause_tail, replay=_doc_replay(mk, False), fn=f_parse, split=False)
                if problems:
                    rec.detail = {"structure_problems": problems[:4]}
            ctx.safety(f"fmt.cif.Cif.from_string/roundtrip/{label}", res, replay=_doc_replay(mk, False), fn=f_parse)
        ctx.attempt(f"fmt.cif.Cif.from_string/ensures/roundtrip/{label}", ob, replay=_doc_replay(mk, False), fn=f_parse)

    # DEFECT CLASS multi_block_loop: a loop that is not in the last block
    mk8 = lambda: {BN: {"l_a": [n, 2]}, B2N: {"k_": m}}

    def ob8():
        res = _run_doc(I, CifCls, mk8, pre_i + pre_w)
        for k, r in enumerate(res):
            ident = "fmt.cif.Cif.from_string/ensures/roundtrip/loop_before_next_block" + (f"/path{k}" if len(res) > 1 else "")
            cl = "two blocks, the FIRST one holding a loop: both blocks come back with their own items (the 'data_' line ends the loop)"
            if r.kind != "return":
                ctx.prove(ident, r.pc, z3.BoolVal(False), clause=cl, replay=_doc_replay(mk8, False), fn=f_parse)
                continue
            ok, problems, goals = compare_symbolic(*r.value)
            rec = ctx.prove(ident, r.pc, conj([z3.BoolVal(ok)] + goals), clause=cl, replay=_doc_replay(mk8, False), fn=f_parse, split=False)
            if problems:
                rec.detail = {"structure_problems": problems[:4]}
    ctx.attempt("fmt.cif.Cif.from_string/ensures/roundtrip/loop_before_next_block", ob8, replay=_doc_replay(mk8, False), fn=f_parse)


# ================================================================================================ F
def engine_guard(ctx, I, f_pv, f_ff, f_nq, f_sc, f_pq):
    """CPython cross-check of the symbolic executor (and of the regular-expression models) on the token functions: concrete arguments, same value."""
    from pyvc.crosscheck import crosscheck
    cif = N.cifmod()
    if f_pv is not None:
        crosscheck(ctx, I, f_pv, cif.parse_value, [(t,) for t in ("12", "-7", "+3", "1.25", "-0.5", ".5", "1.5e-3", "2E4", "1.234(5)", "12(3)", "abc", "'a b'", '"it\'s"', "C1", "1_555", "?", ".", "-x,y+1/2,z")])
    if f_ff is not None:
        crosscheck(ctx, I, f_ff, cif.format_field, [(1.5,), (-2,), ("abc",), ("a b",), ("it's a",), ("",), (0.1,), (123456789012,), (1e-13,), ("'lead",)])
    if f_nq is not None:
        crosscheck(ctx, I, f_nq, cif.needs_quote, [("abc",), ("a b",), ("",), ("'x",), ('"y',), ("_name",), ("#c",)])
    if f_sc is not None:
        crosscheck(ctx, I, f_sc, cif.is_scalar, [("abc",), (1,), (1.5,), ([1, 2],), ((1, 2),), ([],)])
    if f_pq is not None:
        crosscheck(ctx, I, f_pq, cif.parse_quote, [("'a b'",), ('"it\'s"',), ("'x'",)])


def frames_part(ctx, f_to):
    if f_to is None:
        return
    loops = frames.loops_of(f_to.node)
    found = {}
    for k, lp in enumerate(loops):
        if isinstance(lp, ast.For):
            it = ast.unparse(lp.iter)
            if "zip(*" in it:
                found["row"] = k
            elif it.endswith("self.data.items()"):
                found["block"] = k
    # the rows may also be produced by a comprehension handed to lines.extend / lines += : a comprehension whose element expression only
    # builds a value is a map by construction
    row_comp = None
    for n in ast.walk(f_to.node):
        if isinstance(n, (ast.GeneratorExp, ast.ListComp)) and any("zip(*" in ast.unparse(g.iter) for g in n.generators):
            inplace = [c for c in ast.walk(n.elt) if isinstance(c, ast.Call) and isinstance(c.func, ast.Attribute) and c.func.attr in frames.INPLACE_METHODS]
            if not inplace and not any(isinstance(c, ast.NamedExpr) for c in ast.walk(n)):
                row_comp = n

    def runtime_counts():
        """Run-time fall-back: documents with more rows and blocks than the symbolic instances, through the real writer and reader."""
        rng = np.random.default_rng(1515)
        for _ in range(60):
            d = N.rand_doc(rng)
            ok, obs = N.roundtrip(d)
            if not ok:
                return {"input": {"document": repr(d)[:1500]}, "observed": obs}
        return None
    for label, clause in (("row", "the row loop of to_string is a map: each iteration only appends one line built from its own row (what is proved for 1-3 rows holds for any row count)"),
                          ("block", "the block loop of to_string is a map: each block is written from its own name and items only, in dictionary order")):
        ident = f"fmt.cif.Cif.to_string/{label}_loop/is_map"
        if label == "row" and label not in found and row_comp is not None:
            ctx.pattern(ident, True, clause=clause, detail={"form": "comprehension over zip(*columns): " + ast.unparse(row_comp)[:160]}, fn=f_to)
            continue
        if label not in found:
            ctx.pattern(ident, False, clause=clause, fallback=runtime_counts, fn=f_to,
                        detail={"loops": [ast.unparse(lp.iter) if isinstance(lp, ast.For) else "while" for lp in loops]})
            continue
        ok, detail = frames.map_loop(f_to.node, found[label], {"lines"})
        ctx.pattern(ident, ok, clause=clause, detail=detail, fallback=runtime_counts, fn=f_to)


# ================================================================================================ B
def bounded(ctx):
    rng = np.random.default_rng(ctx.seed + 15)
    cif = N.cifmod()

    # ---- strings: exhaustive over a small alphabet, per position and class ---------------------------------------------------
    alphabet = "a1 '\";_#.-"
    L = 3 if ctx.tier == "quick" else 4
    groups = {}
    for s in N.strings_over(alphabet, L):
        for pos in ("scalar", "loop"):
            c = N.string_class(s, pos)
            if c == "out":
                continue
            g = groups.setdefault((pos, c), {"n": 0, "fails": []})
            for d in N.string_docs(s, pos):
                g["n"] += 1
                ok, obs = N.roundtrip(d)
                if not ok and len(g["fails"]) < 1:
                    g["fails"].append({"input": {"document": repr(d)}, "observed": obs, "key": c,
                                       "clause": f"string value {s!r} in {pos} position round-trips" + ("" if c == "ok" else f" — class '{c}': {N.STRING_CLASSES[c]}")})
    for (pos, c), g in sorted(groups.items()):
        ctx.add_bounded(f"fmt.cif.Cif.roundtrip/bounded/strings/{pos}/{c}",
                        f"every string over {alphabet!r} up to length {L} of class '{c}' in {pos} position" + (" (first / middle / last column, next to quoted fields)" if pos == "loop" else ""),
                        g["n"], g["n"], g["fails"], rule="one evaluation per (string, surrounding document)")

    # ---- seeded documents of Dom ---------------------------------------------------------------------------------------------
    ndocs = 300 if ctx.tier == "quick" else 6000
    fails, distinct = [], set()
    for _ in range(ndocs):
        d = N.rand_doc(rng)
        distinct.add(repr(d))
        ok, obs = N.roundtrip(d)
        if not ok and len(fails) < 3:
            fails.append({"input": {"document": repr(d)[:1500]}, "observed": obs, "key": "document",
                          "clause": "seeded document (loops in the final block): same block names, item names, types, values, aligned columns"})
    ctx.add_bounded("fmt.cif.Cif.roundtrip/bounded/documents", "seeded documents: 1-3 blocks, 0-4 scalars, loop groups by prefix/length with 0-60 rows and 1-4 columns "
                    "of ints |n|<=2^53, floats with non-integral rendering, strings of class ok; loops only in the final block", ndocs, len(distinct), fails,
                    rule="distinct documents")
    fails, cnt = [], 0
    for _ in range(20 if ctx.tier == "quick" else 200):
        d = N.rand_doc(rng, loops_in_last_block_only=False)
        if not N.has_loop_before_last_block(d):
            continue
        cnt += 1
        ok, obs = N.roundtrip(d)
        if not ok and len(fails) < 1:
            fails.append({"input": {"document": repr(d)[:1500]}, "observed": obs, "key": "loop_before_next_block",
                          "clause": "seeded multi-block document with a loop in a non-final block round-trips"})
    ctx.add_bounded("fmt.cif.Cif.roundtrip/bounded/documents_loop_before_next_block", "seeded multi-block documents with a loop in a block that is not the last", cnt, cnt, fails,
                    rule="documents")

    # ---- scalar numbers -------------------------------------------------------------------------------------------------------
    fails, ev = [], 0
    nnum = 400 if ctx.tier == "quick" else 5000
    for i in range(nnum):
        v = N.rand_float(rng, False) if i % 2 else N.rand_int(rng)
        d = {"b": {"k": v, "z": "t"}}
        ev += 1
        ok, obs = N.roundtrip(d)
        if not ok and len(fails) < 2:
            fails.append({"input": {"document": repr(d)}, "observed": obs, "key": "scalar_number", "clause": "scalar int (|n|<=2^53) / non-integral float is read back exactly, same type"})
    ctx.add_bounded("fmt.cif.Cif.roundtrip/bounded/scalar_numbers", "seeded scalar ints |n| <= 2^53 and finite non-integral floats (magnitudes 1e-11..1e6, edge values)", ev, ev, fails,
                    rule="values")
    fails, ev = [], 0
    for v in (2.0, -3.0, 0.0, -0.0, 1e22, 1e15, 100.0, 5e-324 * 0 + 7.0):
        d = {"b": {"k": v}}
        ev += 1
        ok, obs = N.roundtrip(d)
        if not ok and len(fails) < 1:
            fails.append({"input": {"document": repr(d)}, "observed": obs, "key": "integral_float", "clause": "a scalar float with an integral value is read back as a float"})
    ctx.add_bounded("fmt.cif.Cif.roundtrip/bounded/scalar_integral_floats", "scalar floats with integral values: 2.0 -3.0 0.0 -0.0 1e22 1e15 100.0 7.0", ev, ev, fails, rule="values")

    # ---- uncertainty spellings --------------------------------------------------------------------------------------------------
    fails, ev = [], 0
    mants = ["1.234", "-0.5", "12", "+2.50", ".5", "0.000", "1.5e-3", "2E4", "-7.", "1234567.891", "0.10"]
    uncs = ["1", "12", "0", "345"]
    for mt in mants:
        for uu in uncs:
            txt = f"{mt}({uu})"
            ev += 1
            try:
                got = cif.parse_value(txt)
                got2 = cif.parse_value(txt, with_uncertainty=True)
                doc = cif.Cif.from_string(f"data_b\n_k {txt}\nloop_\n_l_a\n_l_b\n{txt} 'a b'\nz {txt}\n#END").data
                want = float(mt)
                ok = isinstance(got, (int, float)) and not isinstance(got, bool) and float(got) == want and got2 == (got, int(uu)) and \
                    doc == {"b": {"k": got, "l_a": [got, "z"], "l_b": ["a b", got]}}
                obs = {"parse_value": repr(got), "with_uncertainty": repr(got2), "document": repr(doc)}
            except Exception as e:  # noqa
                ok, obs = False, {"exception": repr(e)[:200]}
            if not ok and len(fails) < 2:
                fails.append({"input": {"text": txt}, "observed": obs, "key": "uncertainty", "clause": "a numeric value with a standard uncertainty in parentheses parses to the number"})
    ctx.add_bounded("fmt.cif.parse_value/bounded/uncertainty", f"mantissa spellings {mants} x uncertainties {uncs}: parse_value, with_uncertainty=True, and inside parsed text "
                    "(scalar, first and last loop column)", ev, ev, fails, rule="spellings")

    # ---- quoted strings in hand-written text ------------------------------------------------------------------------------------
    fails, ev = [], 0
    inner = ["a b", "P 21/c", "x", "it's a", 'say "hi" now', "a  b", "trail ", "-x, y+1/2, z", "1 2", "#c d", "_e f", "a;b c"]
    for s in inner:
        for q in ("'", '"'):
            if q in s:
                continue
            txt = f"data_b\n_k {q}{s}{q}\nloop_\n_l_a\n_l_b\n_l_c\n{q}{s}{q} 1 z\n2 {q}{s}{q} z\n3 4 {q}{s}{q}\n#END"
            ev += 1
            try:
                doc = cif.Cif.from_string(txt).data
                scalar_ok = doc.get("b", {}).get("k") == s or "  " in s or s.endswith(" ")       # blank runs / trailing blanks in scalars: class blank_run
                ok = scalar_ok and doc["b"].get("l_a") == [s, 2, 3] and doc["b"].get("l_b") == [1, s, 4] and doc["b"].get("l_c") == ["z", "z", s]
                obs = {"read": repr(doc)[:300]}
            except Exception as e:  # noqa
                ok, obs = False, {"exception": repr(e)[:200]}
            if not ok and len(fails) < 2:
                fails.append({"input": {"text": txt}, "observed": obs, "key": "quoted_text", "clause": "quoted strings lose only their quotes (loop fields exactly; scalar fields up to runs of blanks, see class blank_run)"})
    ctx.add_bounded("fmt.cif.Cif.parse/bounded/quoted_text", f"hand-written text with single- and double-quoted values {inner} as scalar and in first/middle/last loop column", ev, ev, fails,
                    rule="texts")
