"""C06 — run-time contracts (tag B) evaluated natively on the real chmpy functions, and the mesh spec functions they use.

Everything here is the *statement* of C06 written as executable predicates:
  closed 2-manifold  : every directed edge occurs once and its reverse occurs once (so every undirected edge is shared by exactly
                       two triangles that traverse it in opposite directions); indices are valid; no triangle repeats an index
  on the level       : every vertex lies in a grid cell whose corner values straddle the level; a vertex with at most one
                       non-integral index coordinate lies at the linear crossing point of that grid edge; the others (the
                       mesher's auxiliary cell-interior vertices) lie inside a straddling cell
  orientation        : 'descent' => right-hand face normals point up the field gradient (negative signed volume in
                       array-index order when the object is greater than the exterior), 'ascent' => exactly the reversed faces
  volume             : the enclosed volume converges to the true one (three nested grids, error decreasing and small)
  surfaces           : promolecule / Hirshfeld surfaces are such meshes in the Cartesian frame of the molecule, oriented outward,
                       enclosing every atom of the molecule and no neighbouring atom, vertices converging to the isovalue.
Tolerances: the kernel stores vertices as float32 (relative 6e-8 of a coordinate < 100 -> 1e-5 absolute in index units; we allow
2e-4 to cover the float32 rounding of the spacing product and of the interpolation weight); densities are float32 tables.
"""
import itertools
import math
import os

import numpy as np

FLOAT32_INDEX_TOL = 2e-4        # index units; see module docstring
INTEGRAL_TOL = 1e-6             # a coordinate closer than this to an integer counts as "on the grid plane"


# ======================================================================================================================
# spec functions on meshes
# ======================================================================================================================
def edge_defects(faces, nverts):
    """Violations of the closed-oriented-2-manifold edge condition.  Returns a dict of counts (all zero == holds)."""
    f = np.asarray(faces)
    out = {"faces": int(len(f)), "bad_shape": 0, "bad_index": 0, "repeated_index_faces": 0, "duplicate_directed_edges": 0,
           "unmatched_directed_edges": 0, "non_integer_dtype": 0}
    if f.ndim != 2 or f.shape[1] != 3 or len(f) == 0:
        out["bad_shape"] = 1
        return out
    if f.dtype.kind not in "iu":
        out["non_integer_dtype"] = 1
        return out
    f = f.astype(np.int64)
    out["bad_index"] = int(np.count_nonzero((f < 0) | (f >= nverts)))
    if out["bad_index"]:
        return out
    out["repeated_index_faces"] = int(np.count_nonzero((f[:, 0] == f[:, 1]) | (f[:, 1] == f[:, 2]) | (f[:, 0] == f[:, 2])))
    a = np.concatenate([f[:, 0], f[:, 1], f[:, 2]])
    b = np.concatenate([f[:, 1], f[:, 2], f[:, 0]])
    n = int(nverts) + 1
    key = a * n + b
    rkey = b * n + a
    uk, cnt = np.unique(key, return_counts=True)
    out["duplicate_directed_edges"] = int(np.count_nonzero(cnt > 1))
    out["unmatched_directed_edges"] = int(np.count_nonzero(~np.isin(rkey, uk)))
    return out


def is_closed_oriented(faces, nverts):
    d = edge_defects(faces, nverts)
    return all(v == 0 for k, v in d.items() if k != "faces"), d


def signed_volume(verts, faces):
    v = np.asarray(verts, dtype=np.float64)
    f = np.asarray(faces, dtype=np.int64)
    return float(np.einsum("ij,ij->i", v[f[:, 0]], np.cross(v[f[:, 1]], v[f[:, 2]])).sum() / 6.0)


def face_normals_areas(verts, faces):
    v = np.asarray(verts, dtype=np.float64)
    f = np.asarray(faces, dtype=np.int64)
    n = np.cross(v[f[:, 1]] - v[f[:, 0]], v[f[:, 2]] - v[f[:, 0]])
    return n, 0.5 * np.linalg.norm(n, axis=1)


def trilinear_gradient(vol, idx_points):
    """Gradient (index units) of the trilinear interpolant of vol at index-space points (N,3), points clipped into the grid."""
    vol = np.asarray(vol, dtype=np.float64)
    n = np.array(vol.shape)
    p = np.minimum(np.maximum(np.asarray(idx_points, dtype=np.float64), 0.0), n - 1.0)
    i0 = np.minimum(np.floor(p).astype(int), n - 2)
    t = p - i0
    g = np.zeros_like(p)
    for d in itertools.product((0, 1), repeat=3):
        val = vol[i0[:, 0] + d[0], i0[:, 1] + d[1], i0[:, 2] + d[2]]
        w = [t[:, c] if d[c] else 1 - t[:, c] for c in range(3)]
        s_ = [1.0 if d[c] else -1.0 for c in range(3)]
        g[:, 0] += s_[0] * w[1] * w[2] * val
        g[:, 1] += w[0] * s_[1] * w[2] * val
        g[:, 2] += w[0] * w[1] * s_[2] * val
    return g


def face_components(faces, nverts):
    """Connected-component label of every face (faces sharing a vertex are connected)."""
    from scipy.sparse import coo_matrix
    from scipy.sparse.csgraph import connected_components
    f = np.asarray(faces, dtype=np.int64)
    i = np.concatenate([f[:, 0], f[:, 1]])
    j = np.concatenate([f[:, 1], f[:, 2]])
    g = coo_matrix((np.ones(len(i)), (i, j)), shape=(nverts, nverts))
    _, lab = connected_components(g, directed=False)
    return lab[f[:, 0]]


def winding_numbers(points, verts, faces):
    """Generalised winding number of a closed oriented mesh around each point (Van Oosterom & Strackee solid angles).
    +1 inside an outward-oriented closed surface, 0 outside."""
    v = np.asarray(verts, dtype=np.float64)
    f = np.asarray(faces, dtype=np.int64)
    out = []
    for p in np.asarray(points, dtype=np.float64):
        a, b, c = v[f[:, 0]] - p, v[f[:, 1]] - p, v[f[:, 2]] - p
        la, lb, lc = np.linalg.norm(a, axis=1), np.linalg.norm(b, axis=1), np.linalg.norm(c, axis=1)
        num = np.einsum("ij,ij->i", a, np.cross(b, c))
        den = la * lb * lc + np.einsum("ij,ij->i", a, b) * lc + np.einsum("ij,ij->i", b, c) * la + np.einsum("ij,ij->i", c, a) * lb
        out.append(float(np.sum(2.0 * np.arctan2(num, den)) / (4.0 * math.pi)))
    return np.array(out)


def level_defects(vol32, level, idx_verts, tol=FLOAT32_INDEX_TOL):
    """Clause 'every vertex inside a grid cell whose corner values straddle the level (at the crossing point of a grid edge, except
    for the auxiliary cell-interior vertices)'.  vol32 is the float32 volume the kernel saw; idx_verts are vertices in index units.
    Returns (dict of counts, worst crossing error, number of auxiliary vertices)."""
    vol = np.asarray(vol32, dtype=np.float64)
    level = float(level)
    n = np.array(vol.shape)
    p = np.asarray(idx_verts, dtype=np.float64)
    out = {"outside_grid": 0, "no_straddling_cell": 0, "edge_does_not_straddle": 0, "not_at_crossing": 0}
    worst, aux = 0.0, 0
    if len(p) == 0:
        return out, worst, aux
    out["outside_grid"] = int(np.count_nonzero((p < -tol) | (p > n - 1 + tol)))
    if out["outside_grid"]:
        return out, worst, aux
    r = np.rint(p)
    frac = np.abs(p - r) > INTEGRAL_TOL
    nfrac = frac.sum(axis=1)
    for k in range(len(p)):
        q = p[k]
        if nfrac[k] <= 1:
            # vertex on a grid edge (or on a node): the edge along the fractional axis (any edge through the node if none)
            axes = [int(np.argmax(frac[k]))] if nfrac[k] == 1 else [0, 1, 2]
            ok_straddle, best = False, None
            for ax in axes:
                base = r[k].astype(int)
                cands = []
                if nfrac[k] == 1:
                    base[ax] = int(math.floor(q[ax]))
                    cands.append(base.copy())
                else:
                    for s in (0, -1):
                        b2 = base.copy()
                        b2[ax] += s
                        cands.append(b2)
                for a0 in cands:
                    a1 = a0.copy()
                    a1[ax] += 1
                    if np.any(a0 < 0) or np.any(a1 > n - 1):
                        continue
                    va, vb = vol[tuple(a0)] - level, vol[tuple(a1)] - level
                    if (va > 0) != (vb > 0):     # the kernel's own inside test is `v - level > 0`
                        ok_straddle = True
                        t = abs(va) / (abs(va) + abs(vb))
                        err = abs((q[ax] - a0[ax]) - t)
                        best = err if best is None else min(best, err)
            if not ok_straddle:
                out["edge_does_not_straddle"] += 1
            else:
                worst = max(worst, best)
                if best > tol:
                    out["not_at_crossing"] += 1
        else:
            # auxiliary cell-interior vertex (inverse-|value|-weighted mean of the 8 corners of its cell): some closed cell containing it straddles
            aux += 1
            found = False
            lo = np.floor(q - INTEGRAL_TOL).astype(int)
            hi = np.floor(q + INTEGRAL_TOL).astype(int)
            for c0 in itertools.product(*[sorted({int(a), int(b)}) for a, b in zip(lo, hi)]):
                c0 = np.minimum(np.maximum(np.array(c0), 0), n - 2)
                cube = vol[c0[0]:c0[0] + 2, c0[1]:c0[1] + 2, c0[2]:c0[2] + 2] - level
                if (cube > 0).any() and (cube <= 0).any():
                    found = True
                    break
            if not found:
                out["no_straddling_cell"] += 1
    return out, worst, aux


# ======================================================================================================================
# failure collection
# ======================================================================================================================
class Outcome:
    def __init__(self):
        self.evaluations = 0
        self.cases = 0
        self.by_key = {}
        self.stats = {}

    def fail(self, key, clause, inp, observed):
        if key not in self.by_key:
            self.by_key[key] = {"key": key, "clause": clause, "input": inp, "observed": observed}

    def as_list(self):
        return list(self.by_key.values())[:3]

    def note(self, k, v):
        self.stats[k] = v


def _mc():
    from chmpy.mc import marching_cubes
    return marching_cubes


# ======================================================================================================================
# B1: every sign configuration of an interior 2x2x2 block
# ======================================================================================================================
CORNERS = [(0, 0, 0), (1, 0, 0), (1, 1, 0), (0, 1, 0), (0, 0, 1), (1, 0, 1), (1, 1, 1), (0, 1, 1)]   # (x,y,z) of v0..v7 in the kernel


def config_volume(cfg, mags, pad, shape_extra, low):
    """Volume (z,y,x order like the kernel's im[z,y,x]) whose interior 2x2x2 block has sign configuration cfg (bit i <-> corner v_i
    above the level 0) with magnitudes mags[i]; everything else is `low` (< 0), so the level set stays away from the boundary."""
    nz, ny, nx = [2 + 2 * pad + e for e in shape_extra]
    vol = np.full((nz, ny, nx), low, dtype=np.float64)
    for i, (x, y, z) in enumerate(CORNERS):
        inside = (cfg >> i) & 1
        vol[pad + z, pad + y, pad + x] = mags[i] if inside else -mags[i]
    return vol


def check_mc_mesh(out, vol, level, spacing, direction, inp, expect_sign=None, idx_tol=FLOAT32_INDEX_TOL):
    """The marching_cubes contract on one call.  Returns (verts, faces, signed volume) or None if a structural clause failed."""
    marching_cubes = _mc()
    out.evaluations += 1
    try:
        verts, faces, normals, values = marching_cubes(vol, level, spacing=spacing, gradient_direction=direction)
    except Exception as e:  # noqa
        out.fail("raises", "marching_cubes returns a mesh for a level inside the data range whose level set avoids the boundary", inp, f"raised {type(e).__name__}: {e}")
        return None
    verts = np.asarray(verts)
    if verts.ndim != 2 or verts.shape[1] != 3 or not np.all(np.isfinite(verts)):
        out.fail("vertex_array", "vertices are a finite (V,3) array", inp, f"shape {verts.shape}")
        return None
    ok, d = is_closed_oriented(faces, len(verts))
    if not ok:
        out.fail("closed_manifold", "every edge is shared by exactly two triangles, traversed in opposite directions; indices valid", inp, d)
        return None
    faces = np.asarray(faces)
    if len(normals) != len(verts) or len(values) != len(verts):
        out.fail("per_vertex_arrays", "normals and values have one row per vertex", inp, {"verts": len(verts), "normals": len(normals), "values": len(values)})
    used = np.zeros(len(verts), dtype=bool)
    used[faces.reshape(-1)] = True
    if not used.all():
        out.fail("unused_vertices", "every vertex belongs to a triangle", inp, {"unused": int((~used).sum())})
    vol32 = np.ascontiguousarray(vol, np.float32)
    idx = verts.astype(np.float64) / np.asarray(spacing, dtype=np.float64)
    dd, worst, aux = level_defects(vol32, level, idx, tol=idx_tol)
    out.stats["aux_vertices"] = out.stats.get("aux_vertices", 0) + aux
    out.stats["worst_crossing_error"] = max(out.stats.get("worst_crossing_error", 0.0), worst)
    if any(dd.values()):
        out.fail("on_level", "every vertex lies in a cell whose corners straddle the level: at the crossing point of a grid edge (coordinate order = array axes, scaled by spacing), "
                 "or inside the cell for the auxiliary vertices", inp, {**dd, "worst_crossing_error_index_units": worst})
    sv = signed_volume(verts, faces)
    if expect_sign is not None and not (sv * expect_sign > 0):
        out.fail("orientation", f"gradient_direction={direction!r}: signed volume (right-hand rule, array-axis coordinate order) has sign {expect_sign:+d} for an object greater than its exterior", inp,
                 {"signed_volume": sv})
    return verts, faces, sv


def run_no_degenerate(seed):
    """marching_cubes(..., allow_degenerate=False) on integer-valued fields whose level passes exactly through grid nodes (so zero-area triangles exist and vertices are
    merged): the compacted mesh is still a mesh of the same surface -- face indices valid and pointing at nearby vertices, one normal / value per vertex, the same signed
    volume as with the degenerate triangles kept."""
    marching_cubes = _mc()
    out = Outcome()
    rng = np.random.default_rng(seed + 606)
    for case in range(6):
        n = int(rng.integers(14, 20))
        g = np.arange(n) - (n - 1) // 2
        X, Y, Z = np.meshgrid(g, g, g, indexing="ij")
        a, b, c = (int(v) for v in rng.integers(1, 3, 3))
        vol = (a * X * X + b * Y * Y + c * Z * Z).astype(np.float32)
        level = float(rng.choice([16, 25, 32, 36]))
        spacing = tuple(float(v) for v in rng.choice([0.5, 0.7, 1.0, 1.1], 3))
        inp = {"field": f"{a} x^2 + {b} y^2 + {c} z^2 on {n}^3 integer nodes", "level": level, "spacing": spacing, "allow_degenerate": False}
        out.evaluations += 1
        out.cases += 1
        try:
            v0, f0, _, _ = marching_cubes(vol, level, spacing=spacing, allow_degenerate=True)
            v1, f1, n1, w1 = marching_cubes(vol, level, spacing=spacing, allow_degenerate=False)
        except Exception as e:  # noqa
            out.fail("raises", "marching_cubes returns with allow_degenerate=False", inp, f"raised {type(e).__name__}: {e}")
            continue
        v1, f1 = np.asarray(v1, dtype=float), np.asarray(f1)
        if len(f1) == 0 or f1.min() < 0 or f1.max() >= len(v1) or len(n1) != len(v1) or len(w1) != len(v1):
            out.fail("arrays", "face indices are valid and normals / values have one row per vertex", inp, {"vertices": len(v1), "normals": len(n1), "values": len(w1), "max_index": int(f1.max()) if len(f1) else None})
            continue
        ext = np.abs(v1[f1] - v1[f1][:, [1, 2, 0]]).max(axis=(0, 1)) / np.asarray(spacing)
        if ext.max() > 1.0 + 1e-4:          # (vertex coordinates are float32)
            out.fail("triangle_in_one_cell", "every triangle lies within one grid cell (its corners are at most one cell apart along each axis)", inp, {"largest_extent_in_cells": ext.tolist()})
            continue
        s0, s1 = signed_volume(np.asarray(v0, dtype=float), np.asarray(f0)), signed_volume(v1, f1)
        if not abs(s0 - s1) <= 1e-6 * abs(s0):
            out.fail("same_surface", "removing zero-area triangles does not change the enclosed volume", inp, {"with_degenerate_triangles": s0, "without": s1})
    return out


def run_configs(seed, n_mag, spacings, pads_extras):
    """All 255 non-empty sign configurations x magnitude patterns x both directions, spacings and grid shapes rotating."""
    rng = np.random.default_rng(seed + 606)
    out = Outcome()
    tilings = {}
    for cfg in range(1, 256):
        for m in range(n_mag):
            if m == 0:
                mags = np.ones(8)
            elif m == 1:
                mags = np.where(np.arange(8) % 2 == 0, 0.15, 3.0)
            elif m == 2:
                mags = np.where(np.arange(8) % 2 == 0, 3.0, 0.15)
            else:
                mags = np.exp(rng.uniform(-2.5, 2.5, size=8))
            pad, extra = pads_extras[(cfg + m) % len(pads_extras)]
            low = -float(np.exp(rng.uniform(-2.0, 1.0))) if m else -1.0
            vol = config_volume(cfg, mags, pad, extra, low)
            spacing = spacings[(cfg + 3 * m) % len(spacings)]
            inp = {"config": cfg, "magnitudes": [float(x) for x in mags], "low": low, "pad": pad, "shape": list(vol.shape), "spacing": list(spacing), "level": 0.0,
                   "generator": "c06_native.config_volume"}
            res = {}
            for direction, sign in (("descent", -1), ("ascent", +1)):
                r = check_mc_mesh(out, vol, 0.0, spacing, direction, {**inp, "gradient_direction": direction}, expect_sign=sign)
                if r is not None:
                    res[direction] = r
            if len(res) == 2:
                (v1, f1, s1), (v2, f2, s2) = res["descent"], res["ascent"]
                if v1.shape != v2.shape or not np.array_equal(v1, v2) or not np.array_equal(f1, f2[:, ::-1]):
                    out.fail("direction_flip", "'ascent' and 'descent' give the same vertices and exactly reversed triangles", inp,
                             {"descent_faces": f1[:3].tolist(), "ascent_faces": f2[:3].tolist()})
                tilings.setdefault(cfg, set()).add(len(f1))
            out.cases += 1
    out.note("configs_with_more_than_one_tiling", sum(1 for v in tilings.values() if len(v) > 1))
    return out


# ======================================================================================================================
# B2: smooth multi-blob fields
# ======================================================================================================================
def blob_field(rng, shape, spacing):
    """Sum of anisotropic Gaussians centred well inside the grid, each at least 1.6 cells wide along every principal axis (so the
    level set is resolved by the grid whatever the spacing).  Built in index space; physical point = index * spacing.
    Returns (volume, field function of physical points, gradient function of physical points)."""
    shape = np.array(shape)
    sp = np.asarray(spacing, dtype=np.float64)
    nb = int(rng.integers(1, 6))
    cs, As, ws = [], [], []
    for _ in range(nb):
        sig = rng.uniform(1.6, max(1.7, 0.13 * shape.min()), size=3)
        c = rng.uniform(0.36, 0.64, size=3) * (shape - 1)
        q, _ = np.linalg.qr(rng.normal(size=(3, 3)))
        A = q @ np.diag(1.0 / sig ** 2) @ q.T
        cs.append(c)
        As.append(A)
        ws.append(rng.uniform(0.6, 1.6) * (1 if rng.random() < 0.85 else -0.5))
    if max(ws) <= 0:
        ws[0] = 1.0
    g = np.stack(np.meshgrid(*[np.arange(n, dtype=np.float64) for n in shape], indexing="ij"), axis=-1)

    def f_idx(p):
        tot = np.zeros(p.shape[:-1])
        for c, A, w in zip(cs, As, ws):
            d = p - c
            tot += w * np.exp(-0.5 * np.einsum("...i,ij,...j->...", d, A, d))
        return tot

    def f(p):
        return f_idx(np.asarray(p, dtype=np.float64) / sp)

    def grad(p):
        q_ = np.asarray(p, dtype=np.float64) / sp
        tot = np.zeros(q_.shape)
        for c, A, w in zip(cs, As, ws):
            d = q_ - c
            e = w * np.exp(-0.5 * np.einsum("...i,ij,...j->...", d, A, d))
            tot += -(e[..., None]) * np.einsum("ij,...j->...i", A, d)
        return tot / sp
    return f_idx(g), f, grad


def boundary_max(vol):
    return max(vol[0].max(), vol[-1].max(), vol[:, 0].max(), vol[:, -1].max(), vol[:, :, 0].max(), vol[:, :, -1].max())


DEGENERATE_WITNESS = {
    # 3x3x3 block of float32 samples (axis order as stored) cut out of seeded field 209 of the thorough tier; the centre sample IS the level
    "block": [0.20714187622070312, 0.29168298840522766, 0.4398778975009918, 0.14519952237606049, 0.21117138862609863, 0.391539067029953, 0.03576524183154106,
              0.06547798961400986, 0.2571053206920624, 0.19412066042423248, 0.30957528948783875, 0.4775535762310028, 0.17050717771053314, 0.28945016860961914,
              0.4983169734477997, 0.09843506664037704, 0.19659224152565002, 0.42226332426071167, 0.1684979945421219, 0.2802228331565857, 0.4214673638343811,
              0.17450349032878876, 0.3030649423599243, 0.48355016112327576, 0.14068958163261414, 0.26362061500549316, 0.46305766701698303],
    "level": 0.28945016860961914,
}


def degenerate_witness_volume():
    blk = np.array(DEGENERATE_WITNESS["block"], dtype=np.float32).reshape(3, 3, 3)
    vol = np.full((5, 5, 5), float(blk.min()) - 1.0, dtype=np.float32)
    vol[1:4, 1:4, 1:4] = blk
    return vol, DEGENERATE_WITNESS["level"]


def run_blobs(seed, n_fields, max_n, exact=False):
    """exact=False: generic levels (never equal to a sample).  exact=True: the level IS one of the interior float32 sample values
    (degenerate crossing: vertices fall on grid nodes, zero-area triangles appear) — same contract, separate domain and failure key."""
    rng = np.random.default_rng(seed + (60606 if not exact else 90909))
    out = Outcome()
    done, attempts, worst_cos = 0, 0, 1.0
    checked_faces = all_faces = components = against = 0
    closed_key = "degenerate_level_not_closed" if exact else "closed_manifold"
    if exact:
        vol, level = degenerate_witness_volume()
        inp = {"volume": "c06_native.degenerate_witness_volume(): 3x3x3 float32 block " + str(DEGENERATE_WITNESS["block"]) + " padded to 5x5x5 with (min - 1)", "level": level,
               "level_is_a_sample_value": True, "spacing": [1.0, 1.0, 1.0]}
        o2 = Outcome()
        for direction, sign in (("descent", -1), ("ascent", 1)):
            check_mc_mesh(o2, vol, level, (1.0, 1.0, 1.0), direction, {**inp, "gradient_direction": direction}, expect_sign=sign)
        out.evaluations += o2.evaluations
        out.cases += 1
        for k, w in o2.by_key.items():
            k2 = closed_key if k == "closed_manifold" else k
            out.by_key.setdefault(k2, {**w, "key": k2})
    while done < n_fields and attempts < 20 * n_fields:
        attempts += 1
        shape = tuple(int(x) for x in rng.integers(9, max_n + 1, size=3))
        spacing = tuple(float(x) for x in np.exp(rng.uniform(-1.2, 0.8, size=3)))
        if done % 7 == 0:
            spacing = (1.0, 1.0, 1.0)
        vol, f, grad = blob_field(rng, shape, spacing)
        vol32 = np.ascontiguousarray(vol, np.float32)
        floor = max(float(boundary_max(vol32)), 0.0)       # the level set must not reach the boundary: level above every boundary value
        vmax = float(vol32.max())
        if not vmax > floor * 1.5 + 1e-3:
            continue
        level = float(rng.uniform(floor + 0.15 * (vmax - floor), floor + 0.6 * (vmax - floor)))
        if exact:
            inner = vol32[1:-1, 1:-1, 1:-1]
            level = float(inner.ravel()[int(np.argmin(np.abs(inner.ravel() - level)))])
        elif np.any(vol32 == np.float32(level)):
            continue
        inp = {"seed": int(seed), "field": done, "attempt": attempts, "shape": list(shape), "spacing": list(spacing), "level": level, "level_is_a_sample_value": bool(exact),
               "generator": "c06_native.run_blobs(exact=%s) / blob_field" % exact}
        res = {}
        o2 = Outcome()
        for direction, sign in (("descent", -1), ("ascent", 1)):
            # the level is positive and above every boundary value, and the field is a sum of Gaussians decaying outward: the mesh bounds the
            # region above the level (pockets below the level inside it only reduce |volume|), so the sign of the total volume is fixed
            r = check_mc_mesh(o2, vol, level, spacing, direction, {**inp, "gradient_direction": direction}, expect_sign=sign)
            if r is not None:
                res[direction] = r
        out.evaluations += o2.evaluations
        for k, w in o2.by_key.items():
            k2 = closed_key if k == "closed_manifold" else k
            out.by_key.setdefault(k2, {**w, "key": k2})
        for k, v_ in o2.stats.items():
            out.stats[k] = max(out.stats.get(k, 0), v_) if k == "worst_crossing_error" else out.stats.get(k, 0) + v_
        if len(res) == 2:
            (v1, f1, s1), (v2, f2, s2) = res["descent"], res["ascent"]
            if not np.array_equal(v1, v2) or not np.array_equal(f1, f2[:, ::-1]):
                out.fail("direction_flip", "'ascent' and 'descent' give the same vertices and exactly reversed triangles", inp, {"volumes": [s1, s2]})
            if not exact:
                # orientation face by face against the gradient of the SAMPLED field (trilinear interpolant of the float32 volume, which is what
                # the mesher approximates; the analytic gradient is unreliable at sub-cell features): 'descent' => right-hand normals point up the gradient
                nrm, area = face_normals_areas(v1, f1)
                cen = v1[f1].astype(np.float64).mean(axis=1)
                sp = np.asarray(spacing, dtype=np.float64)
                gr = trilinear_gradient(vol32, cen / sp) / sp
                cosv = np.einsum("ij,ij->i", nrm, gr) / (np.linalg.norm(nrm, axis=1) * np.linalg.norm(gr, axis=1) + 1e-300)
                # The mesh is edge-consistent, so each connected component is oriented as a whole: its area-weighted mean cosine decides.
                # (Single faces may legitimately oppose the interpolant's gradient: Lewiner's interior test can open a tunnel through a cell
                # that the trilinear interpolant does not have; the statement does not forbid that, it is reported as a statistic only.)
                lab_ = face_components(f1, len(v1))
                for c in np.unique(lab_):
                    m = lab_ == c
                    mean_cos = float((cosv[m] * area[m]).sum() / (area[m].sum() + 1e-300))
                    worst_cos = min(worst_cos, mean_cos)
                    components += 1
                    if not mean_cos > 0:
                        out.fail("orientation_components", "gradient_direction='descent': on every connected component the right-hand face normals point up the gradient of the sampled field "
                                 "(area-weighted mean cosine with the trilinear interpolant's gradient > 0)", inp, {"component_faces": int(m.sum()), "mean_cosine": mean_cos, "components": int(len(np.unique(lab_)))})
                        break
                big = area > 1e-3 * float(np.prod(spacing)) ** (2.0 / 3.0)
                checked_faces += int(big.sum())
                all_faces += int(len(f1))
                against += int((cosv[big] < -0.5).sum())
        done += 1
        out.cases += 1
    out.note("worst_component_mean_cosine", worst_cos)
    out.note("components", components)
    out.note("faces_compared_with_gradient", checked_faces)
    out.note("faces_against_gradient", against)
    out.note("faces_total", all_faces)
    if done < n_fields:
        out.fail("generator", "the seeded generator produces the requested number of fields", {"seed": seed}, {"done": done})
    return out


# ======================================================================================================================
# B3: enclosed volume converges
# ======================================================================================================================
def run_volume_convergence(seed, n_bodies):
    rng = np.random.default_rng(seed + 6)
    out = Outcome()
    worst_final, worst_ratio = 0.0, 0.0
    for b in range(n_bodies):
        semi = rng.uniform(0.55, 1.0, size=3)
        q, _ = np.linalg.qr(rng.normal(size=(3, 3)))
        M = q @ np.diag(1.0 / semi) @ q.T
        true_v = 4.0 / 3.0 * math.pi * float(np.prod(semi))
        box = 2.9
        aniso = np.exp(rng.uniform(-0.35, 0.35, size=3))
        off = rng.uniform(-0.05, 0.05, size=3)
        errs = []
        for n0 in (10, 20, 40):
            ns = [max(6, int(round(n0 * a))) for a in aniso]
            spacing = tuple(box / (n - 1) for n in ns)
            g = np.stack(np.meshgrid(*[np.arange(n) * s - box / 2 for n, s in zip(ns, spacing)], indexing="ij"), axis=-1) - off
            vol = 1.0 - np.sqrt(np.einsum("...i,ij,...j->...", g, M @ M, g))
            direction = "descent" if b % 2 == 0 else "ascent"
            inp = {"seed": int(seed), "body": b, "semi_axes": semi.tolist(), "grid": ns, "spacing": list(spacing), "gradient_direction": direction,
                   "generator": "c06_native.run_volume_convergence"}
            r = check_mc_mesh(out, vol, 0.0, spacing, direction, inp, expect_sign=-1 if direction == "descent" else 1)
            if r is None:
                errs = None
                break
            errs.append(abs(abs(r[2]) - true_v) / true_v)
        out.cases += 1
        if errs is None:
            continue
        worst_final = max(worst_final, errs[2])
        worst_ratio = max(worst_ratio, errs[2] / errs[0])
        if not (errs[2] < errs[1] < errs[0] and errs[2] < 0.25 * errs[0] and errs[2] < 0.02):
            out.fail("volume_convergence", "enclosed volume converges to the true one: relative error decreasing over grids n, 2n, 4n, final error < 2% and < error(n)/4",
                     {"seed": int(seed), "body": b, "semi_axes": semi.tolist(), "true_volume": true_v}, {"relative_errors": errs})
    out.note("worst_final_relative_volume_error", worst_final)
    out.note("worst_error_ratio_4n_over_n", worst_ratio)
    return out


# ======================================================================================================================
# B4: level range check and argument validation of the wrapper
# ======================================================================================================================
def run_wrapper_errors(seed):
    rng = np.random.default_rng(seed + 66)
    out = Outcome()
    marching_cubes = _mc()
    vol = rng.normal(size=(5, 6, 7))

    def expect(exc, key, clause, *a, **k):
        out.evaluations += 1
        out.cases += 1
        try:
            marching_cubes(*a, **k)
        except exc:
            return
        except Exception as e:  # noqa
            out.fail(key, clause, {"call": key}, f"raised {type(e).__name__}: {e}")
            return
        out.fail(key, clause, {"call": key}, "returned normally")
    expect(ValueError, "level_above", "a level above the data range raises ValueError", vol, float(vol.max()) + 1e-3)
    expect(ValueError, "level_below", "a level below the data range raises ValueError", vol, float(vol.min()) - 1e-3)
    expect(ValueError, "bad_direction", "an unknown gradient_direction raises ValueError", vol, 0.0, gradient_direction="sideways")
    expect(ValueError, "bad_ndim", "a 2-D volume raises ValueError", vol[0], 0.0)
    expect(ValueError, "bad_spacing", "a spacing that is not three numbers raises ValueError", vol, 0.0, spacing=(1.0, 1.0))
    # the default level (mid-range) on volumes of other dtypes: an interior blob sampled as uint8 / int16 / float32 / bool-like 0-1 integers gives the same closed mesh
    g = np.linspace(-1.0, 1.0, 9)
    X, Y, Z = np.meshgrid(g, g, g, indexing="ij")
    blob = np.exp(-3.0 * (X * X + 1.4 * Y * Y + 0.8 * Z * Z))
    ref = None
    for dt, scale, offset in (("float64", 200.0, 0.0), ("float32", 200.0, 50.0), ("uint8", 200.0, 0.0), ("uint8", 150.0, 100.0), ("int8", 100.0, 20.0), ("int16", 20000.0, 10000.0),
                              ("uint16", 30000.0, 30000.0), ("int32", 1000.0, 0.0)):
        out.evaluations += 1
        out.cases += 1
        volume = (np.round(blob * scale) + offset).astype(dt)        # several of these have min + max beyond the dtype's own range
        inp = {"call": "marching_cubes(volume)  # level=None", "dtype": dt, "volume": "9x9x9 Gaussian blob scaled to the dtype's range", "min": float(volume.min()), "max": float(volume.max())}
        try:
            res = marching_cubes(volume)
            verts, faces = np.asarray(res[0], dtype=float), np.asarray(res[1])
            ok, d = is_closed_oriented(faces, len(verts))
            lvl = 0.5 * (float(volume.min()) + float(volume.max()))
            inside = float(abs(signed_volume(verts, faces)))
            voxels = float((volume.astype(float) > lvl).sum())
            if not ok or not (0.3 * voxels <= inside <= 3.0 * voxels + 8):
                out.fail("default_level_dtype", "with the default level (mid-range of the data) an interior blob gives a closed mesh around the voxels above mid-range, whatever the sample dtype", inp,
                         {"closed": ok, "enclosed_volume": inside, "voxels_above_mid_range": voxels, **(d if isinstance(d, dict) else {})})
        except Exception as e:  # noqa
            out.fail("default_level_dtype", "with the default level (mid-range of the data) an interior blob of any numeric dtype is meshed", inp, f"raised {type(e).__name__}: {e}")
    return out


# ======================================================================================================================
# B5/B6: promolecule and Hirshfeld surfaces
# ======================================================================================================================
def test_file(name):
    import chmpy
    return os.path.join(os.path.dirname(chmpy.__file__), "tests", "test_files", name)


def generated_molecule(rng, k):
    """Small random-walk molecule of C/N/O/S/F with hydrogens, bonded distances 1.0-1.8 A."""
    n_heavy = int(rng.integers(1, 7))
    els, pos = [], []
    for i in range(n_heavy):
        z = int(rng.choice([6, 6, 7, 8, 16, 9]))
        if i == 0:
            p = rng.uniform(-3, 3, size=3)
        else:
            j = int(rng.integers(0, len(pos)))
            for _ in range(50):
                d = rng.normal(size=3)
                p = pos[j] + d / np.linalg.norm(d) * rng.uniform(1.3, 1.8)
                if all(np.linalg.norm(p - q) > 1.2 for q in pos):
                    break
        els.append(z)
        pos.append(p)
    nh = int(rng.integers(0, 5))
    for _ in range(nh):
        j = int(rng.integers(0, n_heavy))
        for _ in range(50):
            d = rng.normal(size=3)
            p = pos[j] + d / np.linalg.norm(d) * 1.0
            if all(np.linalg.norm(p - q) > 0.9 for q in pos):
                break
        els.append(1)
        pos.append(p)
    return np.array(els, dtype=int), np.array(pos, dtype=float)


def cell_straddles(field, lower, sep, verts, level):
    """For Cartesian vertices: does a grid cell (nodes lower + i*sep, Cartesian x,y,z) containing the vertex have corner field values
    straddling the level?  The field is re-evaluated at the Cartesian corners, so a wrong index->Cartesian mapping of the vertices
    (axis swap, origin, spacing) is seen.  A vertex within 1e-3 cell widths of a cell boundary may use either neighbouring cell."""
    v = np.asarray(verts, dtype=np.float64)
    rel = (v - lower) / sep
    i0 = np.maximum(np.floor(rel).astype(int), 0)
    t = rel - i0
    ok = np.zeros(len(v), dtype=bool)
    for shift in itertools.product((0, -1, 1), repeat=3):
        sh = np.array(shift)
        adm = ~ok           # a shifted cell is admissible only where the vertex is on (close to) the corresponding boundary
        for ax in range(3):
            if sh[ax] == -1:
                adm = adm & (t[:, ax] < 1e-3)
            elif sh[ax] == 1:
                adm = adm & (t[:, ax] > 1 - 1e-3)
        if not adm.any():
            continue
        j0 = i0[adm] + sh
        vals = []
        for d in itertools.product((0, 1), repeat=3):
            corner = lower + (j0 + np.array(d)) * sep
            vals.append(np.asarray(field(np.ascontiguousarray(corner, dtype=np.float32)), dtype=np.float64))
        vals = np.array(vals)
        good = (vals.max(axis=0) >= level) & (vals.min(axis=0) <= level)
        idx = np.nonzero(adm)[0]
        ok[idx[good]] = True
    return ok


def crossing_defects(field, bb, sep, verts, level):
    """Unsmoothed surfaces: a vertex with exactly one non-integral grid coordinate lies on the grid edge between two nodes a, b of the
    Cartesian lattice (x_i, y_j, z_k) = float32 knots arange(lower, upper, sep) per axis (the specification of the sampling grid, built
    here independently); the field values re-evaluated at a and b must straddle the level and their linear interpolant at the vertex
    must BE the level: |f_a + t (f_b - f_a) - level| <= 1e-3 |f_b - f_a| (vertex coordinates pass through float32: t is exact to ~1e-5).
    Returns (number of edge vertices, non-straddling count, off-level count, worst normalised residual)."""
    lo32, up32 = bb
    knots = [np.arange(lo32[i], up32[i], sep, dtype=np.float32) for i in range(3)]
    lower = np.asarray(lo32, dtype=np.float64)
    v = np.asarray(verts, dtype=np.float64)
    rel = (v - lower) / sep
    r = np.rint(rel)
    frac = np.abs(rel - r) > 1e-4
    sel = np.nonzero(frac.sum(axis=1) == 1)[0]
    if len(sel) == 0:
        return 0, 0, 0, 0.0
    rows = np.arange(len(sel))
    ax = np.argmax(frac[sel], axis=1)
    a = r[sel].astype(int)
    a[rows, ax] = np.floor(rel[sel, ax]).astype(int)
    b = a.copy()
    b[rows, ax] += 1
    nk = np.array([len(k) for k in knots])
    inside = np.all(a >= 0, axis=1) & np.all(b < nk, axis=1)
    outside = int((~inside).sum())
    a, b, ax, sel, rows = a[inside], b[inside], ax[inside], sel[inside], np.arange(int(inside.sum()))
    if len(sel) == 0:
        return 0, outside, 0, 0.0
    t = rel[sel, ax] - a[rows, ax]
    pa = np.stack([knots[c][a[:, c]] for c in range(3)], axis=1)
    pb = np.stack([knots[c][b[:, c]] for c in range(3)], axis=1)
    fa = np.asarray(field(np.ascontiguousarray(pa, dtype=np.float32)), dtype=np.float64)
    fb = np.asarray(field(np.ascontiguousarray(pb, dtype=np.float32)), dtype=np.float64)
    span = np.abs(fb - fa)
    nostr = ((fa > level) == (fb > level))
    resid = np.abs(fa + t * (fb - fa) - level)
    off = resid > 1e-3 * span + 1e-9 * abs(level)
    return len(sel) + outside, int(nostr.sum()) + outside, int(off.sum()), float(np.max(resid / (span + 1e-300)))


def check_surface(out, kind, name, sep, iso, isovalue, field, lower, upper, own_pos, other_pos, inp, smoothing, residual_log, bb32=None):
    """The surface contract on one IsosurfaceMesh."""
    verts = np.asarray(iso.vertices, dtype=np.float64)
    faces = np.asarray(iso.faces)
    ok, d = is_closed_oriented(faces, len(verts))
    if not ok:
        out.fail(f"{kind}_closed", f"{kind} surface is a closed consistently oriented mesh (every edge in exactly two triangles, opposite directions)", inp, d)
        return
    sv = signed_volume(verts, faces)
    if not sv > 0:
        out.fail(f"{kind}_outward", f"{kind} surface is oriented outward in the Cartesian frame (positive signed volume: the object is greater than the exterior, mesher run with 'descent')", inp,
                 {"signed_volume": sv})
    if np.any(verts < lower - 1e-3) or np.any(verts > upper + 1e-3):
        out.fail(f"{kind}_inside_box", f"{kind} surface vertices lie inside the sampling box of the molecule (Cartesian frame)", inp,
                 {"min": verts.min(axis=0).tolist(), "max": verts.max(axis=0).tolist(), "box": [lower.tolist(), upper.tolist()]})
    w_own = winding_numbers(own_pos, verts, faces)
    if np.any(np.abs(w_own - 1.0) > 0.01):
        k = int(np.argmax(np.abs(w_own - 1.0)))
        out.fail(f"{kind}_encloses_atoms", f"{kind} surface encloses every atom of the molecule (winding number 1)", inp, {"atom": k, "position": own_pos[k].tolist(), "winding_number": float(w_own[k])})
    if other_pos is not None and len(other_pos):
        near = np.all((other_pos > lower - 0.5) & (other_pos < upper + 0.5), axis=1)   # only these can possibly be enclosed
        if near.any():
            w_o = winding_numbers(other_pos[near], verts, faces)
            if np.any(np.abs(w_o) > 0.01):
                k = int(np.argmax(np.abs(w_o)))
                out.fail(f"{kind}_excludes_neighbours", f"{kind} surface encloses no neighbouring atom (winding number 0)", inp,
                         {"neighbour_position": other_pos[near][k].tolist(), "winding_number": float(w_o[k])})
    fv = np.asarray(field(np.ascontiguousarray(verts, dtype=np.float32)), dtype=np.float64)
    res = float(np.max(np.abs(fv - isovalue)) / isovalue)
    residual_log.setdefault((name, smoothing), {})[sep] = res
    if smoothing is None:
        okc = cell_straddles(field, lower, sep, verts, isovalue)
        if not okc.all():
            k = int(np.nonzero(~okc)[0][0])
            out.fail(f"{kind}_vertex_cell", f"every {kind} surface vertex lies in a grid cell (origin = lower corner of the box, spacing = separation, Cartesian x,y,z) whose corner values straddle the isovalue", inp,
                     {"vertices_outside_straddling_cells": int((~okc).sum()), "of": len(verts), "first": verts[k].tolist()})
        n_edge, nostr, off, worst = crossing_defects(field, bb32, sep, verts, isovalue)
        out.stats["worst_cartesian_crossing_residual"] = max(out.stats.get("worst_cartesian_crossing_residual", 0.0), worst)
        if nostr or off or n_edge < 0.9 * len(verts):
            out.fail(f"{kind}_on_level", f"unsmoothed {kind} surface vertices lie at the crossing points of grid edges (Cartesian lattice lower + (i,j,k) * sep): the end values straddle the requested isovalue "
                     "and their linear interpolant at the vertex equals it (1e-3 of the edge's value span)", inp,
                     {"edge_vertices": n_edge, "of": len(verts), "not_straddling": nostr, "off_level": off, "worst_residual_over_span": worst})
    return sv


def residuals_converge(out, kind, residual_log):
    """'vertices converge to the requested isovalue as the grid spacing shrinks': the maximal relative residual |f(v) - isovalue| / isovalue
    strictly decreases along the separations, and without smoothing it shrinks at least linearly over the last step
    (r(h2) <= r(h1) * h2 / h1; linear interpolation on a smooth field is second order)."""
    for (name, smoothing), by_sep in residual_log.items():
        seps = sorted(by_sep, reverse=True)
        vals = [by_sep[s] for s in seps]
        if len(vals) < 2:
            continue
        inp = {"molecule": name, "smoothing": smoothing, "separations": seps}
        dec = all(vals[i + 1] < vals[i] for i in range(len(vals) - 1))
        lin = smoothing is not None or vals[-1] <= vals[-2] * seps[-1] / seps[-2]
        if not (dec and lin):
            out.fail(f"{kind}_level_convergence", f"{kind} surface vertices converge to the isovalue as the separation shrinks: max relative residual strictly decreasing"
                     + (" and at least linearly over the last refinement" if smoothing is None else ""), inp, {"max_relative_residual": vals})


def run_promolecule(seed, seps, n_generated, with_default_smoothing):
    from chmpy import PromoleculeDensity
    from chmpy.surface import promolecule_density_isosurface
    from chmpy.core.element import vdw_radii
    rng = np.random.default_rng(seed + 600)
    out = Outcome()
    mols = []
    try:
        from chmpy.core.molecule import Molecule
        m = Molecule.load(test_file("water.xyz"))
        mols.append(("water.xyz", np.array(m.atomic_numbers), np.array(m.positions)))
    except Exception as e:  # noqa
        out.fail("load", "test molecule loads", {"file": "water.xyz"}, repr(e))
    try:
        from chmpy.crystal import Crystal
        c = Crystal.load(test_file("acetic_acid.cif"))
        m = c.symmetry_unique_molecules()[0]
        mols.append(("acetic_acid.cif molecule 0", np.array(m.atomic_numbers), np.array(m.positions)))
    except Exception as e:  # noqa
        out.fail("load", "test molecule loads", {"file": "acetic_acid.cif"}, repr(e))
    for k in range(n_generated):
        els, pos = generated_molecule(rng, k)
        mols.append((f"generated#{k}", els, pos))
    residual_log = {}
    for name, els, pos in mols:
        pro = PromoleculeDensity((els, pos))
        bb32 = pro.bb()
        lower, upper = [np.asarray(x, dtype=np.float64) for x in bb32]
        rad = np.asarray(vdw_radii(els), dtype=np.float64)
        exp_l, exp_u = (pos - (rad[:, None] + 3.8)).min(axis=0), (pos + (rad[:, None] + 3.8)).max(axis=0)
        out.evaluations += 1
        if np.abs(lower - exp_l).max() > 1e-4 or np.abs(upper - exp_u).max() > 1e-4:
            out.fail("promolecule_bb", "bounding box = atoms -+ (vdW radius + 3.8 A)", {"molecule": name}, {"bb": [lower.tolist(), upper.tolist()], "expected": [exp_l.tolist(), exp_u.tolist()]})
        for sep in seps:
            for smoothing in ([None, "laplacian"] if with_default_smoothing else [None]):
                inp = {"molecule": name, "atomic_numbers": [int(x) for x in els], "positions": np.round(pos, 4).tolist(), "isovalue": 0.002, "sep": sep, "smoothing": smoothing, "props": True}
                out.evaluations += 1
                try:
                    iso = promolecule_density_isosurface(pro, isovalue=0.002, sep=sep, smoothing=smoothing)
                except Exception as e:  # noqa
                    out.fail("promolecule_raises", "promolecule_density_isosurface returns a mesh", inp, f"raised {type(e).__name__}: {e}")
                    continue
                check_surface(out, "promolecule", name, sep, iso, 0.002, pro.rho, lower, upper, pos, None, inp, smoothing, residual_log, bb32=bb32)
                if "d_i" not in iso.vertex_prop or len(iso.vertex_prop["d_i"]) != len(iso.vertices):
                    out.fail("promolecule_props", "vertex properties have one value per vertex", inp, {k: len(v) for k, v in iso.vertex_prop.items()})
        out.cases += 1
    residuals_converge(out, "promolecule", residual_log)
    out.note("residuals", {f"{k[0]}|{k[1]}": {str(s): round(v, 5) for s, v in d.items()} for k, d in list(residual_log.items())[:6]})
    return out


def run_hirshfeld(seed, seps, cifs, radius, with_default_smoothing, max_molecules=2):
    from chmpy import StockholderWeight
    from chmpy.crystal import Crystal
    from chmpy.surface import stockholder_weight_isosurface
    out = Outcome()
    residual_log = {}
    for cif in cifs:
        try:
            c = Crystal.load(test_file(cif))
            envs = list(c.molecule_environments(radius=radius))[:max_molecules]
        except Exception as e:  # noqa
            out.fail("load", "crystal loads and molecule environments are available", {"file": cif}, repr(e))
            continue
        for mi, (mol, n_e, n_p) in enumerate(envs):
            els, pos = np.array(mol.atomic_numbers), np.array(mol.positions, dtype=np.float64)
            n_p = np.array(n_p, dtype=np.float64)
            s = StockholderWeight.from_arrays(els, pos, n_e, n_p)
            bb32 = s.bb()
            lower, upper = [np.asarray(x, dtype=np.float64) for x in bb32]
            name = f"{cif} molecule {mi}"
            from chmpy.core.element import vdw_radii
            rad = np.asarray(vdw_radii(els), dtype=np.float64)
            exp_l, exp_u = (pos - (rad[:, None] + 3.8)).min(axis=0), (pos + (rad[:, None] + 3.8)).max(axis=0)
            out.evaluations += 1
            if np.abs(lower - exp_l).max() > 1e-4 or np.abs(upper - exp_u).max() > 1e-4:
                out.fail("hirshfeld_bb", "bounding box of the stockholder weight = the molecule's own atoms -+ (vdW radius + 3.8 A)", {"crystal": cif, "molecule": mi},
                         {"bb": [lower.tolist(), upper.tolist()], "expected": [exp_l.tolist(), exp_u.tolist()]})
            for sep in seps:
                for smoothing in ([None, "laplacian"] if with_default_smoothing else [None]):
                    inp = {"crystal": cif, "molecule": mi, "radius": radius, "isovalue": 0.5, "sep": sep, "smoothing": smoothing}
                    out.evaluations += 1
                    try:
                        iso = stockholder_weight_isosurface(s, isovalue=0.5, sep=sep, smoothing=smoothing)
                    except Exception as e:  # noqa
                        out.fail("hirshfeld_raises", "stockholder_weight_isosurface returns a mesh", inp, f"raised {type(e).__name__}: {e}")
                        continue
                    check_surface(out, "hirshfeld", name, sep, iso, 0.5, s.weights, lower, upper, pos, n_p, inp, smoothing, residual_log, bb32=bb32)
            out.cases += 1
    residuals_converge(out, "hirshfeld", residual_log)
    out.note("residuals", {f"{k[0]}|{k[1]}": {str(s): round(v, 5) for s, v in d.items()} for k, d in list(residual_log.items())[:6]})
    return out


def _grid_like_surface_py(lower, upper, sep):
    """The sample points exactly as surface.py builds them (float32 knots, default meshgrid)."""
    gx, gy, gz = [np.arange(lower[i], upper[i], sep, dtype=np.float32) for i in range(3)]
    x, y, z = np.meshgrid(gx, gy, gz)
    return np.array(np.c_[x.ravel(), y.ravel(), z.ravel()], dtype=np.float32), x.shape


def run_exact_level(seed, seps, n_generated):
    """Degenerate but legitimate requests: the isovalue equals one of the sampled field values (the float32 sample nearest to the
    usual isovalue), so mesher vertices coincide with a grid node.  The statement's clause is the same: a closed mesh (combinatorially),
    with and without the default smoothing."""
    from chmpy import PromoleculeDensity, StockholderWeight
    from chmpy.surface import promolecule_density_isosurface, stockholder_weight_isosurface
    from chmpy.core.molecule import Molecule
    from chmpy.crystal import Crystal
    rng = np.random.default_rng(seed + 6000)
    out = Outcome()
    jobs = []
    m = Molecule.load(test_file("water.xyz"))
    jobs.append(("promolecule", "water.xyz", PromoleculeDensity((np.array(m.atomic_numbers), np.array(m.positions))), 0.002, None))
    for k in range(n_generated):
        els, pos = generated_molecule(rng, k)
        jobs.append(("promolecule", f"generated#{k}", PromoleculeDensity((els, pos)), 0.002, (els, pos)))
    c = Crystal.load(test_file("acetic_acid.cif"))
    mol, n_e, n_p = list(c.molecule_environments(radius=12.0))[0]
    jobs.append(("hirshfeld", "acetic_acid.cif molecule 0", StockholderWeight.from_arrays(np.array(mol.atomic_numbers), np.array(mol.positions), n_e, n_p), 0.5, None))
    for kind, name, obj, nominal, desc in jobs:
        field = obj.rho if kind == "promolecule" else obj.weights
        fn = promolecule_density_isosurface if kind == "promolecule" else stockholder_weight_isosurface
        lower, upper = obj.bb()
        for sep in seps:
            pts, shape = _grid_like_surface_py(lower, upper, sep)
            d = np.asarray(field(pts)).reshape(shape)
            inner = d[1:-1, 1:-1, 1:-1].ravel()
            if inner.size == 0:
                out.fail("exact_level_grid", "the sampling box of the molecule contains interior grid nodes", {"surface": kind, "molecule": name, "sep": sep}, {"grid_shape": list(shape)})
                continue
            isov = float(inner[int(np.argmin(np.abs(inner - nominal)))])
            for smoothing in (None, "laplacian"):
                inp = {"surface": kind, "molecule": name, "isovalue": repr(isov), "isovalue_is": f"the sampled value nearest to {nominal} on the grid of surface.py", "sep": sep, "smoothing": smoothing}
                if desc is not None:
                    inp["atomic_numbers"], inp["positions"] = [int(x) for x in desc[0]], np.round(desc[1], 4).tolist()
                out.evaluations += 1
                try:
                    iso = fn(obj, isovalue=isov, sep=sep, smoothing=smoothing, props=False)
                except Exception as e:  # noqa
                    out.fail("exact_level_raises", "an isovalue equal to a sampled value still gives a mesh", inp, f"raised {type(e).__name__}: {e}")
                    continue
                ok, dd = is_closed_oriented(iso.faces, len(iso.vertices))
                if not ok:
                    key = "smoothing_merges_vertices" if smoothing else "exact_level_raw_not_closed"
                    out.fail(key, f"{kind} surface is a closed consistently oriented mesh (every edge in exactly two triangles, opposite directions; no triangle repeats a vertex)"
                             + (" — also after the default smoothing" if smoothing else ""), inp,
                             {**{k: v for k, v in dd.items() if v}, "vertices": len(iso.vertices), "normals_rows": len(iso.normals)})
                elif len(iso.normals) != len(iso.vertices):
                    out.fail("smoothing_merges_vertices" if smoothing else "normals_rows", "normals have one row per vertex", inp, {"vertices": len(iso.vertices), "normals_rows": len(iso.normals)})
        out.cases += 1
    return out


# ======================================================================================================================
# B7: the user-level wrappers (colour path)
# ======================================================================================================================
def run_user_level(seed, sep):
    """Molecule.promolecule_density_isosurface / Crystal.promolecule_density_isosurfaces / Crystal.stockholder_weight_isosurfaces:
    these always colour the mesh.  A raise inside util/color.py is its own failure key ('colour_path')."""
    import traceback
    out = Outcome()
    from chmpy.crystal import Crystal
    c = Crystal.load(test_file("acetic_acid.cif"))
    mol = c.symmetry_unique_molecules()[0]
    pos = np.array(mol.positions, dtype=np.float64)
    calls = [
        ("Molecule.promolecule_density_isosurface(separation=sep)", lambda: [mol.promolecule_density_isosurface(separation=sep)]),
        ("Crystal.promolecule_density_isosurfaces(separation=sep)", lambda: c.promolecule_density_isosurfaces(separation=sep)),
        ("Crystal.stockholder_weight_isosurfaces(separation=sep, radius=8.0)", lambda: c.stockholder_weight_isosurfaces(separation=sep, radius=8.0)),
        ("Crystal.hirshfeld_surfaces(separation=sep, radius=8.0, color='d_e')", lambda: c.hirshfeld_surfaces(separation=sep, radius=8.0, color="d_e")),
        ("Molecule.promolecule_density_isosurface(separation=sep, color='esp')", lambda: [mol.promolecule_density_isosurface(separation=sep, color="esp")]),
        ("Molecule.promolecule_density_isosurface(separation=sep, color='d_norm_i')", lambda: [mol.promolecule_density_isosurface(separation=sep, color="d_norm_i")]),
    ]
    try:
        # the same structure with the cell expanded by 30 % and the molecule kept rigid: no contact shorter than the van der Waals sum (d_norm > 0 everywhere), still enclosed by neighbours
        from chmpy.crystal import UnitCell, AsymmetricUnit
        uc = c.unit_cell
        big = UnitCell.from_lengths_and_angles([x * 1.3 for x in uc.lengths], list(uc.angles))
        cen = pos.mean(axis=0)
        asym_cart = c.to_cartesian(c.asymmetric_unit.positions)
        cen_f = c.to_fractional(cen[None])[0]
        new_cart = asym_cart - cen + big.to_cartesian(cen_f[None])[0]
        loose = Crystal(big, c.space_group, AsymmetricUnit(list(c.asymmetric_unit.elements), big.to_fractional(new_cart), labels=np.array(c.asymmetric_unit.labels)))
        calls.append(("Crystal(cell x 1.3, rigid molecule).hirshfeld_surfaces(separation=sep)  # default d_norm colouring, no close contacts", lambda: loose.hirshfeld_surfaces(separation=sep)))
    except Exception:  # noqa
        pass
    # the documented alias `resolution` must act like `separation`
    out.evaluations += 1
    out.cases += 1
    try:
        a = mol.promolecule_density_isosurface(separation=1.0)
        b = mol.promolecule_density_isosurface(resolution=1.0)
        if len(a.vertices) != len(b.vertices) or len(a.faces) != len(b.faces):
            out.fail("user_level_alias", "keyword `resolution` is an alias of `separation`", {"call": "Molecule.promolecule_density_isosurface(resolution=1.0) vs (separation=1.0)", "crystal": "acetic_acid.cif"},
                     {"vertices": [len(a.vertices), len(b.vertices)], "faces": [len(a.faces), len(b.faces)]})
    except Exception:  # noqa  (reported by the calls below with their traceback)
        pass
    try:
        from chmpy import PromoleculeDensity
        pro = PromoleculeDensity((np.array(mol.atomic_numbers), pos))
        pts, shape = _grid_like_surface_py(*pro.bb(), 1.0)
        inner = np.asarray(pro.rho(pts)).reshape(shape)[1:-1, 1:-1, 1:-1].ravel()
        sample = float(inner[int(np.argmin(np.abs(inner - 0.002)))])
        calls.append((f"Molecule.promolecule_density_isosurface(separation=1.0, isovalue={sample!r})  # a sampled density value", lambda: [mol.promolecule_density_isosurface(separation=1.0, isovalue=sample)]))
    except Exception:  # noqa
        pass
    for name, thunk in calls:
        inp = {"call": name, "crystal": "acetic_acid.cif", "sep": sep}
        out.evaluations += 1
        out.cases += 1
        try:
            meshes = thunk()
        except Exception as e:  # noqa
            tb = traceback.extract_tb(e.__traceback__)
            where = [f"{os.path.basename(fr.filename)}:{fr.lineno} {fr.name}" for fr in tb][-3:]
            in_colour = any(w.startswith("color.py") for w in where)
            out.fail("colour_path" if in_colour else "user_level_raises",
                     "the user-level surface functions return coloured trimesh objects (they must not die in the colour-mapping step)", inp,
                     {"raised": f"{type(e).__name__}: {e}", "where": where})
            continue
        for mesh in meshes:
            verts, faces = np.asarray(mesh.vertices, dtype=np.float64), np.asarray(mesh.faces)
            ok, d = is_closed_oriented(faces, len(verts))
            if not ok:
                out.fail("user_level_closed", "user-level surfaces are closed consistently oriented meshes", inp, d)
                continue
            if not signed_volume(verts, faces) > 0:
                out.fail("user_level_outward", "user-level surfaces are oriented outward", inp, {"signed_volume": signed_volume(verts, faces)})
            vc = getattr(mesh.visual, "vertex_colors", None)
            if vc is None or len(vc) != len(verts):
                out.fail("user_level_colours", "one colour per vertex", inp, {"colours": None if vc is None else len(vc), "vertices": len(verts)})
        if meshes and name.startswith("Molecule.promolecule") and "isovalue=" not in name:
            # the mesh is in the molecule's Cartesian frame: its vertices sit near the requested density level there
            try:
                from chmpy import PromoleculeDensity as _PD
                rv = np.asarray(_PD((np.array(mol.atomic_numbers), pos)).rho(np.asarray(meshes[0].vertices, dtype=np.float64)), dtype=float)
                if not (np.median(rv) > 0.002 / 2.5 and np.median(rv) < 0.002 * 2.5 and rv.max() < 0.002 * 30):
                    out.fail("user_level_on_level", "the vertices of a promolecule surface lie near the requested density level (0.002) of the molecule it was made for", inp,
                             {"median_density_at_vertices": float(np.median(rv)), "max": float(rv.max()), "min": float(rv.min())})
            except Exception as e:  # noqa
                out.fail("user_level_on_level", "density at the mesh vertices can be evaluated", inp, repr(e)[:160])
        if meshes:
            w = winding_numbers(pos, np.asarray(meshes[0].vertices), np.asarray(meshes[0].faces))
            if np.any(np.abs(w - 1) > 0.01):
                out.fail("user_level_encloses", "the first surface encloses the atoms of the first symmetry-unique molecule (Cartesian frame of the crystal)", inp, {"winding_numbers": w.tolist()})
    return out


def colour_map_contract(seed):
    """property_to_color on plain arrays: one RGBA row per value, for every default colour map name."""
    out = Outcome()
    rng = np.random.default_rng(seed + 16)
    from chmpy.util.color import property_to_color, DEFAULT_COLORMAPS
    for name in list(DEFAULT_COLORMAPS) + ["viridis"]:
        prop = rng.normal(size=50)
        out.evaluations += 1
        out.cases += 1
        inp = {"call": "property_to_color(prop, cmap=name)", "cmap": name, "prop": "50 seeded normal deviates"}
        try:
            col = np.asarray(property_to_color(prop, cmap=name))
        except Exception as e:  # noqa
            out.fail("colour_path", "property_to_color maps a property array to one RGBA colour per value", inp, f"raised {type(e).__name__}: {e}")
            continue
        if col.shape != (50, 4) or not np.all((col >= 0) & (col <= 1)):
            out.fail("colour_values", "property_to_color returns an (N,4) array of RGBA values in [0,1]", inp, {"shape": list(col.shape)})
    return out
