"""C14 — derived crystal data always reflect the crystal's current state (chmpy/crystal/crystal.py).

A property of histories becomes, deductively, a representation invariant plus frame conditions:
  Inv:  for every memo field c: hasattr(self, c) => self.c == F_c(core(self));  stored CIF dictionary agrees with core.
  (1) queries assign nothing in core                       (query.pure, one obligation per method)
  (2) a memo field is only stored by its own fill method, behind the guard `if hasattr: return`   (memo.fill / repeat.equal)
  (3) every method that assigns core deletes every memo field (and refreshes/drops stored CIF data) before returning
                                                            (mutator.invalidates)
  (4) nothing writes into objects held by a memo, except the one write-once annotation            (memo.readonly)
By induction on the length of the history (Hoare-logic meta-theorem, cited) these imply the statement for every history.
All four are decided syntactically from the AST of the real class by the frame checker (tag F).  A bounded history replay
stands in for the meta-theorem (tag B, not counted).
"""
import ast
import copy
import itertools
import time

import numpy as np

from pyvc import frames, source

CR = "chmpy.crystal.crystal"
CORE = ("self.unit_cell", "self.space_group", "self.asymmetric_unit")
ANNOTATION = "self._unit_cell_molecules.properties[asym_mol_idx]"


def is_core(path):
    return any(path == c or path.startswith(c + ".") or path.startswith(c + "[") for c in CORE)


def build(ctx):
    ctx.level = "proof"
    ctx.explanation = ("F: assigns/reads inference over the AST of every method of Crystal (aliases, in-place operations, setattr/delattr, transitive self calls): "
                       "queries are pure w.r.t. core state, memo fields are filled only behind their guard, mutators invalidate every memo and stale stored CIF data, "
                       "objects held by memos are read-only apart from one write-once annotation; methods and properties of the three component objects (UnitCell, SpaceGroup, AsymmetricUnit) that queries call or read "
                       "assign nothing the component's constructor initialised, a memo kept inside a component is dropped by every method that assigns its constructor-initialised attributes, no caching decorators, "
                       "and every call inside chmpy of a memo-filling query passes the filler's default arguments (memos are not keyed by arguments). The step from these per-method facts to 'every history' is induction "
                       "on the history length (cited). B: histories up to length 3-4 (queries, exports, derived crystals, the state-changing operations and rejected calls of them) replayed natively against crystals rebuilt from primitive data.")
    ctx.assumptions += ["numpy/scipy/chmpy helper functions called by Crystal methods do not mutate their arguments except through the syntactic forms the checker tracks "
                        "(stores, augmented assignment, in-place methods, out=)",
                        "Hoare-logic soundness of representation invariants over call histories",
                        "queries are always issued with the same arguments (statement's proviso): memo fields are not keyed by arguments"]
    mod = source.load_module(CR)
    cf = frames.ClassFrames(mod, "Crystal")
    fillers = cf.memo_fillers()          # method -> field
    memo_fields = sorted(set(fillers.values()))
    ctx.notes.append(f"memo fields discovered: {memo_fields}; alias properties: {cf.alias_props}")
    ctx.ground("crystal.Crystal/memo_fields/discovered", len(memo_fields) >= 1, tag="F", clause="memo fields are discovered from setattr(self, '_name', ...) sites", detail=memo_fields)

    def fn(name):
        return ctx.fn(CR, "Crystal." + name)

    cached = {name: info.decorators for name, info in cf.info.items() if any("cache" in d for d in info.decorators)}
    ctx.ground("crystal.Crystal/memo_fields/no_decorator_caches", not cached, tag="F",
               clause="no method is memoised by a caching decorator (lru_cache, cache, cached_property): such a cache is invisible to the invalidation discipline",
               detail=cached, witness={"methods": cached, "history": "[cached query, state-changing operation, same query] returns the stale value"})
    # a memo's PRESENCE is tested only by the method that fills it: an answer that branches on hasattr(self, memo) anywhere else depends on which queries ran before
    filler_of = {f: m for m, f in fillers.items()}
    presence = []
    for name, node in cf.methods.items():
        for n in ast.walk(node):
            fld = None
            if isinstance(n, ast.Call) and isinstance(n.func, ast.Name) and n.func.id == "hasattr" and len(n.args) == 2 and isinstance(n.args[1], ast.Constant):
                fld = n.args[1].value
            elif isinstance(n, ast.Call) and isinstance(n.func, ast.Name) and n.func.id == "getattr" and len(n.args) == 3 and isinstance(n.args[1], ast.Constant):
                fld = n.args[1].value            # getattr(self, memo, default): a presence test in disguise
            elif isinstance(n, ast.Compare) and len(n.ops) == 1 and isinstance(n.ops[0], (ast.In, ast.NotIn)) and isinstance(n.left, ast.Constant) \
                    and "__dict__" in ast.unparse(n.comparators[0]):
                fld = n.left.value
            if fld in memo_fields and filler_of.get(fld) != name and fld not in cf.info[name].memo_dels:
                presence.append({"method": name, "line": n.lineno, "tests_presence_of": fld, "filled_by": filler_of.get(fld)})
    ctx.ground("crystal.Crystal/memo_fields/presence_tested_only_by_the_filler", not presence, tag="F",
               clause="hasattr(self, memo) / getattr(self, memo, default) / 'memo' in self.__dict__ occur only in the method that fills that memo (or in a method that deletes it): "
               "no other answer may branch on whether a memo happens to be filled", detail=presence, witness={"sites": presence, "history": "[the query alone] versus [the memo's filler, then the query]"})
    # a memo field is stored on `self` only: a method that plants a memo on ANOTHER crystal (one it has just built) gives that crystal an answer its own filler never computed
    planted = []
    for name, node in cf.methods.items():
        for n in ast.walk(node):
            tgt = fld = None
            if isinstance(n, ast.Call) and isinstance(n.func, ast.Name) and n.func.id == "setattr" and len(n.args) == 3 and isinstance(n.args[1], ast.Constant):
                tgt, fld = n.args[0], n.args[1].value
            elif isinstance(n, (ast.Assign, ast.AugAssign, ast.AnnAssign)):
                for t_ in (n.targets if isinstance(n, ast.Assign) else [n.target]):
                    for el in (t_.elts if isinstance(t_, (ast.Tuple, ast.List)) else [t_]):
                        if isinstance(el, ast.Attribute) and el.attr in memo_fields:
                            tgt, fld = el.value, el.attr
            elif isinstance(n, ast.Call) and isinstance(n.func, ast.Attribute) and n.func.attr == "update" and "__dict__" in ast.unparse(n.func.value) \
                    and any(f_ in ast.unparse(n) for f_ in memo_fields):
                tgt, fld = n.func.value, "via __dict__.update"
            if fld is not None and (fld in memo_fields or fld.startswith("via")) and not (isinstance(tgt, ast.Name) and tgt.id == "self"):
                planted.append({"method": name, "line": n.lineno, "stores": fld, "on": ast.unparse(tgt)})
    ctx.ground("crystal.Crystal/memo_fields/stored_on_self_only", not planted, tag="F",
               clause="a memo field is assigned on self only (never planted on another crystal object, e.g. a derived crystal that is being returned)", detail=planted,
               witness={"sites": planted, "history": "[derive the crystal, ask the derived crystal] versus a fresh crystal with the derived cell, space group and sites"})
    # no method edits a module-level table in place (directly or through a local alias of it): such a table is state shared by every crystal in the process
    mod_names = set(mod.assigns) | {n_ for n_ in mod.imports}
    INPLACE = {"update", "append", "extend", "insert", "pop", "popitem", "clear", "remove", "setdefault", "sort", "reverse", "add", "discard", "fill", "resize", "put"}
    shared_edits = []
    for name, node in cf.methods.items():
        params = {a_.arg for a_ in node.args.args + node.args.kwonlyargs + node.args.posonlyargs} | ({node.args.vararg.arg} if node.args.vararg else set()) | \
                 ({node.args.kwarg.arg} if node.args.kwarg else set())
        local_stores = {t_.id for n_ in ast.walk(node) if isinstance(n_, (ast.Assign, ast.AugAssign, ast.AnnAssign, ast.For, ast.comprehension, ast.NamedExpr, ast.With))
                        for t_ in ast.walk(n_.targets[0] if isinstance(n_, ast.Assign) else getattr(n_, "target", n_)) if isinstance(t_, ast.Name) and isinstance(t_.ctx, ast.Store)}
        aliases = {}
        for n_ in ast.walk(node):
            if isinstance(n_, ast.Assign) and len(n_.targets) == 1 and isinstance(n_.targets[0], ast.Name) and isinstance(n_.value, ast.Name) \
                    and n_.value.id in mod.assigns and n_.value.id not in params and n_.value.id not in local_stores:
                aliases[n_.targets[0].id] = n_.value.id

        def shared(base):
            if not isinstance(base, ast.Name):
                return None
            if base.id in aliases:
                return aliases[base.id]
            if base.id in mod.assigns and base.id not in params and base.id not in local_stores:
                return base.id
            return None
        for n_ in ast.walk(node):
            tgt = None
            if isinstance(n_, ast.Call) and isinstance(n_.func, ast.Attribute) and n_.func.attr in INPLACE:
                tgt = shared(n_.func.value)
            elif isinstance(n_, (ast.Assign, ast.AugAssign)):
                for t_ in (n_.targets if isinstance(n_, ast.Assign) else [n_.target]):
                    if isinstance(t_, ast.Subscript):
                        tgt = tgt or shared(t_.value)
                    elif isinstance(n_, ast.AugAssign) and isinstance(t_, ast.Name):
                        tgt = tgt or (aliases.get(t_.id))
            if tgt:
                shared_edits.append({"method": name, "line": n_.lineno, "edits_module_level_name": tgt, "statement": ast.unparse(n_)[:100]})
    ctx.ground("crystal.Crystal/module_tables/not_edited_in_place", not shared_edits, tag="F",
               clause="no method of Crystal updates a module-level table in place, directly or through a local name bound to it (update/append/item store/...): such a table is shared by all crystals",
               detail=shared_edits[:5], witness={"sites": shared_edits[:5], "history": "[another crystal queried with non-default arguments, then this one] versus [this one alone]"})
    mutators = []
    n_query = 0
    for name, node in cf.methods.items():
        info = cf.info[name]
        if name == "__init__" or "classmethod" in info.decorators or "staticmethod" in info.decorators:
            continue
        w = cf.closure_writes(name)
        core_w = {p: v for p, v in w.items() if is_core(p)}
        if core_w and name in fillers:
            # a memo-filling method is a query by construction: it must not assign core state
            ctx.ground(f"crystal.Crystal.{name}/assigns/query.pure", False, tag="F", clause="a memo-filling query assigns nothing reachable from unit_cell, space_group or asymmetric_unit",
                       detail={p_: list(v_) for p_, v_ in core_w.items()}, witness={"query": name, "assigns": {p_: list(v_) for p_, v_ in core_w.items()}}, fn=fn(name))
            continue
        if core_w:
            mutators.append((name, core_w))
            continue
        n_query += 1
        # (1) purity
        ctx.ground(f"crystal.Crystal.{name}/assigns/query.pure", True, tag="F", clause="assigns(m) (transitively) contains nothing reachable from unit_cell, space_group or asymmetric_unit",
                   detail={"assigns": sorted(w)}, fn=fn(name))
        # (4) writes into memo-held objects
        memo_obj_writes = {p: v for p, v in w.items() if any(p.startswith("self." + f + ".") or p.startswith("self." + f + "[") for f in memo_fields)}
        bad = {p: v for p, v in memo_obj_writes.items() if p != ANNOTATION}
        # in-place mutation of the memoised object itself (sort/append/... on the stored list or dict) by anything but its own setattr
        for p_, v_ in w.items():
            if any(p_ == "self." + f for f in memo_fields) and v_[2] not in ("setattr", "delattr", "del") \
                    and not (v_[2] == "store" and fillers.get(v_[0]) == p_[5:]):       # the filler's own `self._field = value` is the fill, like its setattr
                bad[p_] = v_
        ctx.ground(f"crystal.Crystal.{name}/assigns/memo.readonly", not bad, tag="F",
                   clause="no store into an object held by a memo field (except the write-once asym_mol_idx annotation made by symmetry_unique_molecules)",
                   detail={k: list(v) for k, v in bad.items()}, witness={k: list(v) for k, v in bad.items()}, fn=fn(name))
    ctx.notes.append(f"{n_query} query methods, mutators: {[m for m, _ in mutators]}")

    # (2) memo fill discipline
    for meth, field in sorted(fillers.items()):
        node = cf.methods[meth]
        setters = [m for m, info in cf.info.items() if field in info.memo_sets]
        body = [s for s in node.body if not (isinstance(s, ast.Expr) and isinstance(s.value, ast.Constant))]
        guard_ok = False
        if body and isinstance(body[0], ast.If):
            t = body[0]
            cond = ast.unparse(t.test)
            ret = t.body[0] if t.body else None
            guard_ok = (cond == f"hasattr(self, '{field}')" and isinstance(ret, ast.Return) and ret.value is not None
                        and ast.unparse(ret.value) in (f"getattr(self, '{field}')", f"self.{field}"))
        ctx.ground(f"crystal.Crystal.{meth}/memo.fill/{field}/single_writer", setters == [meth], tag="F",
                   clause=f"{field} is stored only by {meth}", detail=setters, witness=setters, fn=fn(meth))
        stored_forms = (f"getattr(self, '{field}')", f"self.{field}")
        if not guard_ok and len(body) == 2 and isinstance(body[0], ast.If) and not body[0].orelse and isinstance(body[1], ast.Return) and body[1].value is not None:
            # the same discipline spelled the other way round: `if not hasattr(self, field): <fill>` followed by `return <stored>` and nothing else
            t = body[0].test
            guard_ok = (isinstance(t, ast.UnaryOp) and isinstance(t.op, ast.Not) and ast.unparse(t.operand) == f"hasattr(self, '{field}')"
                        and ast.unparse(body[1].value) in stored_forms)

        def repeat_fallback(meth=meth):
            """Run-time: on the real structures, asking twice (fresh crystal, and after another query) returns equal answers and leaves the core state alone."""
            kit = history_kit()
            import io, contextlib
            with contextlib.redirect_stdout(io.StringIO()):
                for sname in kit["structures"]:
                    for hist in ((meth, meth), ("unit_cell_molecules", meth, meth)) if meth in kit["QUERIES"] else ():
                        bad = kit["run_history"](sname, hist)
                        if bad:
                            return {"input": {"structure": sname, "history": list(hist)}, "observed": bad}
                    if meth not in kit["QUERIES"]:
                        c = copy.deepcopy(kit["structures"][sname])
                        a, b = getattr(c, meth)(), getattr(c, meth)()
                        if _summ(a) != _summ(b):
                            return {"input": {"structure": sname, "history": [meth, meth]}, "observed": "repeating the query gave a different result"}
            return None
        ctx.pattern(f"crystal.Crystal.{meth}/ensures/repeat.equal", guard_ok,
                    clause=f"with {field} present the method returns the stored object and computes nothing else (repeating a query returns an equal result)",
                    fallback=repeat_fallback, detail=ast.unparse(body[0])[:160] if body else None, fn=fn(meth))
        # value stored is computed in this call from core + earlier memos: reads(F_c) has no other mutable instance state
        reads = set()
        for n in ast.walk(node):
            if isinstance(n, ast.Attribute) and isinstance(n.value, ast.Name) and n.value.id == "self" and isinstance(n.ctx, ast.Load):
                reads.add(n.attr)
        allowed = {"unit_cell", "space_group", "asymmetric_unit", "properties"} | set(cf.alias_props) | set(cf.methods) | set(memo_fields)
        extra = sorted(r for r in reads if r not in allowed)
        ctx.ground(f"crystal.Crystal.{meth}/memo.fill/{field}/reads_core_only", not extra, tag="F",
                   clause="the stored value is computed from core state, other memoised queries and the call's arguments only", detail=extra, witness=extra, fn=fn(meth))
        # the method returns the stored value
        nested = {id(x) for f in ast.walk(node) if isinstance(f, (ast.FunctionDef, ast.Lambda)) and f is not node for x in ast.walk(f)}
        rets = [ast.unparse(n.value) for n in ast.walk(node) if isinstance(n, ast.Return) and n.value is not None and id(n) not in nested]
        stored_local = None
        for n in ast.walk(node):
            if isinstance(n, ast.Call) and isinstance(n.func, ast.Name) and n.func.id == "setattr" and len(n.args) == 3 and isinstance(n.args[1], ast.Constant) \
                    and n.args[1].value == field:
                stored_local = ast.unparse(n.args[2])
            if isinstance(n, ast.Assign) and any(isinstance(t_, ast.Attribute) and ast.unparse(t_) == f"self.{field}" for t_ in n.targets):
                stored_local = ast.unparse(n.value)
        ok_ret = all(r in (f"getattr(self, '{field}')", f"self.{field}", stored_local) for r in rets)
        ctx.ground(f"crystal.Crystal.{meth}/memo.fill/{field}/returns_stored", ok_ret, tag="F", clause="every return yields the stored value", detail=rets, witness=rets, fn=fn(meth))

    # (3) mutators invalidate
    cif_keys = cif_key_dependencies(cf)
    for name, core_w in mutators:
        info = cf.info[name]
        w = cf.closure_writes(name)
        last_core_write = max(v[1] for p, v in core_w.items() if v[0] == name) if any(v[0] == name for v in core_w.values()) else 0
        fill_calls = [ln for callee, lines in info.self_calls.items() for ln in lines
                      if set(cf.closure_calls(callee) | {callee}) & set(fillers)]
        barrier = max([last_core_write] + fill_calls)
        top_lines = {st.lineno for st in cf.methods[name].body if isinstance(st, ast.Expr)}      # unconditional statements of the body
        dels = {f: ln for f, ln in info.memo_dels.items() if ln in top_lines}
        for callee, lines in info.self_calls.items():
            for f, _ in cf.info[callee].memo_dels.items() if callee in cf.info else []:
                ok_lines = [ln for ln in lines if ln in top_lines]
                if ok_lines:
                    dels[f] = max(dels.get(f, 0), max(ok_lines))
        for field in memo_fields:
            ok = field in dels and dels[field] >= barrier
            filler = [m for m, f in fillers.items() if f == field][0]
            if not ok and name not in {m_.split("(")[0] for m_ in history_kit()["MUTATORS"]}:
                # neither recognised in the source nor callable by the run-time harness: undecided, not an alarm
                ctx.undecided(f"crystal.Crystal.{name}/mutator.invalidates/{field}", f"deletion of {field} not recognised in {name} and no run-time harness calls {name}")
                continue
            # not recognising the deletion in the source is not evidence of a stale memo (it may be spelled differently): the clause is then
            # decided on the real code by histories [filler, mutator, filler] compared with a fresh crystal
            ctx.pattern(f"crystal.Crystal.{name}/mutator.invalidates/{field}", ok,
                        clause=f"{name} assigns {sorted(core_w)}; it must delete {field} after its last core store / memo-filling call (line {barrier})",
                        detail={"deleted_at": dels.get(field), "barrier_line": barrier},
                        fallback=(lambda name=name, field=field, filler=filler: dynamic_invalidation(name, field, filler)), fn=fn(name))
        # stored CIF dictionary
        comps = {p[5:] for p in core_w}
        # the drop must be unconditional: a top-level statement of the method body, after the last core store
        top = [st for st in cf.methods[name].body if st.lineno >= last_core_write]
        pops_cif = any(isinstance(st, ast.Expr) and isinstance(st.value, ast.Call) and isinstance(st.value.func, ast.Attribute) and st.value.func.attr == "pop"
                       and ast.unparse(st.value.func.value) == "self.properties" and st.value.args and isinstance(st.value.args[0], ast.Constant)
                       and st.value.args[0].value == "cif_data" for st in top) or \
            any(isinstance(st, ast.Delete) and any(ast.unparse(t) == "self.properties['cif_data']" for t in st.targets) for st in top)
        stale = []
        if not pops_cif:
            for key, deps in cif_keys["fresh"].items():
                if key in cif_keys["reuse"]:
                    continue
                if any(d == c or d.startswith(c + ".") for d in deps for c in comps):
                    stale.append(key)
        ctx.ground(f"crystal.Crystal.{name}/mutator.invalidates/stored_cif_data", not stale, tag="F",
                   clause=f"{name} assigns {sorted(comps)}: every CIF item computed from them is either refreshed by to_cif_data when it reuses properties['cif_data'] or the stored dictionary is dropped",
                   detail={"stale_keys": stale, "drops_cif_data": pops_cif}, witness={"mutator": name, "stale_cif_keys": stale}, fn=fn(name))

    # (5) the three component objects (cell, space group, asymmetric unit) obey the same discipline inside their own classes:
    #     methods the crystal's queries call on them assign nothing of the component; a memo kept by a component is dropped by every method that
    #     assigns the component's constructor-initialised attributes
    COMPONENTS = {"self.unit_cell": ("chmpy.crystal.unit_cell", "UnitCell"), "self.space_group": ("chmpy.crystal.space_group", "SpaceGroup"),
                  "self.asymmetric_unit": ("chmpy.crystal.asymmetric_unit", "AsymmetricUnit")}
    comp = {}
    for path_, (mname, cname) in COMPONENTS.items():
        try:
            comp[path_] = frames.ClassFrames(source.load_module(mname), cname)
        except Exception as e:  # noqa
            ctx.notes.append(f"component class {cname} not analysed: {e!r}")
    mutator_names = {m for m, _ in mutators}
    for name, info in cf.info.items():
        if name == "__init__" or name in mutator_names or "classmethod" in info.decorators or "staticmethod" in info.decorators:
            continue
        touched = dict(info.component_calls)
        for (recv, attr), lines in info.component_reads.items():
            k = comp.get(recv)
            if k is not None and attr in k.props:          # reading a property of a component runs that property's code
                touched.setdefault((recv, attr), lines)
        for (recv, meth), lines in sorted(touched.items()):
            k = comp.get(recv)
            if k is None or meth not in k.methods:
                continue
            init_w = {p_.split("[")[0] for p_ in k.closure_writes("__init__") if p_.count(".") >= 1} if "__init__" in k.methods else set()
            init_w = {".".join(p_.split(".")[:2]) for p_ in init_w}
            # stores into attributes the constructor does not initialise are memos of the component: governed by <Class>.<setter>/mutator.invalidates below
            w = {p_: v_ for p_, v_ in k.closure_writes(meth).items() if ".".join(p_.split("[")[0].split(".")[:2]) in init_w}
            ctx.ground(f"crystal.Crystal.{name}/calls/{COMPONENTS[recv][1]}.{meth}/query.pure", not w, tag="F",
                       clause=f"{COMPONENTS[recv][1]}.{meth}, called by the query {name} on a component of the crystal, assigns nothing of that component (no attribute store, "
                              "no in-place operation on its lists/arrays)", detail={p_: list(v_) for p_, v_ in w.items()},
                       witness={"query": name, "component_method": f"{COMPONENTS[recv][1]}.{meth}", "writes": {p_: list(v_) for p_, v_ in w.items()}},
                       fn=ctx.fn(COMPONENTS[recv][0], f"{COMPONENTS[recv][1]}.{meth}"))
    for path_, k in comp.items():
        cname = COMPONENTS[path_][1]
        init_writes = {p_ for p_ in k.closure_writes("__init__")} if "__init__" in k.methods else set()
        core_attrs = {p_.split("[")[0] for p_ in init_writes if p_.count(".") == 1}
        memos, setters = {}, {}
        for meth, info in k.info.items():
            if meth == "__init__":
                continue
            for p_, v_ in info.writes.items():
                base = p_.split("[")[0]
                if base.count(".") != 1:
                    continue
                if base in core_attrs:
                    setters.setdefault(meth, set()).add(base)
                elif v_[1] not in ("delattr", "del"):
                    memos.setdefault(base[5:], set()).add(meth)
        cached = {m: i.decorators for m, i in k.info.items() if any("cache" in d for d in i.decorators)}
        ctx.ground(f"{cname}/memo_fields/no_decorator_caches", not cached, tag="F", clause=f"no method of {cname} is memoised by a caching decorator", detail=cached,
                   witness={"methods": cached})
        for field, fillers_ in sorted(memos.items()):
            for setter in sorted(setters):
                dels = k.info[setter].memo_dels
                closure_dels = set(dels)
                for callee in k.closure_calls(setter):
                    closure_dels |= set(k.info[callee].memo_dels) if callee in k.info else set()
                ok = field in closure_dels or setter in fillers_
                ctx.ground(f"{cname}.{setter}/mutator.invalidates/{field}", ok, tag="F",
                           clause=f"{cname}.{setter} assigns {sorted(setters[setter])}; the attribute {field} kept by {sorted(fillers_)} must be dropped by it",
                           detail={"memo_kept_by": sorted(fillers_)}, witness={"component": cname, "mutator": setter, "stale_memo": field,
                                   "history": f"[{sorted(fillers_)[0]}(), {setter}(...), {sorted(fillers_)[0]}()]"}, fn=ctx.fn(COMPONENTS[path_][0], f"{cname}.{setter}"))
        ctx.ground(f"{cname}/memo_fields/discovered", True, tag="F", clause=f"attributes of {cname} assigned outside the constructor's closure: {sorted(memos)} (each must be dropped by "
                   f"the methods assigning {sorted(a_[5:] for a_ in core_attrs)})", detail={"memos": {f_: sorted(m_) for f_, m_ in memos.items()}, "setters": {m_: sorted(v_) for m_, v_ in setters.items()}})

    # (6) memo fields are not keyed by the arguments of the query that fills them (statement's proviso: "the same arguments").  Inside the library every call of a
    #     memo-filling query must therefore pass the filler's own default values — a library routine asking for, say, a tighter tolerance would either get a stale
    #     answer or leave one behind for everybody else
    import os as _os
    sig = {}
    for meth in fillers:
        a_ = cf.methods[meth].args
        names = [x.arg for x in a_.args][1:]
        defs = [None] * (len(names) - len(a_.defaults)) + list(a_.defaults)
        sig[meth] = {n_: (ast.literal_eval(d_) if d_ is not None and isinstance(d_, ast.Constant) else "<no constant default>") for n_, d_ in zip(names, defs)}
    offenders, n_sites = [], 0
    for root, _dirs, files in _os.walk(_os.path.join(source.SRC_ROOT, "chmpy")):
        if "tests" in root.split(_os.sep):
            continue
        for fn_ in files:
            if not fn_.endswith(".py"):
                continue
            try:
                tree = ast.parse(open(_os.path.join(root, fn_)).read())
            except SyntaxError:
                continue
            funcs = [n_ for n_ in ast.walk(tree) if isinstance(n_, (ast.FunctionDef, ast.AsyncFunctionDef))]
            for fdef in funcs:
                pdefs = {}
                a_ = fdef.args
                pn = [x.arg for x in a_.args]
                for n_, d_ in zip(pn[len(pn) - len(a_.defaults):], a_.defaults):
                    if isinstance(d_, ast.Constant):
                        pdefs[n_] = d_.value
                for call in ast.walk(fdef):
                    if not (isinstance(call, ast.Call) and isinstance(call.func, ast.Attribute) and call.func.attr in sig):
                        continue
                    params = list(sig[call.func.attr])
                    bound = dict(zip(params, call.args))
                    bound.update({k_.arg: k_.value for k_ in call.keywords if k_.arg in sig[call.func.attr]})
                    n_sites += 1
                    for pname, node in bound.items():
                        want = sig[call.func.attr][pname]
                        if isinstance(node, ast.Constant):
                            val = node.value
                        elif isinstance(node, ast.Name) and node.id in pdefs:
                            val = pdefs[node.id]          # forwarded parameter of the calling routine: its own default is what an ordinary call passes
                        else:
                            continue
                        if val != want:
                            offenders.append({"file": _os.path.relpath(_os.path.join(root, fn_), source.SRC_ROOT), "line": call.lineno, "call": ast.unparse(call)[:120],
                                              "parameter": pname, "passes": val, "filler_default": want})
    ctx.ground("crystal.Crystal/memo_fields/library_calls_use_default_arguments", not offenders, tag="F",
               clause="every call inside chmpy of a memo-filling query passes the filler's default argument values (constants, or a forwarded parameter whose own default equals it)",
               detail={"call_sites": n_sites, "offenders": offenders[:5]}, witness={"offenders": offenders[:3],
               "history": "[library routine with the other argument value, any query] or the reverse order: the memo holds the answer for the first caller's arguments"})

    # export.fresh for the other writers: read core + memos only
    for name in ("to_shelx_string", "to_poscar_string", "to_cif_data"):
        if name not in cf.methods:
            continue
        reads = {n.attr for n in ast.walk(cf.methods[name]) if isinstance(n, ast.Attribute) and isinstance(n.value, ast.Name) and n.value.id == "self"}
        allowed = {"unit_cell", "space_group", "asymmetric_unit", "properties", "titl"} | set(cf.alias_props) | set(cf.methods)
        extra = sorted(reads - allowed)
        ctx.ground(f"crystal.Crystal.{name}/reads/export.fresh", not extra, tag="F", clause="exports read core state and (memoised) queries only", detail=extra, witness=extra, fn=fn(name))

    bounded_histories(ctx)


def cif_key_dependencies(cf):
    """From to_cif_data: keys assigned in the reuse branch, and for the fresh dictionary which core component each key reads."""
    node = cf.methods["to_cif_data"]
    out = {"reuse": set(), "fresh": {}}
    for n in ast.walk(node):
        if isinstance(n, ast.If) and "cif_data" in ast.unparse(n.test):
            for s in ast.walk(ast.Module(body=n.body, type_ignores=[])):
                if isinstance(s, ast.Assign):
                    for t in s.targets:
                        if isinstance(t, ast.Subscript) and isinstance(t.slice, ast.Constant) and ast.unparse(t.value) == "cif_data":
                            out["reuse"].add(t.slice.value)
            for s in ast.walk(ast.Module(body=n.orelse, type_ignores=[])):
                if isinstance(s, ast.Dict):
                    for k, v in zip(s.keys, s.values):
                        if isinstance(k, ast.Constant):
                            deps = set()
                            for a in ast.walk(v):
                                if isinstance(a, ast.Attribute):
                                    p = cf._path(a, {})
                                    if p and p.startswith("self.") and is_core(p):
                                        deps.add(p[5:])
                            out["fresh"][k.value] = sorted(deps)
    return out


# ---------------------------------------------------------------------------------------------------------------------
def _summ(v):
    """Comparable summary of a query result."""
    from chmpy.core.molecule import Molecule
    if isinstance(v, dict):
        return {k: _summ(x) for k, x in v.items()}
    if isinstance(v, (list, tuple)):
        return [_summ(x) for x in v]
    if isinstance(v, Molecule):
        return ("mol", np.asarray(v.atomic_numbers).tolist(), np.round(np.asarray(v.positions), 6).tolist(),
                {k: _summ(x) for k, x in v.properties.items() if k in ("asymmetric_unit_atoms", "unit_cell_atoms")})
    if hasattr(v, "toarray"):
        return np.round(v.toarray(), 6).tolist()
    if isinstance(v, np.ndarray):
        return np.round(v.astype(float), 6).tolist() if v.dtype.kind in "fiu" else v.tolist()
    if isinstance(v, (float, np.floating)):
        return round(float(v), 8)
    if isinstance(v, (int, np.integer, str, bool)) or v is None:
        return v
    return str(type(v))


def _core(c):
    props = {k: (np.round(np.asarray(v, dtype=float), 9).tolist() if isinstance(v, np.ndarray) and v.dtype.kind in "fiu" else repr(v)[:200])
             for k, v in sorted(c.asymmetric_unit.properties.items())}
    return (np.round(c.unit_cell.direct, 9).tolist(), c.space_group.international_tables_number, c.space_group.choice,
            [int(s.integer_code) for s in c.space_group.symmetry_operations],          # in their stored order
            np.round(c.asymmetric_unit.positions, 9).tolist(), np.asarray(c.asymmetric_unit.atomic_numbers).tolist(), [str(x) for x in c.asymmetric_unit.labels], props)


_KIT = {}


def history_kit():
    """Real crystals, queries, state-changing operations and the history runner shared by the bounded stand-in and the run-time fall-backs."""
    if _KIT:
        return _KIT
    from chmpy.crystal import Crystal
    from chmpy.tests import TEST_FILES
    import io, contextlib

    def cifgeo(c):
        """What the exported CIF text says, read back: cell, space group, asymmetric unit (semantic comparison, 5 decimals)."""
        c2 = Crystal.from_cif_string(c.to_cif_string())
        return (np.round(c2.unit_cell.parameters, 5).tolist(), c2.space_group.international_tables_number,
                sorted(int(s.integer_code) for s in c2.space_group.symmetry_operations),
                np.round(c2.asymmetric_unit.positions, 5).tolist(), np.asarray(c2.asymmetric_unit.atomic_numbers).tolist())

    QUERIES = {
        "unit_cell_atoms": lambda c: c.unit_cell_atoms(),
        "unit_cell_connectivity": lambda c: c.unit_cell_connectivity(),
        "unit_cell_molecules": lambda c: c.unit_cell_molecules(),
        "symmetry_unique_molecules": lambda c: c.symmetry_unique_molecules(),
        "slab": lambda c: c.slab(bounds=((0, 0, 0), (1, 1, 0))),
        "slab_one_cell": lambda c: c.slab(bounds=((0, 0, 1), (0, 0, 1))),
        "cell_volume": lambda c: c.unit_cell.volume(),
        "atoms_in_radius": lambda c: c.atoms_in_radius(4.0, origin=(0.3, 0.2, 0.1)),
        "density": lambda c: c.density,
        "symmetry_unique_dimers": lambda c: len(c.symmetry_unique_dimers(radius=3.0)[0]),
        "to_shelx_string": lambda c: c.to_shelx_string(titl="t"),
        "cif_geometry": cifgeo,
    }

    def mut(name, *a):
        def f(c):
            try:
                getattr(c, name)(*a)
            except Exception:  # noqa  -- a rejected call (invalid argument) is part of a history too: whatever it left behind must still be consistent
                pass
        return f
    MUTATORS = {"choose_trigonal_lattice(R)": mut("choose_trigonal_lattice", "R"), "choose_trigonal_lattice(H)": mut("choose_trigonal_lattice", "H"),
                "normalize_hydrogen_bondlengths": mut("normalize_hydrogen_bondlengths"),
                "choose_trigonal_lattice(r)": mut("choose_trigonal_lattice", "r"), "choose_trigonal_lattice(X)": mut("choose_trigonal_lattice", "X")}
    structures = {}
    with contextlib.redirect_stdout(io.StringIO()):
        for nm in ("r3c_example.cif", "acetic_acid.cif"):
            structures[nm] = Crystal.load(str(TEST_FILES[nm]))

    # a structure with atoms on special positions (calcite, R-3c on hexagonal axes; built in memory): the number of unit-cell atoms is NOT operations x sites there, and
    # it can be switched between the H and R settings
    from chmpy.crystal import UnitCell as _UC, SpaceGroup as _SG, AsymmetricUnit as _AU
    from chmpy import Element as _El
    structures["calcite (built in memory)"] = Crystal(_UC.from_lengths_and_angles([4.99, 4.99, 17.06], [90.0, 90.0, 120.0], unit="degrees"), _SG(167, choice="H"),
                                                      _AU([_El["Ca"], _El["C"], _El["O"]], np.array([[0.0, 0.0, 0.0], [0.0, 0.0, 0.25], [0.257, 0.0, 0.25]])))

    def fresh_like(c):
        """A crystal rebuilt from the primitive data of c (lattice vectors, setting, sites): nothing memoised anywhere can be carried over."""
        from chmpy.crystal import UnitCell, SpaceGroup, AsymmetricUnit
        au = c.asymmetric_unit
        props = {k: (np.array(v, copy=True) if isinstance(v, np.ndarray) else copy.deepcopy(v)) for k, v in au.properties.items()}
        sg = SpaceGroup(c.space_group.international_tables_number, choice=c.space_group.choice)
        if [int(s.integer_code) for s in sg.symmetry_operations] != [int(s.integer_code) for s in c.space_group.symmetry_operations]:
            sg = copy.deepcopy(c.space_group)          # a group given by an explicit operation list (e.g. read from a file)
        return Crystal(UnitCell(np.array(c.unit_cell.direct, copy=True)), sg, AsymmetricUnit(list(au.elements), np.array(au.positions, copy=True),
                                                                                              labels=np.array(au.labels, copy=True), **props))

    qnames = list(QUERIES)

    def run_history(sname, hist):
        c = copy.deepcopy(structures[sname])
        for step, op in enumerate(hist):
            before = _core(c)
            if op == "deepcopy":
                c = copy.deepcopy(c)
            elif op in MUTATORS:
                MUTATORS[op](c)
            else:
                r1 = _summ(QUERIES[op](c))
                if _core(c) != before:
                    return {"step": step, "op": op, "what": "query modified the cell, space group or asymmetric unit"}
                r2 = _summ(QUERIES[op](c))
                if r1 != r2:
                    return {"step": step, "op": op, "what": "repeating the query gave a different result"}
        ref = fresh_like(c)
        for q in qnames:
            if q == "symmetry_unique_dimers" and q not in hist:
                continue            # (costly; asked again at the end only where the history itself used it)
            a, b = _summ(QUERIES[q](c)), _summ(QUERIES[q](ref))
            if a != b:
                return {"step": len(hist), "op": q, "what": f"derived answer '{q}' differs from a freshly constructed crystal with the same cell, space group and asymmetric unit"}
        # ... and from a fresh crystal that has answered nothing else before (an answer must not depend on which other answers happen to be memoised)
        for q in ("density", "symmetry_unique_molecules", "slab_one_cell", "to_shelx_string"):
            a, b = _summ(QUERIES[q](c)), _summ(QUERIES[q](fresh_like(c)))
            if a != b:
                return {"step": len(hist), "op": q, "what": f"derived answer '{q}' differs from that of a freshly constructed crystal asked this question first"}
        return None

    DERIVED = {"as_P1()": lambda c: c.as_P1(), "as_P1_supercell((1,1,2))": lambda c: c.as_P1_supercell((1, 1, 2))}

    def run_derived(sname, hist, dname):
        """A crystal obtained from another one (after the history `hist` on the parent) answers like a fresh crystal with the derived cell, space group and sites."""
        c = copy.deepcopy(structures[sname])
        for op in hist:
            (MUTATORS[op] if op in MUTATORS else QUERIES[op])(c)
        d = DERIVED[dname](c)
        for q in ("unit_cell_atoms", "unit_cell_molecules", "symmetry_unique_molecules", "density", "slab_one_cell", "cif_geometry"):
            a, b = _summ(QUERIES[q](d)), _summ(QUERIES[q](fresh_like(d)))
            if a != b:
                return {"step": len(hist), "op": f"{dname} then {q}", "what": f"answer '{q}' of the derived crystal differs from a freshly constructed crystal with the derived crystal's own cell, space group and sites"}
        return None
    _KIT.update(QUERIES=QUERIES, MUTATORS=MUTATORS, structures=structures, run_history=run_history, run_derived=run_derived, DERIVED=DERIVED)
    return _KIT


def dynamic_invalidation(mutator, field, filler):
    """Run-time fall-back of mutator.invalidates/<field> when the deletion is not recognised in the source: histories
    [filler, mutator, filler, ...] on real crystals, every derived answer compared with a freshly constructed crystal."""
    import io, contextlib
    kit = history_kit()
    muts = [m for m in kit["MUTATORS"] if m.split("(")[0] == mutator]
    if not muts or filler not in kit["QUERIES"]:
        return {"input": {"mutator": mutator, "memo": field}, "observed": "no run-time harness knows how to call this operation; deletion of the memo not recognised in the source"}
    with contextlib.redirect_stdout(io.StringIO()):
        for sname in kit["structures"]:
            for m in muts:
                for hist in ((filler, m, filler), (filler, m, m, filler), (filler, "unit_cell_molecules", m, filler), (filler, "deepcopy", m, filler)) + \
                        tuple((filler, m2, filler, m, filler) for m2 in muts):
                    try:
                        bad = kit["run_history"](sname, hist)
                    except Exception as e:  # noqa
                        bad = {"what": "exception " + repr(e)[:200]}
                    if bad:
                        return {"input": {"structure": sname, "history": list(hist)}, "observed": bad}
    return None


def bounded_histories(ctx):
    import io, contextlib
    kit = history_kit()
    QUERIES, MUTATORS, structures, run_history = kit["QUERIES"], kit["MUTATORS"], kit["structures"], kit["run_history"]
    rng = np.random.default_rng(ctx.seed + 14)
    qnames = list(QUERIES)
    mnames = list(MUTATORS)
    ops_all = [q for q in qnames if q != "symmetry_unique_dimers"] + mnames + ["deepcopy"]      # (the dimer query is costly: it appears in the systematic histories only)
    fails, evals, distinct = [], 0, set()
    maxlen = 3 if ctx.tier == "quick" else 4
    budget = 60 if ctx.tier == "quick" else 1500
    histories = []
    # systematic: every (query, mutator, query) triple on the trigonal structure, then random ones
    for q1 in qnames:
        for m in mnames[:2]:
            histories.append(("r3c_example.cif", (q1, m, q1)))
    for q1 in ("unit_cell_atoms", "unit_cell_molecules", "density", "cif_geometry"):
        for m in ("choose_trigonal_lattice(r)", "choose_trigonal_lattice(X)"):
            histories.append(("r3c_example.cif", (q1, m, q1)))
    for q1 in ("unit_cell_atoms", "unit_cell_molecules", "cif_geometry"):
        histories.append(("acetic_acid.cif", (q1, "normalize_hydrogen_bondlengths", q1)))
    while len(histories) < budget:
        L = int(rng.integers(2, maxlen + 1))
        histories.append((str(rng.choice(list(structures))), tuple(str(rng.choice(ops_all)) for _ in range(L))))
    # what ANOTHER crystal object was asked -- with other argument values -- leaves no trace: the answers of a fresh copy before and after such foreign calls are equal
    # (state shared between objects: module-level tables updated in place, class-level defaults)
    with contextlib.redirect_stdout(io.StringIO()):
        for sname in structures:
            evals += 1
            distinct.add((sname, "foreign_calls"))
            bad = None
            try:
                probe = ("unit_cell_atoms", "unit_cell_connectivity", "unit_cell_molecules", "symmetry_unique_molecules", "density", "atoms_in_radius")
                before = {q: _summ(QUERIES[q](copy.deepcopy(structures[sname]))) for q in probe}
                other = copy.deepcopy(structures[sname])
                for call_ in (lambda c_: c_.unit_cell_atoms(tolerance=0.05), lambda c_: c_.unit_cell_connectivity(tolerance=0.65, covalent_radii={1: 0.85, 6: 1.3, 8: 1.1, 20: 0.5}),
                              lambda c_: copy.deepcopy(structures[sname]).unit_cell_molecules(bond_tolerance=0.1), lambda c_: c_.atomic_surroundings(radius=2.5),
                              lambda c_: c_.molecule_environments(radius=3.0, threshold=0.5), lambda c_: c_.atoms_in_radius(2.0, origin=(1.0, 2.0, 3.0))):
                    try:
                        call_(other)
                    except Exception:  # noqa -- a call the library rejects is still a call another object made
                        pass
                after = {q: _summ(QUERIES[q](copy.deepcopy(structures[sname]))) for q in probe}
                diff = [q for q in probe if before[q] != after[q]]
                if diff:
                    bad = {"what": f"answers {diff} of a fresh copy changed after another crystal object was queried with non-default arguments"}
            except Exception as e:  # noqa
                bad = {"what": "exception " + repr(e)[:200]}
            if bad and len(fails) < 3:
                fails.append({"input": {"structure": sname, "history": "fresh copy: queries; ANOTHER copy: unit_cell_atoms(tolerance=0.05), unit_cell_connectivity(tolerance=0.65, covalent_radii={...}), "
                                        "unit_cell_molecules(bond_tolerance=0.1), atomic_surroundings(2.5), molecule_environments(3.0, 0.5), atoms_in_radius(2.0, origin); fresh copy: same queries"},
                              "observed": bad, "clause": "a crystal's derived answers do not depend on what other crystal objects were asked before", "key": "foreign_state"})
    for sname in structures:
        histories.append((sname, ("unit_cell_molecules", "symmetry_unique_dimers", "unit_cell_molecules")))
        histories.append((sname, ("density", "unit_cell_atoms", "density")))
        histories.append((sname, ("density", "choose_trigonal_lattice(R)", "density")))
    derived = [(sname, hist, dname) for sname in ("acetic_acid.cif", "calcite (built in memory)") for hist in ((), ("unit_cell_molecules",)) for dname in kit["DERIVED"]]
    with contextlib.redirect_stdout(io.StringIO()):
        for sname, hist, dname in derived:
            evals += 1
            distinct.add((sname, hist, dname))
            try:
                bad = kit["run_derived"](sname, hist, dname)
            except Exception as e:  # noqa
                bad = {"what": "exception " + repr(e)[:200]}
            if bad and len(fails) < 3:
                fails.append({"input": {"structure": sname, "history_on_the_parent": list(hist), "derived_by": dname}, "observed": bad,
                              "clause": "a crystal derived from another one (P1 form, supercell) answers like a freshly constructed crystal with its own cell, space group and sites",
                              "key": "derived"})
        for sname, hist in histories:
            evals += 1
            distinct.add((sname, hist))
            try:
                bad = run_history(sname, hist)
            except Exception as e:  # noqa
                bad = {"what": "exception " + repr(e)[:200]}
            if bad and len(fails) < 3:
                fails.append({"input": {"structure": sname, "history": list(hist)}, "observed": bad,
                              "clause": "after any history every derived answer equals that of a fresh crystal; queries do not modify core state; repeats are equal",
                              "key": "history"})
    ctx.add_bounded("crystal.Crystal/bounded/history_replay", f"histories of length <= {maxlen} over 9 queries, 3 state-changing operations and deepcopy on r3c_example, acetic_acid and an in-memory calcite (special positions); every answer also against a fresh crystal asked that question first; P1 forms / supercells against fresh crystals",
                    evals, len(distinct), fails, samples=[{"structure": s, "history": list(h)} for s, h in histories[:3]],
                    rule="distinct (structure, operation sequence); all (query, trigonal switch, same query) triples included")
