"""C10 — saving a crystal and loading it back reproduces the same structure (CIF, SHELX .res, POSCAR)."""
import ast
import contextlib
import io
import os
import tempfile
import time
from fractions import Fraction

import numpy as np
import z3

from pyvc.api import Contract, Interp, NDArr, Obj, conj, farr, reals, real_matrix, source
from pyvc.strings import SStr, Fmt, Lit
from pyvc.symex import ModelFn as _MF
from pyvc.values import PyRaise, Unsupported, z, to_real

from contracts.gen_crystals import cell_for_setting

CR = "chmpy.crystal.crystal"


# ------------------------------------------------------------------------------------------------- run-time contract
def random_crystal(rng, number, choice, nsites=None, occupancies=False):
    from chmpy.crystal import Crystal, SpaceGroup, AsymmetricUnit
    from chmpy import Element
    sg = SpaceGroup(number, choice=choice)
    cell = cell_for_setting(rng, sg, scale=float(rng.uniform(0.5, 1.2)))
    n = nsites or int(rng.integers(1, 9))
    syms = [str(s) for s in rng.choice(["C", "H", "N", "O", "S", "Cl", "Fe", "Na", "Si", "Br", "Zr", "U"], size=n)]
    counts = {}
    labels = []
    for s in syms:
        counts[s] = counts.get(s, 0) + 1
        labels.append(f"{s}{counts[s]}" + ("A" if rng.integers(0, 6) == 0 else ""))
    pos = rng.uniform(-0.3, 1.3, (n, 3))
    kw = {}
    if occupancies:
        kw["occupation"] = np.round(rng.uniform(0.2, 1.0, n), 3)
    return Crystal(cell, sg, AsymmetricUnit([Element[s] for s in syms], pos, labels=np.array(labels), **kw))


def same_structure(a, b, fmt, prec):
    """a: original, b: reloaded.  Returns None or a description of the difference."""
    # lengths and angles taken from the cells themselves (not through UnitCell.parameters, which the writer also uses)
    pa = np.r_[np.asarray(a.unit_cell.lengths, dtype=float), np.degrees(np.asarray(a.unit_cell.angles, dtype=float))]
    pb = np.r_[np.asarray(b.unit_cell.lengths, dtype=float), np.degrees(np.asarray(b.unit_cell.angles, dtype=float))]
    if not np.allclose(pa, pb, rtol=0, atol=prec["cell"]):
        return {"cell_parameters": pb.tolist(), "expected": pa.tolist()}
    if b.space_group.international_tables_number != a.space_group.international_tables_number:
        return {"space_group": b.space_group.international_tables_number, "expected": a.space_group.international_tables_number}
    oa = sorted(int(s.integer_code) for s in a.space_group.symmetry_operations)
    ob = sorted(int(s.integer_code) for s in b.space_group.symmetry_operations)
    if oa != ob:
        return {"operation_sets_differ": True, "n_ops": [len(oa), len(ob)]}
    if [e.atomic_number for e in a.asymmetric_unit.elements] != [e.atomic_number for e in b.asymmetric_unit.elements]:
        return {"elements": [str(e) for e in b.asymmetric_unit.elements], "expected": [str(e) for e in a.asymmetric_unit.elements]}
    if [str(x) for x in a.asymmetric_unit.labels] != [str(x) for x in b.asymmetric_unit.labels]:
        return {"labels": [str(x) for x in b.asymmetric_unit.labels], "expected": [str(x) for x in a.asymmetric_unit.labels]}
    if a.asymmetric_unit.positions.shape != b.asymmetric_unit.positions.shape or \
            not np.allclose(a.asymmetric_unit.positions, b.asymmetric_unit.positions, rtol=0, atol=prec["frac"]):
        return {"fractional_coordinates_max_error": float(np.abs(np.asarray(a.asymmetric_unit.positions) - np.asarray(b.asymmetric_unit.positions)).max())
                if a.asymmetric_unit.positions.shape == b.asymmetric_unit.positions.shape else "shape"}
    if fmt == "cif":
        oa_ = np.asarray(a.asymmetric_unit.properties.get("occupation", np.ones(len(a.asymmetric_unit))), dtype=float)
        ob_ = np.asarray(b.asymmetric_unit.properties.get("occupation", np.ones(len(b.asymmetric_unit))), dtype=float)
        if not np.allclose(oa_, ob_, atol=1e-9):
            return {"occupancies": ob_.tolist(), "expected": oa_.tolist()}
    return None


def same_unit_cell_atoms(a, b, tol=2e-8):
    """POSCAR: same lattice vectors and the same SET of unit-cell atoms (element, fractional position modulo 1)."""
    if not np.allclose(a.unit_cell.direct, b.unit_cell.direct, rtol=0, atol=1e-8 * 0.5001 + 1e-12):
        return {"lattice_vectors": np.asarray(b.unit_cell.direct).tolist(), "expected": np.asarray(a.unit_cell.direct).tolist()}
    if b.space_group.international_tables_number != 1 or len(b.space_group.symmetry_operations) != 1:
        return {"space_group": b.space_group.international_tables_number}
    ua, ub = a.unit_cell_atoms(), b.unit_cell_atoms()
    if len(ua["element"]) != len(ub["element"]):
        return {"n_atoms": len(ub["element"]), "expected": len(ua["element"])}
    from scipy.spatial import cKDTree
    used = np.zeros(len(ub["element"]), dtype=bool)
    fb = ub["frac_pos"] % 1.0
    ext_pts, ext_idx = [], []
    for s in np.array(np.meshgrid([-1, 0, 1], [-1, 0, 1], [-1, 0, 1])).T.reshape(-1, 3):
        ext_pts.append(fb + s)
        ext_idx.append(np.arange(len(fb)))
    tree = cKDTree(np.vstack(ext_pts))
    idx = np.concatenate(ext_idx)
    for e, f in zip(ua["element"], ua["frac_pos"] % 1.0):
        hits = [idx[j] for j in tree.query_ball_point(f, tol) if not used[idx[j]] and ub["element"][idx[j]] == e]
        if not hits:
            return {"unit_cell_atom_missing": {"element": int(e), "frac": f.tolist()}}
        used[hits[0]] = True
    return None


def roundtrip(c, fmt, tmpdir, via_file_first=False):
    from chmpy.crystal import Crystal
    name = {"cif": "x.cif", "res": "x.res", "poscar": "POSCAR"}[fmt]
    p = os.path.join(tmpdir, name)
    if via_file_first:
        c.save(os.path.join(tmpdir, "first.cif"))
        c = Crystal.load(os.path.join(tmpdir, "first.cif"))
    c.save(p)
    back = Crystal.load(p)
    if isinstance(back, dict):
        back = list(back.values())[0]
    return c, back


PREC = {"cif": {"cell": 1e-9, "frac": 0.5001e-12}, "res": {"cell": 0.5001e-6, "frac": 0.5001e-12}}


def build(ctx):
    ctx.level = "other"
    ctx.explanation = ("G: the CIF items read by from_cif_data are the items written by to_cif_data (string literals of both ASTs), loop lengths agree; SHELX atom labels of the form "
                       "symbol+digits never collide with a SHELX keyword (all 103 symbols). P: one POSCAR lattice/coordinate line and one SHELX atom line written by the real f-strings "
                       "and read back by the real readers on symbolic values (structured strings): values within half a unit of the last written digit, index fields exact. "
                       "The space-group identification after a round trip is C11 (string codec) composed with C02 (lookup from full / reduced lists, all 530 settings). "
                       "B: whole-file CIF / RES / POSCAR round trips through Crystal.save / Crystal.load on seeded crystals of 60 settings (all 530 thorough), built in memory and "
                       "re-loaded from a file first. Whole documents depend on the CIF text layer (C15) and CPython parsing, hence level 'other'.")
    ctx.assumptions += ["CPython format/parse contract; numpy.fromstring(sep=' ') parses blank-separated decimal numbers",
                        "CIF text layer round trip (property C15)", "space-group codec and lookup (properties C11, C02)", "floats as reals in the symbolic part"]
    mod = source.load_module(CR)
    f_tocif, f_fromcif = ctx.fn(CR, "Crystal.to_cif_data"), ctx.fn(CR, "Crystal.from_cif_data")
    f_toshelx, f_fromshelx = ctx.fn(CR, "Crystal.to_shelx_string"), ctx.fn(CR, "Crystal.from_shelx_string")
    f_tovasp, f_fromvasp = ctx.fn(CR, "Crystal.to_poscar_string"), ctx.fn(CR, "Crystal.from_vasp_string")
    for n in ("save", "load", "_ext_save_map", "_ext_load_map", "_fname_save_map", "_fname_load_map", "to_cif_string", "from_cif_string"):
        ctx.fn(CR, "Crystal." + n)
    f_res = ctx.fn("chmpy.fmt.shelx", "to_res_contents")
    f_pshelx = ctx.fn("chmpy.fmt.shelx", "parse_shelx_file_content")
    f_patom = ctx.fn("chmpy.fmt.shelx", "_parse_atom_line")
    f_cellstr = ctx.fn("chmpy.fmt.shelx", "_cell_string")
    f_poscar = ctx.fn("chmpy.ext.vasp", "poscar_string")
    f_pposcar = ctx.fn("chmpy.fmt.vasp", "parse_poscar")

    # ----------------------------------------------------------------------------- G: CIF keys written vs read
    written = set()
    for n in ast.walk(f_tocif.node):
        if isinstance(n, ast.Dict):
            written |= {k.value for k in n.keys if isinstance(k, ast.Constant) and isinstance(k.value, str)}
    read_required, read_optional = set(), set()
    for n in ast.walk(f_fromcif.node):
        if isinstance(n, ast.Subscript) and isinstance(n.value, ast.Name) and n.value.id == "cif_data":
            if isinstance(n.slice, ast.Constant):
                read_required.add(n.slice.value)
            elif isinstance(n.slice, ast.JoinedStr):
                prefix = n.slice.values[0].value
                loopvals = {"cell_length_": ("a", "b", "c"), "cell_angle_": ("alpha", "beta", "gamma")}.get(prefix, ())
                read_required |= {prefix + v for v in loopvals}
        if isinstance(n, ast.Call) and isinstance(n.func, ast.Attribute) and n.func.attr == "get" and isinstance(n.func.value, ast.Name) and n.func.value.id == "cif_data" \
                and n.args and isinstance(n.args[0], ast.Constant):
            read_optional.add(n.args[0].value)
    missing = sorted(k for k in read_required if k not in written)
    geometry_optional = {"atom_site_label", "atom_site_type_symbol", "atom_site_fract_x", "atom_site_fract_y", "atom_site_fract_z", "atom_site_occupancy"}
    missing += sorted(k for k in geometry_optional if k not in written or k not in read_optional)
    symm_ok = "symmetry_equiv_pos_as_xyz" in written and "symmetry_equiv_pos_as_xyz" in ast.unparse(f_fromcif.node)
    # the same statement decided on the running code, independent of how reader and writer are spelled: the dictionary written for a crystal is read through a recording
    # dictionary; every item the reader consumes must have been written, and the geometry items must all have been consumed
    def keys_runtime():
        from chmpy.crystal import Crystal, UnitCell, SpaceGroup, AsymmetricUnit
        from chmpy import Element

        class Recording(dict):
            def __init__(self, *a):
                super().__init__(*a)
                self.hits, self.misses = set(), set()

            def _note(self, k):
                (self.hits if dict.__contains__(self, k) else self.misses).add(k)

            def __getitem__(self, k):
                self._note(k)
                return dict.__getitem__(self, k)

            def get(self, k, default=None):
                self._note(k)
                return dict.get(self, k, default)

            def __contains__(self, k):
                self._note(k)
                return dict.__contains__(self, k)
        problems = []
        for number, choice in ((14, ""), (62, ""), (146, "R")):
            sg = SpaceGroup(number, choice=choice) if choice else SpaceGroup(number)
            cell = UnitCell.from_lengths_and_angles([7.1, 8.3, 9.7], [np.pi / 2, 1.9 if number == 14 else np.pi / 2, np.pi / 2]) if number != 146 else UnitCell.rhombohedral(7.0, 1.2)
            c0 = Crystal(cell, sg, AsymmetricUnit([Element["C"], Element["O"]], np.array([[0.11, 0.23, 0.37], [0.6, 0.05, 0.9]]), labels=np.array(["C1", "O2"]),
                                                  occupation=np.array([1.0, 0.5])))
            written_doc = c0.to_cif_data()
            block = written_doc if "cell_length_a" in written_doc else next(iter(written_doc.values()))       # {data block name: items}
            rec = Recording(block)
            try:
                c1 = Crystal.from_cif_data(rec)
            except Exception as e:  # noqa
                problems.append({"setting": f"{number}:{choice}", "reader_raised": repr(e)[:160], "items_looked_for_but_not_written": sorted(rec.misses)})
                continue
            need = {"cell_length_a", "cell_length_b", "cell_length_c", "cell_angle_alpha", "cell_angle_beta", "cell_angle_gamma", "atom_site_label", "atom_site_type_symbol",
                    "atom_site_fract_x", "atom_site_fract_y", "atom_site_fract_z", "atom_site_occupancy"}
            not_consumed = sorted(need - rec.hits)
            symm_items = {k_ for k_ in rec.hits if "symmetry" in k_ or "space_group" in k_}
            same = (np.allclose(c1.unit_cell.parameters, c0.unit_cell.parameters) and np.allclose(c1.asymmetric_unit.positions, c0.asymmetric_unit.positions)
                    and sorted(int(s_.integer_code) for s_ in c1.space_group.symmetry_operations) == sorted(int(s_.integer_code) for s_ in c0.space_group.symmetry_operations)
                    and np.allclose(c1.asymmetric_unit.properties.get("occupation", [1, 1]), [1.0, 0.5]))
            if not_consumed or not symm_items or not same:
                problems.append({"setting": f"{number}:{choice}", "geometry_items_not_read_from_the_written_dictionary": not_consumed, "symmetry_items_read": sorted(symm_items),
                                 "same_crystal_read_back": bool(same)})
        return problems
    rt = keys_runtime()
    ctx.ground("crystal.Crystal.to_cif_data/keys.agree", not rt,
               clause="every geometry item (cell lengths and angles, atom-site label/symbol/fract/occupancy, symmetry operations) the reader consumes is one the writer wrote, under the same name, "
                      "and the crystal read from the written dictionary is the same (three settings, reader run on a recording dictionary)",
               detail={"runtime_problems": rt[:3], "syntactic": {"written": sorted(written), "required_by_reader": sorted(read_required), "missing_syntactically": missing}}, witness=rt[:2], fn=f_tocif)

    # ----------------------------------------------------------------------------- G: SHELX labels never look like keywords
    from chmpy.core.element import _ELEMENT_DATA
    shelx_mod = source.load_module("chmpy.fmt.shelx")
    Ikeys = ctx.interp()
    keys = set(Ikeys.lookup_global(shelx_mod, "SHELX_LINE_KEYS")) | {"END"}
    bad = []
    for row in _ELEMENT_DATA:
        for suffix in ("1", "12", "123", "1A", "99B", ""):
            lab = row[1] + suffix
            line = "{:3} {:3}".format(lab, 1)
            k4 = line.strip()[:4].upper()
            if k4 in keys or k4 == "END" or k4[:3] == "END" and len(line.strip()) == 3:
                bad.append(lab)
    ctx.ground("fmt.shelx/labels_vs_keywords", not bad, clause="for all 103 element symbols and label suffixes (none, digits, digits+letter) the first four characters of a written atom line are not a SHELX keyword or END",
               detail=bad[:5], witness=bad[:3], fn=f_pshelx)

    line_obligations(ctx)
    # engine guard: the symbolic executor on concrete lines agrees with CPython
    def engine_guard():
        from pyvc.crosscheck import crosscheck
        import chmpy.fmt.shelx as shx
        Ig = ctx.interp()
        crosscheck(ctx, Ig, ctx.fn("chmpy.fmt.shelx", "_parse_atom_line"), shx._parse_atom_line,
                   [(("C", "H", "O"), "C1 1 0.123456789012 0.5 -0.25 11.0"), (("C", "Cl"), "Cl12 2 0.1 0.2 0.3"), (("N",), "N1 1 1.5 -2.25 0.000000000001 10.5 0.05")])
        crosscheck(ctx, Ig, ctx.fn("chmpy.fmt.shelx", "_parse_cell"), shx._parse_cell, [("CELL 0.7 5.0 6.5 7.25 90 101.5 90",), ("CELL 0.71073 10 10 10 90 90 120",)])
        crosscheck(ctx, Ig, ctx.fn("chmpy.fmt.shelx", "_parse_sfac"), shx._parse_sfac, [("SFAC C H O",), ("SFAC Cl",)])
        crosscheck(ctx, Ig, ctx.fn("chmpy.fmt.shelx", "_parse_int"), shx._parse_int, [("LATT -1",), ("ZERR 4 0 0 0 0 0 0",)])
    ctx.attempt("fmt.shelx/engine_guard", engine_guard)

    bounded(ctx)


def line_obligations(ctx):
    """One written line -> the real reader, on symbolic values."""
    CRmod = source.load_module(CR)
    x, y, zc = reals("x", 3)
    f_patom = ctx.fn("chmpy.fmt.shelx", "_parse_atom_line")
    f_toshelx = ctx.fn(CR, "Crystal.to_shelx_string")
    I = ctx.interp()
    shelx_mod = source.load_module("chmpy.fmt.shelx")
    H12 = Fraction(1, 2 * 10 ** 12)
    # the format string of the ATOM lines is read from the real source of to_shelx_string
    def is_atom_fmt(n):
        return isinstance(n, ast.Constant) and isinstance(n.value, str) and n.value.count("f}") >= 3 and n.value.count("{") >= 5
    fmt_nodes = [n for n in ast.walk(f_toshelx.node) if is_atom_fmt(n)]
    if not fmt_nodes:
        # the format may have been given a name at module level (a constant used by to_shelx_string)
        used = {n.id for n in ast.walk(f_toshelx.node) if isinstance(n, ast.Name)}
        fmt_nodes = [v for k_, v in CRmod.assigns.items() if k_ in used and is_atom_fmt(v)]

    def shelx_replay(m):
        from chmpy.crystal import Crystal, UnitCell, SpaceGroup, AsymmetricUnit
        from chmpy import Element
        vals = [float(Fraction(m.get(f"x{i}", 0))) for i in range(3)]
        c = Crystal(UnitCell.from_lengths_and_angles([5, 6, 7], [1.5, 1.6, 1.7]), SpaceGroup(2), AsymmetricUnit([Element["Cl"], Element["C"]], np.array([vals, [0.1, 0.2, 0.3]])))
        b = Crystal.from_shelx_string(c.to_shelx_string(titl="t"))
        d = same_structure(c, b, "res", PREC["res"])
        return {"native_inputs": {"site": vals}, "reproduced": d is not None, "observed": d}

    def ob_shelx_atom():
        if len(fmt_nodes) != 1:
            def fb():
                r_ = shelx_replay({})
                return None if not r_["reproduced"] else {"input": r_["native_inputs"], "observed": r_["observed"]}
            ctx.pattern("fmt.shelx._parse_atom_line/ensures/inverse_of_written_line", False, fallback=fb, fn=f_patom,
                        clause="an ATOM line written by to_shelx_string reads back (format string not recognised in the source: decided on the real writer and reader)")
            return
        fmt = fmt_nodes[0].value
        sfac_idx = z3.Int("sfac")

        def thunk(I2, a, kw):
            line = I2.call(I2.getattr(fmt, "format"), ["Cl12", sfac_idx, x, y, zc])
            rec = I2.call(I2.lookup_global(shelx_mod, "_parse_atom_line"), [("C", "Cl", "N"), line])
            return line, rec
        lim = 10 ** 4
        res = I.explore(thunk, pre=[z3.And(v > -lim, v < lim) for v in (x, y, zc)] + [sfac_idx >= 1, sfac_idx <= 3])
        for k, r in enumerate(res):
            sfx = f"/path{k}" if len(res) > 1 else ""
            if r.kind != "return":
                ctx.prove("fmt.shelx._parse_atom_line/ensures/inverse_of_written_line" + sfx, r.pc, z3.BoolVal(False), clause="the written atom line parses", replay=shelx_replay, fn=f_patom)
                continue
            line, rec = r.value
            pos = rec["position"]
            goals = [z3.BoolVal(rec["label"] == "Cl12"), z3.BoolVal(rec["occupation"] == 1)]
            for got, want in zip(pos, (x, y, zc)):
                d = to_real(got) - want
                goals.append(z3.And(d <= z(H12), d >= -z(H12)))
            el = rec["element"]
            goals.append(z3.And(*[z3.Implies(sfac_idx == i + 1, z(el) == z3.StringVal(s)) for i, s in enumerate(("C", "Cl", "N"))]) if not isinstance(el, str) else z3.BoolVal(False))
            ctx.prove("fmt.shelx._parse_atom_line/ensures/inverse_of_written_line" + sfx, r.pc, conj(goals),
                      clause="an ATOM line written with the format of to_shelx_string reads back: label, SFAC index -> element, coordinates within 0.5e-12, occupancy 1",
                      replay=shelx_replay, fn=f_patom)
    ctx.attempt("fmt.shelx._parse_atom_line/ensures/inverse_of_written_line", ob_shelx_atom, replay=shelx_replay, fn=f_patom)

    # SFAC numbering in to_shelx_string: atom_sfac = index in the sorted unique atomic numbers + 1 (F: syntactic)
    src = ast.unparse(f_toshelx.node)
    ok = "sfac = list(np.unique(self.site_atoms))" in src and "atom_sfac = [sfac.index(x) + 1 for x in self.site_atoms]" in src and "'SFAC': [Element[x].symbol for x in sfac]" in src
    def shelx_fb():
        r_ = shelx_replay({})
        return None if not r_["reproduced"] else {"input": r_["native_inputs"], "observed": r_["observed"]}
    ctx.pattern("crystal.Crystal.to_shelx_string/sfac_numbering", ok, fallback=shelx_fb, clause="atom lines carry 1-based indices into the SFAC list, which lists the symbols of the sorted unique atomic numbers (the reader uses sfac[idx - 1])",
               fn=f_toshelx)

    # POSCAR coordinate / lattice line
    f_poscar = ctx.fn("chmpy.ext.vasp", "poscar_string")
    H8 = Fraction(1, 2 * 10 ** 8)

    def poscar_replay(m):
        from chmpy.crystal import Crystal, UnitCell, SpaceGroup, AsymmetricUnit
        from chmpy import Element
        vals = [float(Fraction(m.get(f"x{i}", 0))) % 1.0 for i in range(3)]
        c = Crystal(UnitCell.from_lengths_and_angles([5, 6, 7], [1.5, 1.6, 1.7]), SpaceGroup(2), AsymmetricUnit([Element["Cl"], Element["C"]], np.array([vals, [0.1, 0.2, 0.3]])))
        b = Crystal.from_vasp_string(c.to_poscar_string())
        d = same_unit_cell_atoms(c, b)
        return {"native_inputs": {"site": vals}, "reproduced": d is not None, "observed": d}

    def fromstring(I2, s, sep=" ", **kw):
        toks = I2.call(I2.getattr(s, "split"), []) if not isinstance(s, str) else s.split()
        from pyvc.strings import parse_float
        return farr([parse_float(I2, t) for t in toks])
    Iv = ctx.interp(models={"numpy.fromstring": _MF("numpy.fromstring(sep=' ') parses blank-separated decimals", fromstring)})

    def poscar_fb():
        r_ = poscar_replay({})
        return None if not r_["reproduced"] else {"input": r_["native_inputs"], "observed": r_["observed"]}

    def ob_poscar_line():
        # the number rows are located by what they are, not by what their variables are called: every f-string of the module (poscar_string
        # and the helpers next to it) that renders exactly three simple names with a fixed-point format and blanks between them
        vmod = source.load_module("chmpy.ext.vasp")
        fmt_nodes = []
        for n in ast.walk(vmod.tree):
            if not isinstance(n, ast.JoinedStr):
                continue
            fv = [v for v in n.values if isinstance(v, ast.FormattedValue)]
            if len(fv) == 3 and all(isinstance(v.value, ast.Name) and v.format_spec is not None and len(v.format_spec.values) == 1 and isinstance(v.format_spec.values[0], ast.Constant)
                                    and str(v.format_spec.values[0].value).endswith("f") for v in fv) \
                    and len({v.value.id for v in fv}) == 3:
                fmt_nodes.append((n, [v.value.id for v in fv]))
        if not fmt_nodes:
            ctx.pattern("ext.vasp.poscar_string/ensures/row_roundtrip", False, fallback=poscar_fb, fn=f_poscar,
                        clause="rows of three numbers written by poscar_string parse back in order (f-string not recognised: decided on the real writer and reader)")
            return
        from pyvc.symex import Frame
        names = ("lattice_row", "coordinate_row") if len(fmt_nodes) == 2 else tuple(f"number_row{k}" for k in range(len(fmt_nodes)))
        for which, (node, ids) in zip(names, fmt_nodes):
            Iv.pc, Iv.decisions, Iv.dpos, Iv.new_alts, Iv.cur_safety, Iv.fresh_count, Iv.depth, Iv.no_fork = [z3.And(v > -1000, v < 1000) for v in (x, y, zc)], [], 0, [], [], 0, 1, 0
            fr = Frame(vmod, dict(zip(ids, (x, y, zc))), None)
            line = Iv.eval(node, fr)
            arr = fromstring(Iv, SStr.concat([line, " ", line]))
            cells = arr.flat()
            goals = [z3.BoolVal(len(cells) == 6)]
            for got, want in zip(cells, (x, y, zc, x, y, zc)):
                d = to_real(got) - want
                goals.append(z3.And(d <= z(H8), d >= -z(H8)))
            ctx.prove(f"ext.vasp.poscar_string/ensures/{which}_roundtrip", list(Iv.pc), conj(goals),
                      clause="three numbers written with the f-string of poscar_string and joined by blanks parse back (numpy.fromstring model) in order, each within 0.5e-8",
                      replay=poscar_replay, fn=f_poscar)
    ctx.attempt("ext.vasp.poscar_string/ensures/row_roundtrip", ob_poscar_line, replay=poscar_replay, fn=f_poscar)
    # F: POSCAR element blocks: atoms sorted by atomic number, Counter keys in first-occurrence order == block order
    src = ast.unparse(f_poscar.node)
    ok = ("ordering = np.argsort(elements)" in src and "coord = pos[ordering]" in src and "elements = elements[ordering]" in src and "element_counts = Counter(elements)" in src)
    ctx.pattern("ext.vasp.poscar_string/element_blocks", ok, fallback=poscar_fb, clause="coordinates and elements are permuted by the same argsort; the counts line lists the sorted elements' multiplicities in block order",
               fn=f_poscar)


def bounded(ctx):
    import chmpy.crystal.space_group as sgm
    rng = np.random.default_rng(ctx.seed + 10)
    settings = sorted((int(k), row.choice) for k, rows in sgm.SG_FROM_NUMBER.items() for row in rows)
    if ctx.tier == "quick":
        must = [(1, ""), (2, ""), (14, "b1"), (15, "b1"), (48, "1"), (48, "2"), (70, "1"), (88, "1"), (146, "H"), (146, "R"), (167, "H"), (167, "R"), (194, ""), (225, ""), (227, "1"), (230, "")]
        must = [s for s in must if s in settings]
        todo = must + [settings[int(i)] for i in rng.choice(len(settings), size=60 - len(must), replace=False)]
    else:
        todo = settings
    fails, evals, distinct = [], 0, set()
    tmp = tempfile.mkdtemp(prefix="c10_")
    try:
        with contextlib.redirect_stdout(io.StringIO()):
            for number, choice in todo:
                nops = len(sgm.SpaceGroup(number, choice=choice).symmetry_operations)
                for fmt in ("cif", "res", "poscar"):
                    for via in (False, True):
                        if via and fmt == "poscar":
                            continue
                        if fmt == "poscar" and nops > 48 and ctx.tier == "quick":
                            continue
                        evals += 1
                        distinct.add((number, choice, fmt, via))
                        try:
                            c = random_crystal(rng, number, choice, occupancies=(fmt == "cif" and bool(rng.integers(0, 2))))
                            orig, back = roundtrip(c, fmt, tmp, via_file_first=via)
                            d = same_unit_cell_atoms(orig, back) if fmt == "poscar" else same_structure(orig, back, fmt, PREC[fmt])
                        except Exception as e:  # noqa
                            d = {"exception": repr(e)[:300]}
                        if d and len(fails) < 3:
                            fails.append({"input": {"setting": f"{number}:{choice}", "format": fmt, "crystal_loaded_from_file_first": via, "n_sites": len(c.asymmetric_unit) if 'c' in dir() else None},
                                          "observed": d, "clause": "save then load gives the same cell parameters, space group (number and operation set) and asymmetric unit "
                                          "(POSCAR: same lattice vectors and set of unit-cell atoms in P1)", "key": f"{fmt}-roundtrip"})
    finally:
        for f in os.listdir(tmp):
            os.unlink(os.path.join(tmp, f))
        os.rmdir(tmp)
    # fixed cases in every seed: (a) all 530 settings through .res with one site (the LATT / SYMM description of every setting);
    # (b) low-symmetry cells with coincident edge lengths; (c) POSCAR of large and strongly oblique cells (lattice entries >= 100 or <= -10)
    from chmpy.crystal import Crystal, UnitCell, SpaceGroup, AsymmetricUnit
    from chmpy import Element
    tmp = tempfile.mkdtemp(prefix="c10b_")
    try:
        with contextlib.redirect_stdout(io.StringIO()):
            for number, choice in settings:
                evals += 1
                try:
                    c = random_crystal(rng, number, choice, nsites=1)
                    orig, back = roundtrip(c, "res", tmp)
                    d = same_structure(orig, back, "res", PREC["res"])
                except Exception as e:  # noqa
                    d = {"exception": repr(e)[:200]}
                if d and len(fails) < 3:
                    fails.append({"input": {"setting": f"{number}:{choice}", "format": "res", "n_sites": 1}, "observed": d,
                                  "clause": "every tabulated setting survives a SHELX .res round trip (LATT + SYMM description)", "key": "res-all-settings"})
            r = np.pi / 2
            special_cells = [("monoclinic b == c", 14, "b1", [7.3, 9.1, 9.1], [r, np.radians(103.0), r]), ("monoclinic a == b", 14, "b1", [8.2, 8.2, 11.0], [r, np.radians(97.0), r]),
                             ("triclinic a == b", 2, "", [6.5, 6.5, 9.0], [np.radians(83), np.radians(99), np.radians(71)]),
                             ("triclinic a == c, alpha == gamma", 2, "", [6.5, 8.0, 6.5], [np.radians(80), np.radians(99), np.radians(80)]),
                             ("orthorhombic b == c", 19, "", [5.0, 7.7, 7.7], [r, r, r]),
                             ("large box", 1, "", [120.0, 150.0, 210.0], [r, r, r]), ("long oblique", 2, "", [9.0, 12.0, 45.0], [np.radians(112), np.radians(95), np.radians(100)])]
            for label, number, choice, L, A in special_cells:
                for fmt in ("cif", "res", "poscar"):
                    evals += 1
                    try:
                        c = Crystal(UnitCell.from_lengths_and_angles(L, A), SpaceGroup(number, choice=choice),
                                    AsymmetricUnit([Element["C"], Element["O"]], np.array([[0.11, 0.27, 0.33], [0.62, 0.05, 0.81]])))
                        orig, back = roundtrip(c, fmt, tmp)
                        d = same_unit_cell_atoms(orig, back) if fmt == "poscar" else same_structure(orig, back, fmt, PREC[fmt])
                    except Exception as e:  # noqa
                        d = {"exception": repr(e)[:200]}
                    if d and len(fails) < 3:
                        fails.append({"input": {"cell": label, "lengths": L, "angles_deg": np.degrees(A).round(3).tolist(), "format": fmt}, "observed": d,
                                      "clause": "save then load reproduces the cell parameters and structure", "key": f"{fmt}-special-cell"})
            # (c2) labels longer than the classic four characters, and a site on an inversion centre whose zero coordinate is floating-point noise (0.1 + 0.2 - 0.3)
            for fmt in ("cif", "res", "poscar"):
                evals += 1
                try:
                    els_ = [Element["Cl"], Element["Cl"], Element["H"], Element["C"]]
                    labs_ = ["Cl10A", "Cl10B", "H12AA", "C1"]
                    pos_ = np.array([[0.11, 0.27, 0.33], [0.62, 0.05, 0.81], [0.31, 0.44, 0.17], [0.1 + 0.2 - 0.3, 0.5, 0.5]])
                    c = Crystal(UnitCell.from_lengths_and_angles([7.3, 8.1, 9.4], [np.radians(83), np.radians(99), np.radians(71)]), SpaceGroup(2), AsymmetricUnit(els_, pos_, labels=labs_))
                    orig, back = roundtrip(c, fmt, tmp)
                    d = same_unit_cell_atoms(orig, back) if fmt == "poscar" else same_structure(orig, back, fmt, PREC[fmt])
                    if not d and fmt != "poscar" and [str(x) for x in back.asymmetric_unit.labels] != labs_:
                        d = {"labels_written": labs_, "labels_read_back": [str(x) for x in back.asymmetric_unit.labels]}
                except Exception as e:  # noqa
                    d = {"exception": repr(e)[:200]}
                if d and len(fails) < 3:
                    fails.append({"input": {"setting": "2:", "labels": ["Cl10A", "Cl10B", "H12AA", "C1"], "site_4": "(0.1 + 0.2 - 0.3, 1/2, 1/2)", "format": fmt}, "observed": d,
                                  "clause": "save then load reproduces the structure, site labels included (labels of five characters; a coordinate that is rounding noise around zero)", "key": f"{fmt}-labels-noise"})
            # (d) the format named explicitly (file name without a telling extension), for saving and for loading
            for fmt_kw, fmt in (("cif", "cif"), (".cif", "cif"), ("res", "res"), (".res", "res")):
                evals += 1
                try:
                    c = random_crystal(rng, 14, "b1")
                    p = os.path.join(tmp, "structure.out")
                    c.save(p, fmt=fmt_kw)
                    back = Crystal.load(p, fmt=fmt_kw)
                    if isinstance(back, dict):
                        back = list(back.values())[0]
                    d = same_structure(c, back, fmt, PREC[fmt])
                except Exception as e:  # noqa
                    d = {"exception": repr(e)[:200]}
                if d and len(fails) < 3:
                    fails.append({"input": {"setting": "14:b1", "file_name": "structure.out", "fmt_keyword": fmt_kw}, "observed": d,
                                  "clause": "save(path, fmt=...) then load(path, fmt=...) reproduces the structure (format given explicitly instead of by extension)", "key": f"{fmt}-explicit-fmt"})
            # (e) a crystal DERIVED from one that was loaded from a CIF (P1 form, supercell): what is written is the derived crystal, not the file it once came from
            for number, choice in ((14, "b1"), (33, ""), (2, "")):
                for derive, dname in ((lambda x: x.as_P1(), "as_P1()"), (lambda x: x.as_P1_supercell((2, 1, 1)), "as_P1_supercell((2,1,1))")):
                    for fmt in ("cif", "res"):
                        evals += 1
                        try:
                            c0 = random_crystal(rng, number, choice, nsites=3)
                            c0.save(os.path.join(tmp, "parent.cif"))
                            parent = Crystal.load(os.path.join(tmp, "parent.cif"))
                            c = derive(parent)
                            orig, back = roundtrip(c, fmt, tmp)
                            d = same_structure(orig, back, fmt, PREC[fmt])
                            if not d and (len(back.asymmetric_unit) != len(c.asymmetric_unit) or back.space_group.international_tables_number != 1):
                                d = {"sites_written": len(c.asymmetric_unit), "sites_read_back": len(back.asymmetric_unit), "space_group_read_back": back.space_group.international_tables_number}
                        except Exception as e:  # noqa
                            d = {"exception": repr(e)[:200]}
                        if d and len(fails) < 3:
                            fails.append({"input": {"parent": f"{number}:{choice}, 3 sites, loaded from a CIF file", "derived_by": dname, "format": fmt}, "observed": d,
                                          "clause": "a crystal derived from a loaded one saves and loads as itself", "key": f"{fmt}-derived"})
    finally:
        for f in os.listdir(tmp):
            os.unlink(os.path.join(tmp, f))
        os.rmdir(tmp)
    ctx.add_bounded("crystal.Crystal.save_load/bounded/whole_files", f"{len(todo)} settings ({'seeded sample incl. origin-choice-1 and R/H settings' if ctx.tier == 'quick' else 'all 530'}) x "
                    "CIF / RES / POSCAR x crystal built in memory or loaded from a CIF first; cells compatible with the setting, 1-8 sites with standard labels, positions in [-0.3, 1.3]; "
                    "plus in every seed: all 530 settings through .res with one site, low-symmetry cells with coincident edges, a 120x150x210 box and a long oblique cell in all three formats, the format named by the fmt keyword, P1 forms / supercells of CIF-loaded crystals",
                    evals, len(distinct), fails, rule="distinct (setting, format, provenance)")
