"""C19 — the Wulff construction is the intersection of the facet half-spaces (chmpy/crystal/wulff.py).

P  obligations come from symbolic execution of the real WulffConstruction source on symbolic unit normals / positive energies
   with the hull combinatorics supplied by an assumed contract on scipy.spatial.ConvexHull (qhull is A):
     dual points, vertex-on-its-three-facets, vertex-inside-every-half-space (identity + sign lemma), facet membership lists,
     scaling, fan triangulation indices, the data flow of _fix_wulff_mesh and the orientation identity of project_to_plane.
B  the whole statement evaluated natively on the real constructor against an independent (qhull-free) half-space intersection.
"""
import itertools
import time
from fractions import Fraction

import numpy as np
import z3

from pyvc.api import Contract, NDArr, Obj, conj, farr, reals, source
from pyvc.libmodels import as_arr
from pyvc.symex import ModelFn
from pyvc.values import PyRaise, Unsupported, num_binop, obj_array

MOD = "chmpy.crystal.wulff"
WCQ = MOD + ".WulffConstruction."


# =====================================================================================================================
#  small exact vector algebra usable on z3 terms and on Fractions alike
# =====================================================================================================================
def dot3(u, v):
    acc = num_binop("*", u[0], v[0])
    for a, b in zip(u[1:], v[1:]):
        acc = num_binop("+", acc, num_binop("*", a, b))
    return acc


def sub3(u, v):
    return [num_binop("-", a, b) for a, b in zip(u, v)]


def cross3(x, y):
    m = lambda p, q: num_binop("*", p, q)
    s = lambda p, q: num_binop("-", p, q)
    return [s(m(x[1], y[2]), m(x[2], y[1])), s(m(x[2], y[0]), m(x[0], y[2])), s(m(x[0], y[1]), m(x[1], y[0]))]


def plane_of(P, simplex):
    """(m, o): the plane through the three points of a hull simplex is {y : m.y = o}."""
    a, b, c = [list(P[t]) for t in simplex]
    m = cross3(sub3(b, a), sub3(c, a))
    return m, dot3(m, a)


def hull_conditions(P, simplices):
    """The assumed contract of a convex hull whose interior contains the origin (<=> the facets bound a finite region):
    no hull plane passes through the origin and every input point lies on the origin's side of every hull plane."""
    out = []
    N = len(P)
    for s in simplices:
        m, o = plane_of(P, s)
        out.append(("origin_off_plane", s, None, num_binop("-", o, 0), None))
        for j in range(N):
            if j in s:
                continue
            out.append(("same_side", s, j, o, num_binop("-", dot3(m, list(P[j])), o)))
    return out


# =====================================================================================================================
#  library models used only by this property (assumed contracts; ids appear in the evidence)
# =====================================================================================================================
class HullVal:
    """Result of the ConvexHull model: only the combinatorics (simplices) is exposed."""

    def __init__(self, simplices):
        self.simplices = simplices


def hull_model(simplices):
    def fn(I, points, *a, **k):
        P = as_arr(points)
        rows = [list(P.data[i]) for i in range(P.shape[0])]
        for kind, s, j, o, t in hull_conditions(rows, simplices):
            if kind == "origin_off_plane":
                I.assume(o != 0)
            else:
                I.assume(t * o <= 0)
        return HullVal(NDArr(obj_array([list(s) for s in simplices]), "i"))
    return fn


def m_rollaxis(I, a, axis, start=0):
    a = as_arr(a)
    return NDArr(np.rollaxis(a.data, axis, start), a.kind)


def m_cross(I, a, b):
    a, b = as_arr(a), as_arr(b)
    if a.ndim == 0 or b.ndim == 0 or a.shape[-1] != 3 or b.shape[-1] != 3:
        raise Unsupported("cross of non-3-vectors")
    try:
        sh = np.broadcast_shapes(a.shape, b.shape)
    except ValueError:
        raise PyRaise("ValueError", "operands could not be broadcast together")
    A, B = np.broadcast_to(a.data, sh), np.broadcast_to(b.data, sh)
    out = np.empty(sh, dtype=object)
    for ix in np.ndindex(*sh[:-1]):
        c = cross3(list(A[ix]), list(B[ix]))
        for k in range(3):
            out[ix + (k,)] = c[k]
    return NDArr(out, "f" if "f" in (a.kind, b.kind) else "i")


def m_einsum(I, spec, *ops):
    spec = spec.replace(" ", "")
    if spec == "ij,ij->i" and len(ops) == 2:
        a, b = as_arr(ops[0]), as_arr(ops[1])
        if a.shape != b.shape or a.ndim != 2:
            raise PyRaise("ValueError", "einsum operand shapes")
        return NDArr(obj_array([dot3(list(a.data[i]), list(b.data[i])) for i in range(a.shape[0])]), "f")
    raise Unsupported("einsum " + spec)


def m_repeat(I, v, n):
    if isinstance(v, (NDArr, list, tuple)):
        raise Unsupported("repeat of an array")
    if not isinstance(n, int):
        raise Unsupported("symbolic repeat count")
    if n < 0:
        raise PyRaise("ValueError", "negative dimensions are not allowed")
    return NDArr(obj_array([v] * n), "i")


def m_column_stack(I, seq):
    cols = []
    for x in I.iterate(seq):
        a = as_arr(x) if not (isinstance(x, (list, tuple)) and len(x) == 0) else NDArr(np.empty((0,), dtype=object), "i")
        if a.ndim == 1:
            cols.append(a.data.reshape(-1, 1))
        elif a.ndim == 2:
            cols.append(a.data)
        else:
            raise Unsupported("column_stack of >2-d")
    if len({c.shape[0] for c in cols}) != 1:
        raise PyRaise("ValueError", "all the input array dimensions except for the concatenation axis must match exactly")
    kinds = [as_arr(x).kind if not (isinstance(x, (list, tuple)) and len(x) == 0) else "i" for x in I.iterate(seq)]
    return NDArr(np.hstack(cols), "f" if "f" in kinds else "i")


def m_outer(I, a, b):
    a, b = as_arr(a), as_arr(b)
    u, v = a.flat(), b.flat()
    return NDArr(obj_array([[num_binop("*", x, y) for y in v] for x in u]), "f")


def extra_models(simplices=None):
    d = {
        "numpy.rollaxis": ModelFn("numpy.rollaxis", m_rollaxis),
        "numpy.cross": ModelFn("numpy.cross(rows)", m_cross),
        "numpy.einsum": ModelFn("numpy.einsum('ij,ij->i')", m_einsum),
        "numpy.repeat": ModelFn("numpy.repeat(scalar)", m_repeat),
        "numpy.column_stack": ModelFn("numpy.column_stack", m_column_stack),
        "numpy.outer": ModelFn("numpy.outer", m_outer),
    }
    if simplices is not None:
        d["scipy.spatial.ConvexHull"] = ModelFn("scipy.spatial.ConvexHull(origin-interior hull contract)", hull_model(simplices))
        p = ModelFn("HullVal.simplices", lambda I, h: h.simplices)
        p.is_prop = True
        d["HullVal.simplices"] = p
    return d


# =====================================================================================================================
#  exact rational points on the hypothesis variety (for refuting a broken identity with a replayable input)
# =====================================================================================================================
def rational_unit(rng):
    p, q = Fraction(int(rng.integers(-12, 13)), int(rng.integers(5, 14))), Fraction(int(rng.integers(-12, 13)), int(rng.integers(5, 14)))
    d = 1 + p * p + q * q
    v = [2 * p / d, 2 * q / d, (1 - p * p - q * q) / d]
    perm = rng.permutation(3)
    sg = [1 if rng.integers(0, 2) else -1 for _ in range(3)]
    return [sg[k] * v[perm[k]] for k in range(3)]


def rational_config(rng, N, simplices, tries=4000):
    """Rational unit normals and energies whose dual points satisfy the hull contract for the given simplices (or None)."""
    for _ in range(tries):
        n = [rational_unit(rng) for _ in range(N)]
        e = [Fraction(int(rng.integers(10, 21)), 10) for _ in range(N)]
        used = {t for s in simplices for t in s}
        for j in range(N):
            if j not in used:
                e[j] = Fraction(int(rng.integers(40, 80)), 1)       # a facet far outside: its dual point sits near the origin
        d = [[x / e[i] for x in n[i]] for i in range(N)]
        ok = True
        for kind, s, j, o, t in hull_conditions(d, simplices):
            if (kind == "origin_off_plane" and o == 0) or (kind == "same_side" and not t * o <= 0):
                ok = False
                break
        if ok:
            return n, e
    return None


def octahedral_like_config(rng, tries=400):
    """6 rational unit normals close to +-x, +-y, +-z (combinatorics of the cube: dual hull = octahedron)."""
    base = [[1, 0, 0], [-1, 0, 0], [0, 1, 0], [0, -1, 0], [0, 0, 1], [0, 0, -1]]
    for _ in range(tries):
        n = []
        for b in base:
            p, q = Fraction(int(rng.integers(-2, 3)), 11), Fraction(int(rng.integers(-2, 3)), 13)
            d = 1 + p * p + q * q
            v = [2 * p / d, 2 * q / d, (1 - p * p - q * q) / d]          # close to +z
            k = [abs(x) for x in b].index(1)
            sgn = b[k]
            w = [None] * 3
            w[k] = sgn * v[2]
            w[(k + 1) % 3] = v[0]
            w[(k + 2) % 3] = v[1]
            n.append(w)
        e = [Fraction(int(rng.integers(10, 21)), 10) for _ in range(6)]
        d_ = [[x / e[i] for x in n[i]] for i in range(6)]
        if all((kind == "origin_off_plane" and o != 0) or (kind == "same_side" and t * o <= 0) for kind, s, j, o, t in hull_conditions(d_, OCTA)):
            return n, e
    return None


def eval_term(term, subst):
    v = z3.simplify(z3.substitute(term, *subst))
    if z3.is_rational_value(v):
        return Fraction(v.numerator_as_long(), v.denominator_as_long())
    if z3.is_int_value(v):
        return Fraction(v.as_long())
    if z3.is_true(v):
        return True
    if z3.is_false(v):
        return False
    return None


# hull combinatorics for which the VCs are generated (rows deliberately start at different corners / orientations)
TETRA = [(0, 1, 2), (3, 0, 1), (2, 3, 0), (3, 2, 1)]                       # + facet 4 in no simplex (cut off entirely)
OCTA = [(0, 2, 4), (4, 3, 0), (2, 1, 4), (1, 3, 4), (5, 2, 0), (0, 3, 5), (1, 5, 2), (5, 1, 3)]


# =====================================================================================================================
#  native side: independent oracle and the statement's clauses evaluated on the real constructor
# =====================================================================================================================
def oracle(n, e):
    """Half-space intersection without qhull: every triple of planes is intersected, feasible points are kept and merged;
    facet polygons are ordered about their centroid; volume = sum_f e_f * area_f / 3."""
    N = len(n)
    I, J, K = np.array(list(itertools.combinations(range(N), 3))).T
    A = np.stack([n[I], n[J], n[K]], axis=1)
    det = np.linalg.det(A)
    ok = np.abs(det) > 1e-7
    A, I, J, K = A[ok], I[ok], J[ok], K[ok]
    b = np.stack([e[I], e[J], e[K]], axis=1)
    X = np.linalg.solve(A, b[..., None])[..., 0]
    scale = float(e.max())
    X = X[(X @ n.T - e).max(axis=1) <= 1e-9 * scale]
    pts = np.empty((0, 3))
    for x in X:
        if len(pts) == 0 or np.min(np.linalg.norm(pts - x, axis=1)) > 1e-8 * scale:      # merges only numerically identical points (see MIN_SEP)
            pts = np.vstack([pts, x])
    on = np.abs(pts @ n.T - e) <= 1e-8 * scale
    areas = np.zeros(N)
    for f in range(N):
        idx = np.nonzero(on[:, f])[0]
        if len(idx) < 3:
            continue
        Q = pts[idx]
        c = Q.mean(axis=0)
        a = Q[0] - c
        a /= np.linalg.norm(a)
        bb = np.cross(n[f], a)
        Q = Q[np.argsort(np.arctan2((Q - c) @ bb, (Q - c) @ a))]
        areas[f] = 0.5 * np.dot(n[f], sum(np.cross(Q[i] - c, Q[(i + 1) % len(Q)] - c) for i in range(len(Q))))
    return pts, on, float(np.dot(e, areas) / 3), areas


def min_separation(P):
    if len(P) < 2:
        return np.inf
    D = np.linalg.norm(P[:, None] - P[None], axis=2)
    D[np.diag_indices_from(D)] = np.inf
    return float(D.min())


CLAUSES = {
    "constructs": "the constructor returns for a facet set that bounds a finite region",
    "inside": "every vertex satisfies n_j.x <= e_j for every facet j",
    "on_three": "every vertex lies on at least three facet planes",
    "vertex_set": "the vertex set equals that of an independent half-space intersection",
    "volume": "the mesh volume (signed tetrahedra) equals that of the independent half-space intersection",
    "closed": "the triangle mesh is closed: every directed edge occurs once and its reverse once (coincident vertices identified)",
    "trimesh": "the mesh object returned by to_trimesh() is watertight, has Euler characteristic 2 and the volume of the half-space intersection",
    "outward": "every triangle lies in the plane of the facet it is labelled with and its normal points along that facet's outward normal",
    "facet_lists": "wulff_facets[f] is exactly the set of polytope vertices on plane f (for facets of positive area), fanned area equals the facet area",
    "membership": "the vertices listed for facet f come from dual simplices that contain f",
    "scaling": "energies * s gives vertices * s and volume * s^3",
}


def native_clauses(n, e, s=None, orc=None):
    """{clause key: observed text} for the clauses that FAIL natively on this facet set (empty dict: all hold)."""
    from chmpy.crystal.wulff import WulffConstruction
    bad = {}
    n_given = np.asarray(n)                 # passed to the constructor with the caller's dtype (integer-typed normals are legitimate input)
    n = np.asarray(n, float)
    e = np.asarray(e, float)
    sc = float(e.max())
    try:
        w = WulffConstruction(n_given.copy(), e.copy())
        V = np.asarray(w.wulff_vertices, float)
        T = np.asarray(w.wulff_triangles).astype(int)
        TI = np.asarray(w.wulff_triangle_indices).astype(int)
        facets = [list(f) for f in w.wulff_facets]
        simplices = np.asarray(w.dual_hull.simplices)
        if V.ndim != 2 or V.shape[1] != 3 or T.ndim != 2 or T.shape[1] != 3 or len(TI) != len(T) or len(facets) != len(n) or not np.isfinite(V).all():
            raise ValueError(f"malformed result: vertices {V.shape}, triangles {T.shape}, triangle indices {TI.shape}, facets {len(facets)}")
        if T.size and (T.min() < 0 or T.max() >= len(V)):
            raise ValueError("triangle index out of range")
    except Exception as ex:  # noqa
        return {"constructs": f"exception {ex!r}"[:300]}, 1
    ev = 0
    resid = V @ n.T - e
    ev += 1
    if resid.max() > 1e-9 * sc:
        i, j = np.unravel_index(resid.argmax(), resid.shape)
        bad["inside"] = f"vertex {i} = {V[i].tolist()} has n_{j}.x - e_{j} = {resid[i, j]:.3e}"
    ev += 1
    tight = (np.abs(resid) <= 1e-8 * sc).sum(axis=1)
    if (tight < 3).any():
        i = int(np.argmin(tight))
        bad["on_three"] = f"vertex {i} = {V[i].tolist()} lies on {int(tight[i])} facet planes"
    P, on, vol, areas = orc if orc is not None else oracle(n, e)
    ev += 1
    D = np.linalg.norm(V[:, None] - P[None], axis=2) if len(P) else np.full((len(V), 1), np.inf)
    vid = D.argmin(axis=1)
    if len(P) == 0 or D.min(axis=1).max() > 1e-7 * sc or D.min(axis=0).max() > 1e-7 * sc:
        bad["vertex_set"] = (f"{len(V)} vertices ({len(np.unique(vid))} matched) vs {len(P)} in the half-space intersection; "
                             f"max distance to nearest {D.min(axis=1).max():.3e} / {D.min(axis=0).max():.3e}")
    ev += 1
    tv = V[T]
    mesh_vol = float(np.einsum("ij,ij->i", tv[:, 0], np.cross(tv[:, 1], tv[:, 2])).sum() / 6) if len(T) else 0.0
    if abs(mesh_vol - vol) > 1e-9 * max(vol, sc ** 3 * 1e-3):
        bad["volume"] = f"mesh volume {mesh_vol!r} vs half-space intersection volume {vol!r}"
    if "vertex_set" not in bad:
        ev += 1
        C = vid[T]
        degenerate = (C[:, 0] == C[:, 1]) | (C[:, 1] == C[:, 2]) | (C[:, 0] == C[:, 2])
        edges = {}
        for a, b, c in C:
            for u, v in ((a, b), (b, c), (c, a)):
                edges[(u, v)] = edges.get((u, v), 0) + 1
        odd = [k for k, m in edges.items() if m != 1 or edges.get((k[1], k[0]), 0) != 1]
        if degenerate.any() or odd or len(T) == 0:
            bad["closed"] = f"{int(degenerate.sum())} degenerate triangles, {len(odd)} unmatched directed edges of {len(edges)}, {len(T)} triangles"
        # the mesh object handed to users (to_trimesh) is itself closed: watertight, sphere topology, same volume
        # (trimesh welds vertices closer than its ABSOLUTE tolerance 1e-8: the clause is only meaningful when distinct vertices are much farther apart than that)
        sep_ok = len(P) < 2 or float(np.min(np.linalg.norm(P[:, None] - P[None], axis=2) + np.eye(len(P)) * 1e9)) > 1e-5
        if "closed" not in bad and hasattr(w, "to_trimesh") and sep_ok:
            ev += 1
            try:
                tm = w.to_trimesh()
                if not (tm.is_watertight and tm.euler_number == 2 and abs(float(tm.volume) - vol) <= 1e-8 * max(vol, sc ** 3 * 1e-3)):
                    bad["trimesh"] = f"to_trimesh(): watertight={bool(tm.is_watertight)}, Euler characteristic {int(tm.euler_number)}, volume {float(tm.volume)!r} vs {vol!r}, {len(tm.vertices)} vertices"
            except Exception as ex:  # noqa
                bad["trimesh"] = f"to_trimesh() raised {ex!r}"[:200]
        ev += 1
        tn = np.cross(tv[:, 1] - tv[:, 0], tv[:, 2] - tv[:, 0])
        along = np.einsum("ij,ij->i", tn, n[TI]) if len(T) else np.zeros(0)
        offp = np.abs(np.einsum("ijk,ik->ij", tv, n[TI]) - e[TI][:, None]).max() if len(T) else 0.0
        if len(T) and ((TI < 0).any() or along.min() <= 1e-12 * sc ** 2 or offp > 1e-8 * sc or
                       np.abs(np.linalg.norm(tn, axis=1) - along).max() > 1e-8 * sc ** 2):
            k = int(np.argmin(along))
            bad["outward"] = f"triangle {k} (facet {int(TI[k])}): normal.n_f = {along[k]:.3e}, max plane offset {offp:.3e}"
        ev += 1
        tri_area = np.zeros(len(n))
        np.add.at(tri_area, TI, 0.5 * along)
        for f in range(len(n)):
            want = set(np.nonzero(on[:, f])[0].tolist())
            got = [int(vid[i]) for i in facets[f]]
            if any(abs(resid[i, f]) > 1e-8 * sc for i in facets[f]) or len(set(got)) != len(got) or \
                    (len(want) >= 3 and (set(got) != want or abs(tri_area[f] - areas[f]) > 1e-9 * sc ** 2)) or (len(want) < 3 and not set(got) <= want):
                bad["facet_lists"] = f"facet {f}: listed vertices {sorted(got)} vs vertices on the plane {sorted(want)}; fanned area {tri_area[f]!r} vs {areas[f]!r}"
                break
        ev += 1
        for f in range(len(n)):
            src = {int(i) for i in np.nonzero((simplices == f).any(axis=1))[0]}
            if not set(int(i) for i in facets[f]) <= src or {int(vid[i]) for i in src} != {int(vid[i]) for i in facets[f]}:
                bad["membership"] = f"facet {f}: listed {sorted(facets[f])} vs dual simplices containing it {sorted(src)}"
                break
    if s is not None:
        ev += 1
        try:
            w2 = WulffConstruction(n_given.copy(), e.copy() * s)
            V2 = np.asarray(w2.wulff_vertices, float)
            t2 = V2[np.asarray(w2.wulff_triangles).astype(int)]
            vol2 = float(np.einsum("ij,ij->i", t2[:, 0], np.cross(t2[:, 1], t2[:, 2])).sum() / 6)
            D2 = np.linalg.norm(V2[:, None] - s * V[None], axis=2)
            if D2.min(axis=1).max() > 1e-8 * s * sc or D2.min(axis=0).max() > 1e-8 * s * sc or abs(vol2 - s ** 3 * mesh_vol) > 1e-9 * s ** 3 * abs(mesh_vol):
                bad["scaling"] = f"s = {s}: max vertex mismatch {max(D2.min(axis=1).max(), D2.min(axis=0).max()):.3e}, volume {vol2!r} vs s^3 * {mesh_vol!r}"
        except Exception as ex:  # noqa
            bad["scaling"] = f"s = {s}: exception {ex!r}"[:300]
    return bad, ev


def unit_rows(v):
    v = np.array(v, float)
    return v / np.linalg.norm(v, axis=1)[:, None]


def degenerate_cases(rng, tier):
    cube = unit_rows([[1, 0, 0], [-1, 0, 0], [0, 1, 0], [0, -1, 0], [0, 0, 1], [0, 0, -1]])
    octa = unit_rows(list(itertools.product([1, -1], repeat=3)))
    dod = unit_rows([p for p in itertools.product([1, 0, -1], repeat=3) if sum(abs(x) for x in p) == 2])

    def prism(m, phase=0.0):
        a = np.arange(m) * 2 * np.pi / m + phase
        return np.vstack([np.c_[np.cos(a), np.sin(a), 0 * a], [[0, 0, 1], [0, 0, -1]]])
    icube = np.array([[1, 0, 0], [-1, 0, 0], [0, 1, 0], [0, -1, 0], [0, 0, 1], [0, 0, -1]], dtype=int)     # integer-typed normals, as in the library's own cube test
    out = [("cube", cube, np.ones(6)), ("cube e=1.7", cube, 1.7 * np.ones(6)), ("box", cube, np.array([1, 1.5, 1.2, 1.2, 2, 1.0])),
           ("integer-typed normals, cube e=1.25", icube, 1.25 * np.ones(6)), ("integer-typed normals, prism", icube, np.array([1.0, 1.0, 1.0, 1.0, 1.5, 1.5])),
           ("octahedron", octa, np.ones(8)), ("rhombic dodecahedron", dod, np.ones(12)),
           ("cube + cut-off {111}", np.vstack([cube, octa]), np.r_[np.ones(6), 2 * np.ones(8)]),
           ("cube + tangent {111}", np.vstack([cube, octa]), np.r_[np.ones(6), np.sqrt(3) * np.ones(8)]),
           ("truncated cube", np.vstack([cube, octa]), np.r_[np.ones(6), 1.5 * np.ones(8)]),
           ("cuboctahedron", np.vstack([cube, octa]), np.r_[np.ones(6), 2 / np.sqrt(3) * np.ones(8)]),
           ("truncated octahedron", np.vstack([cube, octa]), np.r_[1.3 * np.ones(6), np.ones(8)]),
           ("cube + tangent {110}", np.vstack([cube, dod]), np.r_[np.ones(6), np.sqrt(2) * np.ones(12)]),
           ("cube + {110}", np.vstack([cube, dod]), np.r_[np.ones(6), 1.2 * np.ones(12)]),
           ("{100}+{111}+{110}", np.vstack([cube, octa, dod]), np.r_[np.ones(6), 1.1 * np.ones(8), 1.05 * np.ones(12)])]
    for m in (3, 4, 5, 6, 8, 12):
        out.append((f"{m}-gonal prism", prism(m), np.r_[np.ones(m), [1.3, 1.3]]))
        out.append((f"{m}-gonal prism, uneven", prism(m, 0.3), np.r_[rng.uniform(1, 1.15, m), [1.0, 2.0]]))
    k = 6 if tier == "quick" else 60
    for i in range(k):                       # boxes and prisms with random energies within a factor two
        out.append((f"box #{i}", cube, rng.uniform(1, 2, 6)))
        m = int(rng.integers(3, 13))
        out.append((f"{m}-gonal prism #{i}", prism(m), np.r_[rng.uniform(1, 1.1, m), rng.uniform(1, 2, 2)]))
        out.append((f"{{100}}+{{111}} #{i}", np.vstack([cube, octa]), np.r_[rng.uniform(1, 1.2) * np.ones(6), rng.uniform(1, 2) * np.ones(8)]))
    return out


def generic_case(rng, kmax):
    k = int(rng.integers(3, kmax + 1))
    n = rng.normal(size=(k, 3))
    n /= np.linalg.norm(n, axis=1)[:, None]
    n = np.vstack([n, -n])
    base = float(rng.uniform(0.5, 3.0))
    e = base * rng.uniform(1, 2, size=2 * k)
    if rng.integers(0, 3) == 0:
        e[k:] = e[:k]                        # centrosymmetric energies as well
    return n, e


MIN_SEP = 1e-4      # generic domain: distinct polytope vertices further apart than this (x largest energy); see ctx.notes


def scale_sweep(rng):
    """The same shapes with all energies multiplied by 10^k: the statement (and its scaling clause) has no preferred length unit."""
    cube = unit_rows([[1, 0, 0], [-1, 0, 0], [0, 1, 0], [0, -1, 0], [0, 0, 1], [0, 0, -1]])
    a = np.arange(6) * np.pi / 3
    prism = np.vstack([np.c_[np.cos(a), np.sin(a), 0 * a], [[0, 0, 1], [0, 0, -1]]])
    while True:
        gn, ge = generic_case(rng, 8)
        if min_separation(oracle(gn, ge)[0]) > 1e-2 * ge.max():
            break
    shapes = [("cube", cube, np.ones(6)), ("box", cube, np.array([1, 1.5, 1.2, 1.2, 2, 1.0])), ("hexagonal prism", prism, np.r_[np.ones(6), [1.3, 1.3]]),
              ("seeded generic set", gn, ge / ge.max())]
    fails, evals, distinct = {}, 0, 0
    first_bad = None
    for k in (0, 1, 2, 3, 4, 5, 6, -1, -2, -3, -4, -5, -6, -7):
        for name, n, e in shapes:
            bad, ev = native_clauses(n, e * 10.0 ** k, 2.5)
            evals += ev
            distinct += 1
            if bad and first_bad is None:
                first_bad = {"input": {"kind": f"{name}, energies x 1e{k}", "normals": np.asarray(n).tolist(), "energies": (e * 10.0 ** k).tolist(), "scale": 2.5},
                             "observed": {"failed_clauses": bad, "note": "the same shape with energies of order 1 satisfies every clause"}}
    return first_bad, evals, distinct


def native_run(ctx):
    rng = np.random.default_rng(ctx.seed + 1903)
    n_generic = 300 if ctx.tier == "quick" else 5000
    fails = {}
    evals = distinct = skipped = 0
    sample = None
    for i in range(n_generic):
        n, e = generic_case(rng, 30 if (ctx.tier == "quick" or i % 5) else 60)
        s = float(rng.uniform(0.25, 4.0))
        orc = oracle(n, e)
        P = orc[0]
        if min_separation(P) < MIN_SEP * e.max():
            skipped += 1
            continue
        bad, ev = native_clauses(n, e, s, orc)
        evals += ev
        distinct += 1
        if sample is None:
            sample = {"id": "C19/wulff.WulffConstruction/bounded/native_statement", "kind": "generic facet set", "facets": int(len(n)), "polytope_vertices": int(len(P)),
                      "clauses_evaluated": ev, "failed": sorted(bad)}
        for k, obs in bad.items():
            fails.setdefault(k, {"input": {"kind": "generic", "normals": n.tolist(), "energies": e.tolist(), "scale": s}, "observed": obs})
    dfails = {}
    devals = ddistinct = 0
    for name, n, e in degenerate_cases(rng, ctx.tier):
        bad, ev = native_clauses(n, e, 2.5)
        devals += ev
        ddistinct += 1
        for k, obs in bad.items():
            dfails.setdefault(k, {"input": {"kind": name, "normals": np.asarray(n).tolist(), "energies": np.asarray(e).tolist(), "scale": 2.5}, "observed": obs})
    sweep = scale_sweep(rng)
    return {"fails": fails, "evals": evals, "distinct": distinct, "skipped": skipped, "n_generic": n_generic, "dfails": dfails, "devals": devals,
            "ddistinct": ddistinct, "sample": sample, "sweep": sweep}


# =====================================================================================================================
def no_return(ctx, ident, clause="", replay=None, fn=None):
    """The symbolic run of a function found no normally returning path.  That is a violation only if the real code fails too: the obligation's run-time replay (the
    real function on its seeded input family) decides.  If the real code returns there, the executor or a library model is what failed -- undecided, not an alarm."""
    rep = None
    try:
        rep = replay({}) if replay is not None else None
    except Exception as e:  # noqa
        rep = {"reproduced": False, "observed": f"replay raised {e!r}"[:200]}
    if rep and rep.get("reproduced"):
        return ctx.prove(ident, [], z3.BoolVal(False), clause=clause, replay=replay, fn=fn)
    ctx.outside_subset.append({"obligation": f"{ctx.prop}/{ident}", "reason": "no returning path in the symbolic run while the real code returns on the replay inputs (executor / model limitation)"})
    return ctx.undecided(ident, "symbolic run found no returning path, real code returns on the replay inputs: executor or library-model limitation", clause)


def build(ctx):
    ctx.level = "other"
    ctx.explanation = (
        "P (from the real source, for ALL unit normals / positive energies whose dual hull has the stated combinatorics; hull combinatorics: tetrahedron + "
        "one facet cut off entirely in quick, plus the cube-like octahedral hull in thorough): _populate_duals gives d_i = n_i/e_i; every vertex "
        "returned by _extract_wulff_from_dual_mesh satisfies n.v = e for the three facets of its dual simplex (checked algebraic certificates through the "
        "whole constructor); every vertex satisfies n_j.v <= e_j for every other facet j: certificate for the identity n_j.v - e_j = e_j*(m.d_j - o)/o "
        "(m, o = plane of the dual simplex) + sign lemma L + the assumed hull contract (all dual points on the origin's side of each hull plane); "
        "facet membership lists = the simplices containing the facet (a cut-off facet gets the empty list); energies*s => vertices*s; the division by "
        "inv_factors is safe (= e_a*o != 0); order_and_triangulate_polygons fans every ordered polygon of 3..120 vertices as (v0, v_k, v_k+1) and skips empty "
        "facets; _fix_wulff_mesh stores (ordered facets, triangles, triangle->facet) in that order; project_to_plane multiplies the orientation about the "
        "facet normal by |a|^2 > 0 (so 2-D CCW = outward CCW).  "
        "B only (bounded run-time contract on the real constructor against an independent, qhull-free half-space intersection): closed mesh, "
        "outward-consistent triangles, volume and vertex set equal to the independent intersection, polygon ordering / pruning (winding_order_ccw sorts by "
        "arctan2 and prune_degenerate_points builds a data-dependent mask: outside the symbolic subset, demoted to B), arbitrary hull combinatorics, "
        "scaling with the real qhull, and invariance under a change of length unit (bounded/scale_sweep: energies * 10^k, k = -7..6).  The P clauses are re-evaluated "
        "natively in B as well.  Equalities are first evaluated exactly at rational facet sets satisfying every hypothesis (a differing value is a refutation whose "
        "model is replayed on the real constructor), then certified.")
    ctx.assumptions += [
        "floats are reals",
        "qhull / scipy.spatial.ConvexHull (A): returns triangular simplices such that no simplex plane contains the origin and every input point is on the origin's "
        "side of every simplex plane (the origin is interior to the dual hull <=> the facets bound a finite region: polar duality, cited)",
        "hull combinatorics is invariant under uniform scaling of the points (used by the P scaling obligation; the B run uses the real qhull)",
        "numpy row-wise operations (fancy indexing, rollaxis, cross, einsum 'ij,ij->i', broadcasting) act uniformly on rows, so the VCs for the listed hull "
        "combinatorics stand for every simplex row",
        "facet normals have unit length and energies are positive (the statement's domain)",
    ]
    ctx.notes.append("The random generic domain is restricted to polytopes whose distinct vertices are further apart than 1e-4 x the largest energy (energies >= 0.5 there): "
                     "prune_degenerate_points merges points closer than an ABSOLUTE 1e-5.  The scale dependence this threshold causes is isolated in the deterministic obligation "
                     "bounded/scale_sweep (case key absolute_prune_threshold) instead of surfacing as a seed-dependent failure of the random stand-in.")
    F = lambda nme: ctx.fn(MOD, nme)
    f_init, f_dual, f_hull, f_ext, f_fix = [F("WulffConstruction." + x) for x in
                                            ("__init__", "_populate_duals", "_construct_dual_space_hull", "_extract_wulff_from_dual_mesh", "_fix_wulff_mesh")]
    f_proj, f_wind, f_prune, f_ord, f_tri = F("project_to_plane"), F("winding_order_ccw"), F("prune_degenerate_points"), F("ordered_facets"), F("order_and_triangulate_polygons")
    mod = source.load_module(MOD)

    # ---- B first: its failure table also serves as the native witness search for refuted P obligations ------------------
    t0 = time.time()
    nat = native_run(ctx)
    t_native = time.time() - t0

    def replay_for(*keys):
        def replay(m):
            # 1) the concretised counter-model, if the model assigns the facet set
            try:
                N = 0
                while f"e{N}" in m:
                    N += 1
                if N >= 4 and all(f"n{i}_{k}" in m for i in range(N) for k in range(3)):
                    nn = np.array([[float(Fraction(m[f"n{i}_{k}"])) for k in range(3)] for i in range(N)])
                    ee = np.array([float(Fraction(m[f"e{i}"])) for i in range(N)])
                    s = float(Fraction(m["s"])) if "s" in m else 2.0
                    bad, _ = native_clauses(nn, ee, s)
                    hit = [k for k in keys if k in bad] or ([k for k in bad] if "constructs" in bad else [])
                    if hit:
                        return {"native_inputs": {"normals": nn.tolist(), "energies": ee.tolist(), "scale": s}, "reproduced": True,
                                "observed": {k: bad[k] for k in hit}}
            except Exception:  # noqa  (fall through to the seeded search)
                pass
            # 2) seeded generic / degenerate facet sets evaluated for the same clause
            for k in keys + ("constructs",):
                for table in (nat["fails"], nat["dfails"]):
                    if k in table:
                        return {"native_inputs": table[k]["input"], "reproduced": True, "observed": {k: table[k]["observed"]}}
            return {"native_inputs": None, "reproduced": False,
                    "observed": f"clauses {keys} hold natively on {nat['distinct']} generic and {nat['ddistinct']} degenerate facet sets"}
        return replay

    # NB: obligations whose goal is a concrete truth value (shape of the result, membership lists, fan indices, data flow) are registered without
    # hypotheses: the function has a single feasible path there and the checked value does not depend on the symbolic geometry.
    hyp_cache = {}
    cert_budget = {}

    def prove_eq(ident, H, lhs, rhs, clause, keys, fn, points, var_subst):
        """Equality obligation.  First exact evaluation at rational points that satisfy every hypothesis: a point where the two sides differ
        refutes it with a replayable facet set (and spares the certificate search on a false identity).  Otherwise a checked certificate,
        and only then the SMT back ends."""
        for pi, (model, subst) in enumerate(points):
            key = (id(H), len(H), pi)
            if key not in hyp_cache:           # the list itself is kept in the cache entry so that its id cannot be reused by another hypothesis list
                hyp_cache[key] = (H, all(eval_term(h, subst) is True for h in H if z3.is_expr(h)) and all(h is not False for h in H))
            if not hyp_cache[key][1]:
                continue
            a, b = eval_term(lhs, subst), eval_term(rhs, subst)
            if isinstance(a, Fraction) and isinstance(b, Fraction) and a != b:
                r = ctx.prove(ident, H, lhs == rhs, clause=clause, replay=replay_for(*keys), fn=fn, split=False)
                r.verdict, r.backend = "refuted", "exact rational evaluation at a point satisfying all hypotheses"
                r.model = dict(model)
                r.why = f"lhs = {a} but rhs = {b}"
                return r
        # on the unchanged tree every identity below has a certificate; the SMT fall-back (short budgets) only matters on a changed tree, and so does the
        # budget for FAILED certificate searches (a false identity can cost the search many seconds; once 25 s are spent on one function's obligations the
        # rest of that function's identities go straight to SMT)
        t0 = time.time()
        grp = ident.split("/")[0]
        r = ctx.prove(ident, H, lhs == rhs, clause=clause, algebra=cert_budget.get(grp, 25.0) > 0, replay=replay_for(*keys), fn=fn, timeout_ms=4000, cvc5_timeout_s=4)
        if r.verdict != "proved":
            cert_budget[grp] = cert_budget.get(grp, 25.0) - (time.time() - t0)
        return r

    def sign_lemma(ident):
        X, Tt, O, E = z3.Reals("X T O E")
        r = ctx.prove(ident, [E > 0, O != 0, Tt * O <= 0, X == E * Tt / O], X <= 0, tag="L",
                      clause="e > 0, o != 0, t*o <= 0 and x = e*t/o imply x <= 0  (x = n_j.v - e_j, t = m.d_j - o: instantiated with the proved identity and the hull contract)")
        X2, O2, E2 = z3.Reals("X2 O2 E2")
        ctx.prove(ident + "/nonzero_product", [E2 > 0, O2 != 0, X2 == E2 * O2], X2 != 0, tag="L", clause="e > 0, o != 0, x = e*o imply x != 0  (x = inv_factors of a simplex)")
        return r

    def subst_of(nv, ev, n_, e_, extra=()):
        model, subst = {}, []
        for i in range(len(nv)):
            for k in range(3):
                model[f"n{i}_{k}"] = str(n_[i][k])
                subst.append((nv[i][k], z3.RealVal(str(n_[i][k]))))
            model[f"e{i}"] = str(e_[i])
            subst.append((ev[i], z3.RealVal(str(e_[i]))))
        for var, val in extra:
            model[str(var)] = str(val)
            subst.append((var, z3.RealVal(str(val))))
        return model, subst

    # ---- P: the constructor on a symbolic facet set with given hull combinatorics --------------------------------------------
    skip_fix = Contract(requires=None, ensures=None, result=lambda I2, self_: None)

    def pipeline(tag, N, simplices, sampler, with_scaling):
        nv = [reals(f"n{i}_", 3) for i in range(N)]
        ev = reals("e", N)
        dv = [reals(f"d{i}_", 3) for i in range(N)]
        s = z3.Real("s")
        PRE = [ev[i] > 0 for i in range(N)] + [dot3(nv[i], nv[i]) == 1 for i in range(N)]
        DUAL = [dv[i][k] * ev[i] == nv[i][k] for i in range(N) for k in range(3)]      # post-condition of _populate_duals (proved below), pre-condition of the modular runs
        I = ctx.interp(models=extra_models(simplices), contracts={WCQ + "_fix_wulff_mesh": skip_fix})
        WC = I.class_of(mod, "WulffConstruction")
        rng = np.random.default_rng(ctx.seed + 77)
        points = []
        for _ in range(2):
            cfg = sampler(rng)
            if cfg is not None:
                dvals = [(dv[i][k], cfg[0][i][k] / cfg[1][i]) for i in range(N) for k in range(3)]
                points.append(subst_of(nv, ev, cfg[0], cfg[1], extra=[(s, Fraction(int(rng.integers(3, 40)), 10))] + dvals))
        lab = "wulff.WulffConstruction"
        want = [[idx for idx, sx in enumerate(simplices) if f in sx] for f in range(N)]

        def membership_ok(got):
            return isinstance(got, list) and len(got) == N and all(isinstance(g, list) and list(g) == wf for g, wf in zip(got, want))

        def whole():
            """The constructor end to end (ordering step under a skip contract): duals, vertex on its three facets, membership, dual scaling."""
            res = I.explore(lambda I2, a, kw: I2.instantiate(WC, [farr(nv), farr(ev)], {}), pre=PRE)
            if len(res) != 1 or res[0].kind != "return":
                no_return(ctx, f"{lab}.__init__/{tag}/returns", clause="the constructor returns normally on a bounded facet set",
                          replay=replay_for("constructs"), fn=f_init)
                return
            r = res[0]
            w, H = r.value, r.pc
            D = w.fields["facet_dual_vectors"].data
            V = w.fields["wulff_vertices"].data
            for i in range(N):
                for k in range(3):
                    prove_eq(f"{lab}._populate_duals/ensures/dual/{tag}/d{i}{k}", H, D[i, k] * ev[i], nv[i][k], "dual point d_i = n_i / e_i", ("inside", "on_three", "vertex_set"),
                             f_dual, points, None)
            shape_ok = V.shape == (len(simplices), 3)
            ctx.prove(f"{lab}._extract_wulff_from_dual_mesh/ensures/one_vertex_per_simplex/{tag}", [], z3.BoolVal(bool(shape_ok)),
                      clause="one vertex (a 3-vector) per dual simplex, in simplex order", replay=replay_for("vertex_set", "on_three"), fn=f_ext)
            if shape_ok:
                for si, sx in enumerate(simplices):
                    for t_ in sx:
                        prove_eq(f"{lab}.__init__/ensures/vertex.on_three_facets/{tag}/s{si}f{t_}", H, dot3(nv[t_], list(V[si])), ev[t_],
                                 "the vertex of dual simplex (a,b,c) satisfies n_t.v = e_t for t in {a,b,c} (through the whole constructor)", ("on_three", "inside", "vertex_set"),
                                 f_ext, points, None)
            ctx.prove(f"{lab}._extract_wulff_from_dual_mesh/ensures/facets.membership/{tag}", [], z3.BoolVal(bool(membership_ok(w.fields.get("wulff_facets")))),
                      clause="facets[f] lists exactly the dual simplices containing f, in simplex order (a facet in no simplex gets the empty list); so every vertex is listed on >= 3 facets",
                      replay=replay_for("membership", "facet_lists", "closed"), fn=f_ext)
            if with_scaling:
                res2 = I.explore(lambda I2, a, kw: I2.instantiate(WC, [farr(nv), farr([ev[i] * s for i in range(N)])], {}), pre=PRE + [s > 0])
                if len(res2) == 1 and res2[0].kind == "return":
                    D2 = res2[0].value.fields["facet_dual_vectors"].data
                    for i in range(N):
                        for k in range(3):
                            prove_eq(f"{lab}._populate_duals/ensures/scaling.dual/{tag}/d{i}{k}", list(H) + list(res2[0].pc), D2[i, k] * s, D[i, k],
                                     "energies * s (s > 0) give dual points / s", ("scaling",), f_dual, points, None)
                else:
                    no_return(ctx, f"{lab}.__init__/ensures/scaling/{tag}/returns", clause="the constructor returns on scaled energies", replay=replay_for("scaling"), fn=f_init)
        ctx.attempt(f"{lab}.__init__/{tag}", whole, replay=replay_for("constructs"), fn=f_init)

        def duals_safety():
            res = I.explore(lambda I2, a, kw: I2.call(I2.getattr(Obj(WC, {"facet_normals": farr(nv), "facet_energies": farr(ev)}), "_populate_duals"), []), pre=PRE)
            ctx.safety(f"{lab}._populate_duals/{tag}", res, replay=replay_for("constructs"), fn=f_dual)
        ctx.attempt(f"{lab}._populate_duals/safe/{tag}", duals_safety, fn=f_dual)

        def modular():
            """_construct_dual_space_hull + _extract_wulff_from_dual_mesh on an object whose dual points satisfy the proved post-condition of _populate_duals."""
            def run(evec, dvec):
                def th(I2, a, kw):
                    w = Obj(WC, {"facet_normals": farr(nv), "facet_energies": farr(evec), "facet_dual_vectors": farr(dvec)})
                    I2.call(I2.getattr(w, "_construct_dual_space_hull"), [])
                    I2.call(I2.getattr(w, "_extract_wulff_from_dual_mesh"), [])
                    return w
                return I.explore(th, pre=PRE + DUAL + [s > 0])
            res = run(ev, dv)
            if len(res) != 1 or res[0].kind != "return" or res[0].value.fields["wulff_vertices"].shape != (len(simplices), 3):
                no_return(ctx, f"{lab}._extract_wulff_from_dual_mesh/{tag}/returns", clause="returns one vertex per simplex",
                          replay=replay_for("constructs", "vertex_set"), fn=f_ext)
                return
            r = res[0]
            H = r.pc
            V = r.value.fields["wulff_vertices"].data
            ctx.prove(f"{lab}._extract_wulff_from_dual_mesh/ensures/facets.membership/{tag}/modular", [], z3.BoolVal(bool(membership_ok(r.value.fields.get("wulff_facets")))),
                      clause="facets[f] lists exactly the dual simplices containing f", replay=replay_for("membership", "facet_lists", "closed"), fn=f_ext)
            for si, sx in enumerate(simplices):
                v = list(V[si])
                m, o = plane_of(dv, sx)
                for t_ in sx:
                    prove_eq(f"{lab}._extract_wulff_from_dual_mesh/ensures/vertex.on_three_facets/{tag}/s{si}f{t_}", H, dot3(nv[t_], v), ev[t_],
                             "the vertex of dual simplex (a,b,c) satisfies n_t.v = e_t for t in {a,b,c}", ("on_three", "inside", "vertex_set"), f_ext, points, None)
                for j in range(N):
                    if j in sx:
                        continue
                    tj = dot3(m, dv[j]) - o
                    prove_eq(f"{lab}._extract_wulff_from_dual_mesh/ensures/vertex.inside/{tag}/s{si}f{j}", H, dot3(nv[j], v) - ev[j], ev[j] * tj / o,
                             "n_j.v - e_j = e_j*(m.d_j - o)/o for every facet j outside the simplex (m, o: plane of the dual simplex), hence <= 0 by the hull contract "
                             "(m.d_j - o)*o <= 0, o != 0 and the sign lemma", ("inside", "vertex_set"), f_ext, points, None)
                    ctx.prove(f"{lab}._extract_wulff_from_dual_mesh/ensures/vertex.inside/{tag}/s{si}f{j}/hull_side", H, z3.And(tj * o <= 0, o != 0, ev[j] > 0), split=False,
                              clause="the premises of the sign lemma are hypotheses of the path: hull contract for (simplex, j) and e_j > 0", replay=replay_for("inside"), fn=f_ext)
            # division safety: every divisor is inv_factors = e_a * o of some simplex (non-zero by the hull contract and the product lemma)
            nz = 0
            for kind, pc, goal, note in r.safety:
                nz += 1
                t = None
                if kind == "div-nonzero" and z3.is_expr(goal):
                    if z3.is_not(goal) and z3.is_eq(goal.arg(0)):
                        t = goal.arg(0).arg(0) - goal.arg(0).arg(1)
                    elif z3.is_distinct(goal) and goal.num_args() == 2:
                        t = goal.arg(0) - goal.arg(1)
                cand = None
                if t is not None and points:
                    tv = eval_term(t, points[0][1])
                    for sx in simplices:
                        o = plane_of(dv, sx)[1]
                        for a_ in sx:
                            if isinstance(tv, Fraction) and tv != 0 and eval_term(ev[a_] * o, points[0][1]) == tv:
                                cand = ev[a_] * o
                                break
                        if cand is not None:
                            break
                if cand is not None:
                    prove_eq(f"{lab}._extract_wulff_from_dual_mesh/safe/inv_factors/{tag}/{nz}", pc, t, cand,
                             "the divisor inv_factors equals e_a * o: non-zero by the hull contract (origin off every hull plane), e_a > 0 and the product lemma",
                             ("constructs", "inside"), f_ext, points, None)
                else:
                    ctx.prove(f"{lab}._extract_wulff_from_dual_mesh/safe/{kind}/{tag}/{nz}", pc, goal, clause=f"{kind} {note}".strip(), replay=replay_for("constructs"), fn=f_ext,
                              timeout_ms=20000)
            if with_scaling:
                res2 = run([ev[i] * s for i in range(N)], [[dv[i][k] / s for k in range(3)] for i in range(N)])
                if len(res2) == 1 and res2[0].kind == "return" and res2[0].value.fields["wulff_vertices"].shape == V.shape:
                    V2 = res2[0].value.fields["wulff_vertices"].data
                    for si in range(len(simplices)):
                        for k in range(3):
                            prove_eq(f"{lab}._extract_wulff_from_dual_mesh/ensures/scaling/{tag}/s{si}k{k}", list(H) + list(res2[0].pc), V2[si, k], s * V[si, k],
                                     "energies * s and dual points / s (s > 0, same hull combinatorics) give vertices * s", ("scaling",), f_ext, points, None)
                else:
                    no_return(ctx, f"{lab}._extract_wulff_from_dual_mesh/ensures/scaling/{tag}/returns", clause="returns on scaled input",
                              replay=replay_for("scaling"), fn=f_ext)
        ctx.attempt(f"{lab}._extract_wulff_from_dual_mesh/{tag}", modular, replay=replay_for("constructs"), fn=f_ext)

    sign_lemma("lemma/half_space_sign")
    pipeline("tetra+cutoff", 5, TETRA, lambda rng: rational_config(rng, 5, TETRA), True)
    if ctx.tier == "thorough":
        pipeline("octa", 6, OCTA, octahedral_like_config, False)

    # ---- P: fan triangulation of ordered polygons (ordered_facets under a contract that returns the given lists) -----------
    def fan():
        sizes = [3, 4, 0, 5, 6, 7, 0, 8, 12, 2] + (list(range(9, 121, 7)) if ctx.tier == "quick" else list(range(9, 121)))
        lists, nxt = [], 0
        for sz in sizes:
            lists.append([z3.Int(f"v{nxt + k}") for k in range(sz)])
            nxt += sz
        c_ord = Contract(result=lambda I2, pts, fcs, nrm: [list(l) for l in lists])
        I = ctx.interp(models=extra_models(), contracts={MOD + ".ordered_facets": c_ord})
        fv = I.lookup_global(mod, "order_and_triangulate_polygons")
        res = I.explore(lambda I2, a, kw: I2.call(fv, [farr([[0, 0, 0]]), [list(l) for l in lists], farr([[0, 0, 1]])], {}))
        lab = "wulff.order_and_triangulate_polygons/ensures/fan.indices"
        if len(res) != 1 or res[0].kind != "return":
            no_return(ctx, lab + "/returns", clause="returns for ordered polygons of 0, 2, 3..120 vertices", replay=replay_for("constructs", "closed"), fn=f_tri)
            return
        ordered, tris, fidx = res[0].value
        exp_t, exp_f = [], []
        for i, l in enumerate(lists):
            for k in range(1, len(l) - 1):
                exp_t.append((l[0], l[k], l[k + 1]))
                exp_f.append(i)
        same = lambda a, b: (z3.is_expr(a) and z3.is_expr(b) and a.eq(b)) or (not z3.is_expr(a) and not z3.is_expr(b) and a == b)
        ok_t = isinstance(tris, NDArr) and tris.shape == (len(exp_t), 3) and all(same(tris.data[r, c], exp_t[r][c]) for r in range(len(exp_t)) for c in range(3))
        ok_f = list(fidx) == exp_f if isinstance(fidx, list) else False
        ok_o = isinstance(ordered, list) and len(ordered) == len(lists) and all(len(a) == len(b) and all(same(x, y) for x, y in zip(a, b)) for a, b in zip(ordered, lists))
        H = res[0].pc
        ctx.prove(lab + "/triangles", [], z3.BoolVal(bool(ok_t)), clause="a polygon (v0..v_{N-1}) contributes exactly the triangles (v0, v_k, v_{k+1}), 1 <= k <= N-2, in facet order; "
                  f"empty and 2-vertex facets contribute none (sizes {sorted(set(sizes))})", replay=replay_for("closed", "outward", "volume", "facet_lists"), fn=f_tri)
        ctx.prove(lab + "/triangle_facet", [], z3.BoolVal(bool(ok_f)), clause="facet_indices[t] is the facet whose polygon produced triangle t",
                  replay=replay_for("outward", "facet_lists"), fn=f_tri)
        ctx.prove(lab + "/ordered_passthrough", [], z3.BoolVal(bool(ok_o)), clause="the ordered facets are returned unchanged as the first result", replay=replay_for("facet_lists"), fn=f_tri)
    ctx.attempt("wulff.order_and_triangulate_polygons/ensures/fan.indices", fan, fn=f_tri)

    # ---- P: _fix_wulff_mesh stores the three results where the rest of the class reads them ---------------------------------
    def fix():
        A_, B_, C_ = [z3.Int("fa0"), z3.Int("fa1"), z3.Int("fa2")], farr([[1, 2, 3]]), [z3.Int("ti0")]
        seen = {}

        def res_fn(I2, pts, fcs, nrm):
            seen["args"] = (pts, fcs, nrm)
            return ([list(A_)], NDArr(obj_array([[z3.Int("t0"), z3.Int("t1"), z3.Int("t2")]]), "i"), list(C_))
        I = ctx.interp(models=extra_models(), contracts={MOD + ".order_and_triangulate_polygons": Contract(result=res_fn)})
        WC = I.class_of(mod, "WulffConstruction")
        pts, fcs, nrm = farr([[1, 2, 3]]), [[0]], farr([[0, 0, 1]])

        def th(I2, a, kw):
            w = Obj(WC, {"wulff_vertices": pts, "wulff_facets": fcs, "facet_normals": nrm})
            I2.call(I2.getattr(w, "_fix_wulff_mesh"), [])
            return w
        res = I.explore(th)
        ok = len(res) == 1 and res[0].kind == "return"
        if ok:
            w = res[0].value
            fa, tr, ti = w.fields.get("wulff_facets"), w.fields.get("wulff_triangles"), w.fields.get("wulff_triangle_indices")
            ok = (isinstance(fa, list) and len(fa) == 1 and [x.eq(y) for x, y in zip(fa[0], A_)] == [True] * 3 and isinstance(tr, NDArr) and tr.shape == (1, 3)
                  and [str(x) for x in tr.flat()] == ["t0", "t1", "t2"] and isinstance(ti, NDArr) and [str(x) for x in ti.flat()] == ["ti0"])
            a = seen.get("args")
            ok = ok and a is not None and isinstance(a[0], NDArr) and a[0].shape == (1, 3) and a[1] == [[0]] and isinstance(a[2], NDArr) and str(a[2].flat()[2]) == "1"
        ctx.prove("wulff.WulffConstruction._fix_wulff_mesh/ensures/dataflow", [], z3.BoolVal(bool(ok)),
                  clause="calls order_and_triangulate_polygons(wulff_vertices, wulff_facets, facet_normals) and stores (ordered facets, triangles, triangle->facet) in "
                         "wulff_facets, wulff_triangles, wulff_triangle_indices", replay=replay_for("facet_lists", "outward", "closed"), fn=f_fix)
    ctx.attempt("wulff.WulffConstruction._fix_wulff_mesh/ensures/dataflow", fix, fn=f_fix)

    # ---- P: project_to_plane preserves orientation about the facet normal --------------------------------------------------
    def proj():
        pts = [reals(f"p{i}_", 3) for i in range(4)]
        nn = reals("q", 3)
        I = ctx.interp(models=extra_models())
        fv = I.lookup_global(mod, "project_to_plane")
        res = I.explore(lambda I2, a, kw: I2.call(fv, [farr(pts), farr(nn)], {}), pre=[dot3(nn, nn) == 1])
        lab = "wulff.project_to_plane/ensures/orientation"
        if len(res) != 1 or res[0].kind != "return" or not isinstance(res[0].value, NDArr) or res[0].value.shape != (4, 2):
            ctx.prove(lab, [], z3.BoolVal(False), clause="returns one (u, v) pair per point", replay=replay_for("outward", "closed", "facet_lists"), fn=f_proj)
            return
        UV = res[0].value.data
        H = res[0].pc
        d10 = sub3(pts[1], pts[0])
        a = sub3(d10, [dot3(d10, nn) * nn[k] for k in range(3)])       # in-plane part of p1 - p0
        a2 = dot3(a, a)
        prng = np.random.default_rng(ctx.seed + 5)
        points = []
        for _ in range(2):
            q_ = rational_unit(prng)
            model, subst = {}, []
            for k in range(3):
                subst.append((nn[k], z3.RealVal(str(q_[k]))))
                model[f"q{k}"] = str(q_[k])
            for i in range(4):
                for k in range(3):
                    val = Fraction(int(prng.integers(-20, 21)), 7)
                    subst.append((pts[i][k], z3.RealVal(str(val))))
                    model[f"p{i}_{k}"] = str(val)
            points.append((model, subst))
        for (i, j) in ((1, 2), (2, 3), (1, 3)):
            lhs = (UV[i, 0] - UV[0, 0]) * (UV[j, 1] - UV[0, 1]) - (UV[j, 0] - UV[0, 0]) * (UV[i, 1] - UV[0, 1])
            rhs = a2 * dot3(nn, cross3(sub3(pts[i], pts[0]), sub3(pts[j], pts[0])))
            prove_eq(f"{lab}/p{i}p{j}", H, lhs, rhs, "2-D signed area of (p0, p_i, p_j) after projection = |a|^2 * n.((p_i - p0) x (p_j - p0)), a = in-plane part of p1 - p0: "
                     "counter-clockwise in the (u, v) plane is counter-clockwise about the outward normal", ("outward", "closed", "facet_lists", "volume"), f_proj, points, None)
    ctx.attempt("wulff.project_to_plane/ensures/orientation", proj, fn=f_proj)

    # ---- B: the whole statement on the real constructor ----------------------------------------------------------------------
    def pack(table):
        return [{"input": v["input"], "observed": v["observed"], "clause": CLAUSES[k], "key": k} for k, v in list(table.items())[:3]]
    ctx.add_bounded("wulff.WulffConstruction/bounded/native_statement",
                    f"{nat['n_generic']} seeded generic facet sets: k random unit normals + their negatives (6..60 normals in total, up to 120 for every fifth set in the thorough tier), "
                    f"energies base*[1,2] independently per normal (every third set centrosymmetric energies), base in [0.5,3], scale factor s in [0.25,4]; sets whose polytope has two "
                    f"vertices closer than {MIN_SEP} x max energy are skipped ({nat['skipped']} skipped); {len(CLAUSES) - 1} clauses each against a qhull-free half-space intersection",
                    nat["evals"], nat["distinct"], pack(nat["fails"]), samples=[nat["sample"]] if nat["sample"] else None,
                    rule="distinct random facet sets; tolerances 1e-9 (plane residuals, volume) and 1e-7 (vertex identification) relative to the largest energy: float64 3x3 solves "
                         "with condition numbers up to ~1e5 on this domain")
    ctx.add_bounded("wulff.WulffConstruction/bounded/degenerate_shapes",
                    "axis-aligned degenerate shapes: cubes, boxes, 3..12-gonal prisms (even/uneven energies), octahedron, rhombic dodecahedron, cuboctahedron, truncated cube / "
                    "octahedron, cube with cut-off, tangent and cutting {111} / {110} facets, {100}+{111}+{110}; plus seeded boxes / prisms / {100}+{111} with energies within a factor two; s = 2.5",
                    nat["devals"], nat["ddistinct"], pack(nat["dfails"]), rule="distinct named shapes; same clauses and tolerances (coincident vertices identified by position)")
    sw_bad, sw_ev, sw_n = nat["sweep"]
    ctx.add_bounded("wulff.WulffConstruction/bounded/scale_sweep",
                    "cube, box, hexagonal prism and one seeded generic set with all energies multiplied by 10^k, k = -7..6 (the statement has no preferred unit of length; "
                    "the scaling clause quantifies over every s > 0); same clauses, tolerances relative to the largest energy",
                    sw_ev, sw_n, [] if sw_bad is None else [{"input": sw_bad["input"], "observed": sw_bad["observed"], "key": "absolute_prune_threshold",
                                                             "clause": "the construction commutes with a change of length unit: energies * 10^k give the same shape * 10^k (constructor returns, closed "
                                                                       "outward mesh, vertex set and volume of the half-space intersection)"}],
                    rule="distinct (shape, k) pairs")
    ctx.notes.append(f"native stand-ins took {t_native:.1f}s")
