"""C20 spec functions (mathematics, not code), the reference implementation used as oracle, and the loop invariants of the
Sobol kernels.  Invariants name no program variable: every array / scalar they talk about is bound structurally from the AST of
the loop they belong to (so renaming a local or reordering independent statements does not unbind them).
"""
import ast

import z3

from contracts.c20_hoare import BVS, LoopSpec, Schema, Axiom, Arr, RowView, bv
from pyvc.values import Unsupported

ONES = 0xFFFFFFFF


# ---------------------------------------------------------------------------------------------------------------------
# reference implementation (independent of the kernels: Gray-code closed form, exact integers)
# ---------------------------------------------------------------------------------------------------------------------
def ref_degree(row):
    """number of initial direction numbers the kernel's convention gives a table row: index of the first zero among
    row[1:], minus one; a row without a zero counts len(row)-2 (the kernel's loop variable stops at len-1, then s -= 1)."""
    for t in range(1, len(row)):
        if row[t] == 0:
            return t - 1
    return len(row) - 2


def ref_directions(table, d, upto):
    """V_d[1..upto] scaled by 2^32 (Joe-Kuo recurrence); coordinate d = 0 is the van der Corput sequence."""
    V = [0] * (upto + 1)
    if d == 0:
        for i in range(1, upto + 1):
            V[i] = 1 << (32 - i)
        return V
    row = [int(x) for x in table[d + 1]]
    s, a = ref_degree(row), row[0]
    for i in range(1, upto + 1):
        if i <= s:
            V[i] = (row[i] << (32 - i)) & ONES
        else:
            v = V[i - s] ^ (V[i - s] >> s)
            for k in range(1, s):
                if (a >> (s - 1 - k)) & 1:
                    v ^= V[i - k]
            V[i] = v
    return V


def ref_x(V, n):
    """X(n) = xor of V[b+1] over the set bits b of gray(n)."""
    g = n ^ (n >> 1)
    x, b = 0, 0
    while g:
        if g & 1:
            x ^= V[b + 1]
        g >>= 1
        b += 1
    return x


def ref_point(table, seed, D, dirs=None):
    """Sobol point for `seed` (>= 1) in D dimensions, as exact integers X_d(seed-1) (value = X / 2^32)."""
    n = seed - 1
    bits = max(1, n.bit_length())
    out = []
    for d in range(D):
        V = dirs[d] if dirs is not None else ref_directions(table, d, bits)
        out.append(ref_x(V, n))
    return out


# ---------------------------------------------------------------------------------------------------------------------
# z3 spec
# ---------------------------------------------------------------------------------------------------------------------
def cto1(k):
    """1 + number of trailing one bits of k (position, from 1, of the lowest zero bit); 0 for k = 2^32-1."""
    z = ~k & (k + 1)
    acc = bv(0)
    for p in range(31, -1, -1):
        acc = z3.If(z == bv(1 << p), bv(p + 1), acc)
    return acc


class SobolSpec:
    def __init__(self, rows, width):
        self.rows, self.width = rows, width
        self.poly = z3.Const("poly_tab", z3.ArraySort(z3.BitVecSort(64), BVS))
        self.Xs = z3.Function("Xs", BVS, BVS, BVS)
        self.Vs = z3.Function("Vs", BVS, BVS, BVS)
        self.Acc = z3.Function("Acc", BVS, BVS, BVS, BVS)
        self.u2d = z3.Function("u2d", BVS, z3.RealSort())

    def T(self, r, c):
        return z3.Select(self.poly, z3.Concat(r, c if z3.is_expr(c) else bv(c)))

    def deg(self, d):
        """degree as the kernel's convention reads it from row d+1 (see ref_degree)."""
        r = d + 1
        acc = bv(self.width - 2)
        for t in range(self.width - 1, 0, -1):
            acc = z3.If(self.T(r, t) == 0, bv(t - 1), acc)
        return acc

    def axioms(self):
        Xs, Vs, Acc = self.Xs, self.Vs, self.Acc

        def ax_xs(d, k):
            return z3.And(z3.Implies(k == 0, Xs(d, k) == 0),
                          z3.Implies(k != 0, Xs(d, k) == Xs(d, k - 1) ^ Vs(d, cto1(k - 1))))

        def ax_vs(d, i):
            s = self.deg(d)
            rng = z3.And(z3.ULE(1, i), z3.ULE(i, 32))
            return z3.Implies(rng, z3.And(
                z3.Implies(d == 0, Vs(d, i) == (bv(1) << (32 - i))),
                z3.Implies(z3.And(d != 0, z3.ULE(i, s)), Vs(d, i) == (self.T(d + 1, i) << (32 - i))),
                z3.Implies(z3.And(d != 0, z3.UGT(i, s)), Vs(d, i) == Acc(d, i, s))))

        def ax_acc(d, i, k):
            s = self.deg(d)
            a = self.T(d + 1, 0)
            prev = k - 1
            return z3.And(
                z3.Implies(z3.ULE(k, 1), Acc(d, i, k) == Vs(d, i - s) ^ z3.LShR(Vs(d, i - s), s)),
                z3.Implies(z3.UGE(k, 2), Acc(d, i, k) == Acc(d, i, prev) ^ z3.If((z3.LShR(a, s - 1 - prev) & 1) == 1, Vs(d, i - prev), bv(0))))

        def ax_u2d(x):
            return z3.And(self.u2d(x) >= 0, self.u2d(x) <= 4294967295)
        return [Axiom(Xs, ax_xs), Axiom(Vs, ax_vs), Axiom(Acc, ax_acc), Axiom(self.u2d, ax_u2d)]

    def point(self, d, n):
        """spec value of coordinate d of the point with 0-based index n."""
        return self.u2d(self.Xs(d, n)) / z3.RealVal(4294967296)

    def table_ok(self):
        """what the proofs assume about the table (checked exhaustively by the table obligations): every row that a
        coordinate >= 1 reads has a non-zero first direction number."""
        return Schema("table:first-nonzero", "idx",
                      lambda r: z3.Implies(z3.And(z3.ULE(2, r), z3.ULT(r, bv(self.rows))), self.T(r, 1) != 0), self.poly, lambda r, c: r)


# ---------------------------------------------------------------------------------------------------------------------
# structural binding of loop roles
# ---------------------------------------------------------------------------------------------------------------------
def _stores(body):
    """(array name, slice node, value node, stmt) of every subscript store / augmented store in a statement list (deep)."""
    out = []
    for st in body:
        for n in ast.walk(st):
            if isinstance(n, ast.Assign) and len(n.targets) == 1 and isinstance(n.targets[0], ast.Subscript) and isinstance(n.targets[0].value, ast.Name):
                out.append((n.targets[0].value.id, n.targets[0].slice, n.value, n))
            elif isinstance(n, ast.AugAssign) and isinstance(n.target, ast.Subscript) and isinstance(n.target.value, ast.Name):
                out.append((n.target.value.id, n.target.slice, n.value, n))
    return out


def _has(body, typ):
    return any(isinstance(n, typ) for st in body for n in ast.walk(st))


def _nested_subscript(expr):
    """(outer array, inner array, inner index node) of a pattern  A[ B[e] ]  inside expr."""
    for n in ast.walk(expr):
        if isinstance(n, ast.Subscript) and isinstance(n.value, ast.Name) and isinstance(n.slice, ast.Subscript) and isinstance(n.slice.value, ast.Name):
            return n.value.id, n.slice.value.id, n.slice.slice
    return None


def _arr(fr, name):
    v = fr.env.get(name)
    if not isinstance(v, Arr):
        raise Unsupported(f"{name} is not bound to an array")
    return v


def coordinate(K):
    for rec in reversed(K.loops):
        if rec["role"] == "J":
            return rec["var"]
    return bv(0)


class SobolInvariants:
    """classify(K, fr, loop, kind) -> LoopSpec for the loops of quasirandom_sobol / quasirandom_sobol_batch."""

    def __init__(self, spec):
        self.S = spec

    # -- after-statement cut: the degree computed by the scan loop is the spec's degree
    def after(self, K, fr, stmt, prev):
        if (isinstance(stmt, ast.Assign) and isinstance(prev, ast.For) and _has(prev.body, ast.Break) and isinstance(stmt.targets[0], ast.Name)
                and stmt.targets[0].id == prev.target.id and isinstance(stmt.value, ast.BinOp) and isinstance(stmt.value.op, ast.Sub)):
            d = coordinate(K)
            return [("degree", fr.env[stmt.targets[0].id] == self.S.deg(d))]
        return []

    def __call__(self, K, fr, node, kind):
        S = self.S
        if kind == "while":
            return self.ctz_while(K, fr, node)
        body = node.body
        stores = _stores(body)
        inner_for = [n for st in body for n in ast.walk(st) if isinstance(n, ast.For)]
        if _has(body, ast.While):
            return self.c_loop(K, fr, node, stores)
        if any(_has(f.body, ast.Break) for f in inner_for):
            return self.j_loop(K, fr, node)
        if _has(body, ast.Break):
            return self.scan_loop(K, fr, node)
        if len(body) == 1 and isinstance(body[0], ast.Assign) and stores and _nested_subscript(stores[0][2]) and isinstance(stores[0][2], ast.BinOp) \
                and isinstance(stores[0][2].op, ast.BitXor):
            return self.x_loop(K, fr, node, stores[0])
        if any(isinstance(sl, ast.Tuple) for _, sl, _, _ in stores):
            return self.out_loop(K, fr, node, stores)
        if inner_for and stores and isinstance(body[0], ast.Assign) and _has([body[0]], ast.RShift):
            return self.vrec_loop(K, fr, node, stores)
        if len(body) == 1 and isinstance(body[0], ast.AugAssign) and isinstance(body[0].op, ast.BitXor) and K.loops and K.loops[-1]["role"] == "Vrec":
            return self.k_loop(K, fr, node, stores)
        return None

    # -- C[i] = 1 + number of trailing ones of i
    def c_loop(self, K, fr, node, stores):
        cname = stores[0][0]

        def facts(K, fr, t, snap):
            C = _arr(fr, cname).term
            return [("ctz", Schema("C", "idx", lambda k: z3.Implies(z3.ULT(k, t), z3.Select(C, k) == cto1(k)), C))]
        return LoopSpec("C", facts)

    def ctz_while(self, K, fr, node):
        aug = [n for st in node.body for n in ast.walk(st) if isinstance(n, ast.AugAssign)]
        cnt = [n for n in aug if isinstance(n.target, ast.Subscript) and isinstance(n.op, ast.Add)]
        shf = [n for n in aug if isinstance(n.target, ast.Name) and isinstance(n.op, ast.RShift)]
        if len(cnt) != 1 or len(shf) != 1 or not isinstance(cnt[0].target.value, ast.Name):
            return None
        cname, inode, vname = cnt[0].target.value.id, cnt[0].target.slice, shf[0].target.id

        def facts(K, fr, t, snap):
            Cobj = _arr(fr, cname)
            K.quiet += 1
            try:
                i = K.convert(K.eval(inode, fr), "u32")
            finally:
                K.quiet -= 1
            c = z3.Select(Cobj.term, i)
            value = fr.env[vname]
            mask = (bv(1) << (c - 1)) - 1
            return [("count-range", z3.And(z3.ULE(1, c), z3.ULE(c, 32))),
                    ("shifted", value == z3.LShR(i, c - 1)),
                    ("low-ones", (i & mask) == mask),
                    ("frame", Cobj.term == z3.Store(snap[cname], i, c))]
        return LoopSpec("ctz", facts)

    # -- X[k] = Xs(coordinate, k)
    def x_loop(self, K, fr, node, store):
        xname = store[0]
        vname, cname, _ = _nested_subscript(store[2])

        def facts(K, fr, t, snap):
            X = _arr(fr, xname).term
            C = _arr(fr, cname).term
            V = _arr(fr, vname).term
            vlen = _arr(fr, vname).dims[0]
            d = coordinate(K)
            K.quiet += 1
            try:
                hi = K.convert(K.eval(node.iter.args[-1], fr), "u32")
            finally:
                K.quiet -= 1
            return [("gray", Schema("X", "idx", lambda k: z3.Implies(z3.ULT(k, t), z3.Select(X, k) == self.S.Xs(d, k)), X)),
                    # loop-independent helpers: the direction numbers the loop reads are the spec's, and every C[k] it reads is a
                    # valid index of the direction-number array
                    ("v-spec", Schema("Vspec", "idx", lambda k: z3.Implies(z3.And(z3.ULE(1, k), z3.ULT(k, vlen)), z3.Select(V, k) == self.S.Vs(d, k)), V)),
                    ("c-range", Schema("Crange", "idx", lambda k: z3.Implies(z3.And(k + 1 != 0, z3.ULT(k + 1, hi)),
                                                                           z3.And(z3.ULE(1, z3.Select(C, k)), z3.ULT(z3.Select(C, k), vlen))), C))]
        return LoopSpec("X", facts)

    # -- degree scan:  m[1..t-1] are all non-zero
    def scan_loop(self, K, fr, node):
        test = next((n.test for st in node.body for n in ast.walk(st) if isinstance(n, ast.If)), None)
        sub = next((n for n in ast.walk(test) if isinstance(n, ast.Subscript) and isinstance(n.value, ast.Name)), None) if test is not None else None
        if sub is None:
            return None
        mname = sub.value.id

        def facts(K, fr, t, snap):
            m = fr.env.get(mname)
            if not isinstance(m, RowView):
                raise Unsupported("scan loop over something that is not a table row")
            poly, r = m.arr.term, m.row
            return [("prefix-nonzero", Schema("scan", "idx", lambda u: z3.Implies(z3.And(z3.ULE(1, u), z3.ULT(u, t)), z3.Select(poly, z3.Concat(r, u)) != 0), poly, lambda r2, c2: c2))]
        return LoopSpec("S", facts)

    # -- recurrence part of the direction numbers
    def vrec_loop(self, K, fr, node, stores):
        vname = stores[0][0]

        def facts(K, fr, t, snap):
            V = _arr(fr, vname).term
            d = coordinate(K)
            return [("directions", Schema("V", "idx", lambda k: z3.Implies(z3.And(z3.ULE(1, k), z3.ULT(k, t)), z3.Select(V, k) == self.S.Vs(d, k)), V))]
        return LoopSpec("Vrec", facts)

    def k_loop(self, K, fr, node, stores):
        vname, inode = stores[0][0], stores[0][1]

        def facts(K, fr, t, snap):
            Vobj = _arr(fr, vname)
            d = coordinate(K)
            K.quiet += 1
            try:
                i = K.convert(K.eval(inode, fr), "u32")
            finally:
                K.quiet -= 1
            cur = z3.Select(Vobj.term, i)
            return [("partial-xor", cur == self.S.Acc(d, i, t)),
                    ("frame", Vobj.term == z3.Store(snap[vname], i, cur))]
        return LoopSpec("K", facts)

    # -- output of one coordinate of the batch
    def out_loop(self, K, fr, node, stores):
        pname, sl = next((a, s) for a, s, _, _ in stores if isinstance(s, ast.Tuple))
        if not isinstance(sl.elts[0], ast.Name):
            return None
        idxname, colnode = sl.elts[0].id, sl.elts[1]

        def facts(K, fr, t, snap):
            P = _arr(fr, pname).term
            K.quiet += 1
            try:
                col = K.convert(K.eval(colnode, fr), "u32")
                lo = K.convert(K.eval(node.iter.args[0], fr), "u32")
            finally:
                K.quiet -= 1
            idx = fr.env[idxname]
            P0 = snap[pname]
            return [("row-counter", idx == t - lo),
                    ("written", Schema("out", "pair", lambda r, c: z3.Implies(z3.And(c == col, z3.ULT(r, idx)),
                                                                             z3.Select(P, z3.Concat(r, c)) == self.S.point(col, lo + r)), P)),
                    ("frame", Schema("out-frame", "pair", lambda r, c: z3.Implies(c != col, z3.Select(P, z3.Concat(r, c)) == z3.Select(P0, z3.Concat(r, c))), P))]
        return LoopSpec("OUT", facts)

    # -- loop over the coordinates 1..D-1
    def j_loop(self, K, fr, node):
        stores = _stores(node.body)
        two_d = [(a, s) for a, s, _, _ in stores if isinstance(s, ast.Tuple)]
        if two_d:
            pname = two_d[0][0]
            out = next(n for st in node.body for n in ast.walk(st) if isinstance(n, ast.For) and any(isinstance(s, ast.Tuple) for _, s, _, _ in _stores(n.body)))

            def facts(K, fr, t, snap):
                Pobj = _arr(fr, pname)
                P, nrows = Pobj.term, Pobj.dims[0]
                K.quiet += 1
                try:
                    lo = K.convert(K.eval(out.iter.args[0], fr), "u32")
                finally:
                    K.quiet -= 1
                return [("columns", Schema("J", "pair", lambda r, c: z3.Implies(z3.And(z3.ULT(c, t), z3.ULT(r, nrows)),
                                                                               z3.Select(P, z3.Concat(r, c)) == self.S.point(c, lo + r)), P))]
            return LoopSpec("J", facts)
        # single point: the 1-D double array stored at [j]
        cand = [(a, s, v) for a, s, v, _ in stores if isinstance(s, ast.Name) and s.id == node.target.id and _has([ast.Expr(v)], ast.Call)]
        cand = [(a, s, v) for a, s, v in cand if isinstance(fr.env.get(a), Arr) and fr.env[a].elem == "double"]
        if len(cand) != 1:
            return None
        pname, _, val = cand[0]
        xsub = next((n for n in ast.walk(val) if isinstance(n, ast.Subscript) and isinstance(n.value, ast.Name)), None)
        if xsub is None:
            return None

        def facts(K, fr, t, snap):
            P = _arr(fr, pname).term
            K.quiet += 1
            try:
                n = K.convert(K.eval(xsub.slice, fr), "u32")
            finally:
                K.quiet -= 1
            return [("coordinates", Schema("J", "idx", lambda d: z3.Implies(z3.ULT(d, t), z3.Select(P, d) == self.S.point(d, n)), P))]
        return LoopSpec("J", facts)
