"""C06 — ground (tag G) obligations over the complete finite domain of the Lewiner case tables.

The tables are read from the REAL source text: the base64 blocks of chmpy/mc/lookup_tables.py (via the module AST), the edge
tables EDGETORELATIVEPOS{X,Y,Z} of chmpy/mc/_mc.py, and — as text only, Cython is not installed — the call sites of the case
dispatcher `the_big_switch` in chmpy/mc/_mc_lewiner.pyx (which tables belong to which case, and the triangle count nt handed over).
Domain: all 256 corner-sign configurations x every tiling variant the dispatcher can select for the configuration's case
(728 table rows) — complete, so these are G, not samples.  What ties them to the running binary is the run-time conformance
stand-in (B) and the source/binary skew note.
"""
import ast
import base64
import os
import re

import numpy as np

from pyvc import source

CORNERS = [(0, 0, 0), (1, 0, 0), (1, 1, 0), (0, 1, 0), (0, 0, 1), (1, 0, 1), (1, 1, 1), (0, 1, 1)]   # v0..v7 of Cell.set_cube: bit i <-> v_i > level
FACES = [(ax, val) for ax in range(3) for val in (0, 1)]

# the tiling tables `the_big_switch` may select per case (Lewiner et al. 2003); compared with the .pyx text by dispatcher_obligations()
VARIANTS = {
    1: ["TILING1"], 2: ["TILING2"], 3: ["TILING3_1", "TILING3_2"], 4: ["TILING4_1", "TILING4_2"], 5: ["TILING5"],
    6: ["TILING6_1_1", "TILING6_1_2", "TILING6_2"], 7: ["TILING7_1", "TILING7_2", "TILING7_3", "TILING7_4_1", "TILING7_4_2"],
    8: ["TILING8"], 9: ["TILING9"], 10: ["TILING10_1_1", "TILING10_1_1_", "TILING10_1_2", "TILING10_2", "TILING10_2_"],
    11: ["TILING11"], 12: ["TILING12_1_1", "TILING12_1_1_", "TILING12_1_2", "TILING12_2", "TILING12_2_"],
    13: ["TILING13_1", "TILING13_1_", "TILING13_2", "TILING13_2_", "TILING13_3", "TILING13_3_", "TILING13_4", "TILING13_5_1", "TILING13_5_2"],
    14: ["TILING14"],
}


def load_tables():
    m = source.load_module("chmpy.mc.lookup_tables")
    T = {}
    for k, node in m.assigns.items():
        shape, text = ast.literal_eval(node)
        T[k] = np.frombuffer(base64.decodebytes(text.encode("utf-8")), dtype="int8").reshape(shape)
    mc = source.load_module("chmpy.mc._mc")
    E = []
    for name in ("EDGETORELATIVEPOSX", "EDGETORELATIVEPOSY", "EDGETORELATIVEPOSZ"):
        E.append(np.array(ast.literal_eval(mc.assigns[name].args[0]), dtype=int))
    return T, E


def pyx_text():
    p = os.path.join(source.SRC_ROOT, "chmpy", "mc", "_mc_lewiner.pyx")
    return p, open(p).read()


def dispatcher_spec(text):
    """{case: {table: nt}} from the text of the_big_switch (call sites add_triangles / add_triangles2)."""
    a = text.index("cdef void the_big_switch")
    b = text.index("cdef int test_face")
    body = text[a:b]
    parts = re.split(r"\n    (?:if|elif) case == (\d+)\s*:", body)
    out = {}
    for k in range(1, len(parts), 2):
        case = int(parts[k])
        seg = parts[k + 1]
        calls = {}
        for mm in re.finditer(r"cell\.add_triangles(2?)\(luts\.(TILING\w+),\s*config,\s*(?:(\d+),\s*)?(\d+)\)", seg):
            calls.setdefault(mm.group(2), set()).add(int(mm.group(4)))
        out[case] = calls
    return out


def embedded_pyx_lines(c_path, pyx_basename):
    """{line number: text} of the .pyx lines Cython embedded as comments in the generated C file."""
    out = {}
    pat = re.compile(r'^\s*/\* "[^"]*' + re.escape(pyx_basename) + r'":(\d+)\s*$')
    lines = open(c_path, errors="replace").read().split("\n")
    k = 0
    while k < len(lines):
        m = pat.match(lines[k])
        if m:
            target = int(m.group(1))
            k += 1
            while k < len(lines) and not lines[k].strip().startswith("*/"):
                mm = re.match(r"^ \* (.*?)(\s*# <<<<<<<<<<<<<<)?$", lines[k])
                if mm and mm.group(2):
                    out[target] = mm.group(1)
                k += 1
        k += 1
    return out


def skew_note(ctx):
    p, text = pyx_text()
    cpath = p[:-4] + ".c"
    if not os.path.exists(cpath):
        cpath = "/repo/src/chmpy/mc/_mc_lewiner.c"     # scratch worktrees get the .so copied, not the generated C file
    if not os.path.exists(cpath):
        ctx.notes.append("source/binary skew check (_mc_lewiner): generated C file not found")
        return
    emb = embedded_pyx_lines(cpath, "_mc_lewiner.pyx")
    lines = text.split("\n")
    bad = [k for k, v in emb.items() if k > len(lines) or v.rstrip() != lines[k - 1].rstrip()]
    if bad:
        ctx.notes.append(f"SOURCE/BINARY SKEW: {len(bad)} of {len(emb)} .pyx lines embedded in _mc_lewiner.c differ from the working-tree .pyx (first: line {min(bad)}); "
                         "the G obligations on the dispatcher text speak about the source, the B stand-ins about the stale binary")
    else:
        ctx.notes.append(f"source/binary skew check: all {len(emb)} .pyx lines embedded in _mc_lewiner.c match the working-tree _mc_lewiner.pyx")


def table_obligations(ctx):
    lab = "mc.lookup_tables/"
    try:
        T, (EX, EY, EZ) = load_tables()
    except Exception as e:  # noqa
        ctx.ground(lab + "decodes", False, clause="every table of lookup_tables.py decodes to an int8 array of its declared shape; the edge tables of _mc.py are literal",
                   witness={"error": repr(e)}, detail=repr(e))
        return None
    ctx.ground(lab + "decodes", True, clause="every table of lookup_tables.py decodes to an int8 array of its declared shape; the edge tables of _mc.py are literal", detail={"tables": len(T)})
    cidx = {c: i for i, c in enumerate(CORNERS)}
    # ---- the 12 cube edges: each joins two corners differing in exactly one coordinate; all 12 distinct
    edge_ok, EDGE = True, []
    try:
        for e in range(12):
            a = (int(EX[e][0]), int(EY[e][0]), int(EZ[e][0]))
            b = (int(EX[e][1]), int(EY[e][1]), int(EZ[e][1]))
            EDGE.append((cidx[a], cidx[b]))
            edge_ok = edge_ok and sum(abs(x - y) for x, y in zip(a, b)) == 1
        edge_ok = edge_ok and len({frozenset(x) for x in EDGE}) == 12 and EX.shape == (12, 2) and EY.shape == (12, 2) and EZ.shape == (12, 2)
    except Exception:  # noqa
        edge_ok = False
    ctx.ground("mc._mc.EDGETORELATIVEPOS/cube_edges", edge_ok, clause="the 12 entries of EDGETORELATIVEPOSX/Y/Z are the 12 distinct edges of the unit cube (end points differ in exactly one coordinate)",
               witness={"edges": [list(map(int, x)) for x in EDGE]}, detail={"edges": len(EDGE)})
    if not edge_ok:
        return T
    EF = {f: {e for e in range(12) if all(CORNERS[c][f[0]] == f[1] for c in EDGE[e])} for f in FACES}

    def mid(e):
        a, b = EDGE[e]
        return (np.array(CORNERS[a], dtype=float) + np.array(CORNERS[b], dtype=float)) / 2

    bad = {k: [] for k in ("cases", "config_range", "edge_range", "distinct", "straddle", "duplicate_directed_edge", "interior_edge_unmatched",
                           "face_segments", "face_orientation", "single_corner_normal", "row_length")}
    rows = 0
    for c in range(256):
        try:
            case, cfg = int(T["CASES"][c][0]), int(T["CASES"][c][1])
        except Exception:  # noqa
            bad["cases"].append({"config": c})
            continue
        if (case == 0) != (c in (0, 255)) or not 0 <= case <= 14:
            bad["cases"].append({"config": c, "case": case})
            continue
        if case == 0:
            continue
        bits = [(c >> i) & 1 for i in range(8)]
        for name in VARIANTS[case]:
            tab = T.get(name)
            if tab is None or not 0 <= cfg < tab.shape[0]:
                bad["config_range"].append({"config": c, "case": case, "table": name, "table_config": cfg})
                continue
            sub = tab[cfg] if tab.ndim == 3 else tab[cfg][None]
            for si, row in enumerate(sub):
                rows += 1
                w = {"config": c, "case": case, "table": name, "table_config": cfg, "sub": si}
                if len(row) % 3:
                    bad["row_length"].append(w)
                    continue
                row = [int(x) for x in row]
                if min(row) < 0 or max(row) > 12:
                    bad["edge_range"].append({**w, "row": row})
                    continue
                tris = [row[i:i + 3] for i in range(0, len(row), 3)]
                if any(len(set(t)) != 3 for t in tris):
                    bad["distinct"].append({**w, "row": row})
                for e in row:
                    if e < 12 and bits[EDGE[e][0]] == bits[EDGE[e][1]]:
                        bad["straddle"].append({**w, "edge": e})
                        break
                de = [(t[i], t[(i + 1) % 3]) for t in tris for i in range(3)]
                s = set(de)
                if len(s) != len(de):
                    bad["duplicate_directed_edge"].append(w)
                unmatched = [(a, b) for (a, b) in de if (b, a) not in s]
                for (a, b) in unmatched:
                    if not (a < 12 and b < 12 and any(a in EF[f] and b in EF[f] for f in FACES)):
                        bad["interior_edge_unmatched"].append({**w, "edge": [a, b]})
                        break
                for f in FACES:
                    segs = [(a, b) for (a, b) in unmatched if a < 12 and b < 12 and a in EF[f] and b in EF[f]]
                    strad = sorted(e for e in EF[f] if bits[EDGE[e][0]] != bits[EDGE[e][1]])
                    if sorted(x for sg in segs for x in sg) != strad:
                        bad["face_segments"].append({**w, "face": list(f), "segments": segs, "straddling_edges": strad})
                        break
                    n = np.zeros(3)
                    n[f[0]] = 1.0 if f[1] == 1 else -1.0
                    for (a, b) in segs:
                        ca = [cc for cc in EDGE[a] if bits[cc] == 1]
                        if not ca:
                            continue
                        sgn = float(np.dot(n, np.cross(mid(b) - mid(a), np.array(CORNERS[ca[0]], dtype=float) - mid(a))))
                        if not sgn > 0:
                            bad["face_orientation"].append({**w, "face": list(f), "segment": [a, b]})
                            break
                if sum(bits) in (1, 7) and len(tris) == 1:
                    odd = bits.index(1) if sum(bits) == 1 else bits.index(0)
                    p = [mid(e) for e in tris[0]]
                    nrm = np.cross(p[1] - p[0], p[2] - p[0])
                    toward = float(np.dot(nrm, np.array(CORNERS[odd], dtype=float) - p[0]))
                    if not (toward > 0 if sum(bits) == 1 else toward < 0):
                        bad["single_corner_normal"].append({**w, "triangle": tris[0]})
    dom = {"configurations": 256, "table_rows": rows}
    cl = {
        "cases": "CASES[c] = (case, config) with case 0 exactly for the two uniform configurations and 1..14 otherwise",
        "config_range": "the table-config of every configuration indexes a row of every tiling table its case can select",
        "row_length": "every tiling row is a whole number of triangles",
        "edge_range": "every tiling entry is a cube-edge id 0..11 or the auxiliary cell-interior vertex 12",
        "distinct": "no triangle of a tiling repeats a vertex id",
        "straddle": "every cube edge used by a tiling of configuration c joins two corners on opposite sides of the level in c (vertices lie on straddling grid edges)",
        "duplicate_directed_edge": "no directed triangle edge occurs twice within a cell",
        "interior_edge_unmatched": "every triangle edge that does not lie in a cube face is shared by exactly two triangles of the cell, traversed in opposite directions",
        "face_segments": "on every cube face the unmatched triangle edges join up exactly the straddling cube edges of that face, each once (what the neighbouring cell must match)",
        "face_orientation": "every cube-face segment a->b has the inside (greater) corner of edge a on the same side seen from outside the cube: neighbouring cells traverse shared segments in opposite directions",
        "single_corner_normal": "for the 16 single-corner configurations the right-hand triangle normal (kernel x,y,z order) points to the greater side",
    }
    for k, items in bad.items():
        ctx.ground(lab + "tilings/" + k, not items, clause=cl[k] + f"  [all 256 configurations x every selectable tiling: {rows} rows]", detail={**dom, "violations": len(items)},
                   witness=items[0] if items else None)
    return T


def dispatcher_obligations(ctx, T):
    """The .pyx text of the_big_switch: per case the tables of VARIANTS, and nt * 3 == row length of the table handed over."""
    lab = "mc._mc_lewiner.the_big_switch/"
    try:
        p, text = pyx_text()
        spec = dispatcher_spec(text)
    except Exception as e:  # noqa
        ctx.ground(lab + "parsed", False, clause="the case dispatcher of _mc_lewiner.pyx has the shape `if/elif case == k: cell.add_triangles[2](luts.TILINGx, config, [sub,] nt)`", witness={"error": repr(e)})
        return
    ok_tables = sorted(spec) == list(range(1, 15)) and all(sorted(spec[k]) == sorted(VARIANTS[k]) for k in range(1, 15))
    w = None
    if not ok_tables:
        w = {str(k): sorted(spec.get(k, {})) for k in range(1, 15) if sorted(spec.get(k, {})) != sorted(VARIANTS[k])}
    ctx.ground(lab + "tables_per_case", ok_tables, clause="for every case 1..14 the dispatcher selects exactly the tiling tables of that case (Lewiner's case table)", witness=w, detail={"cases": len(spec)})
    badnt = []
    for k, calls in spec.items():
        for name, nts in calls.items():
            tab = T.get(name) if T else None
            if T is None:
                continue        # the tables did not decode: reported by mc.lookup_tables/decodes
            if tab is None or len(nts) != 1 or tab.shape[-1] != 3 * next(iter(nts)):
                badnt.append({"case": k, "table": name, "nt": sorted(nts), "row_length": None if tab is None else int(tab.shape[-1])})
    ctx.ground(lab + "triangle_counts", not badnt, clause="the triangle count nt handed to add_triangles is the row length of the table / 3, for every call site", witness=badnt[0] if badnt else None,
               detail={"call_site_tables": sum(len(v) for v in spec.values())})
    # the corner numbering and the bit order used by the G obligations, as written in Cell.set_cube and in marching_cubes
    bits_ok = all(re.search(r"if self\.v%d > 0\.0:\s*index \+= %d\b" % (i, 1 << i), text) for i in range(8))
    order = re.search(r"cell\.set_cube\(isovalue, x, y, z, st,\s*im\[z\s*,y, x\], im\[z\s*,y, x_st\], im\[z\s*,y_st, x_st\], im\[z\s*,y_st, x\],\s*"
                      r"im\[z_st,y, x\], im\[z_st,y, x_st\], im\[z_st,y_st, x_st\], im\[z_st,y_st, x\] \)", text)
    ctx.ground("mc._mc_lewiner.Cell.set_cube/corner_bits", bool(bits_ok and order), clause="corner v_i contributes bit 2^i when v_i - level > 0, and v0..v7 are the cube corners in the order "
               "(0,0,0),(1,0,0),(1,1,0),(0,1,0),(0,0,1),(1,0,1),(1,1,1),(0,1,1) of (x,y,z) with im indexed [z,y,x] (text of the .pyx)", witness={"bits": bool(bits_ok), "corner_order": bool(order)})
