"""C15 run-time side: the statement's domain written out (Dom), comparison of a parsed document with the original, native
round trips on the real chmpy.fmt.cif, generators for the bounded stand-ins."""
import itertools
import math
import re

RESERVED = ("data_", "loop_", "save_", "global_", "stop_")
NUM_LIKE = re.compile(r"([-+]?(\d+([.,]\d*)?|[.,]\d+)([eE][-+]?\d+)?)(\(\d+\))?")     # the oracle's own copy of "spelled like a number"
H12 = 0.5e-12


def cifmod():
    from chmpy.fmt import cif
    return cif


# ------------------------------------------------------------------------------------------------ Dom
def string_class(s, pos):
    """Class of a string value in position pos ('scalar' | 'loop').  'out' = outside the statement's domain; 'ok' = must round-trip;
    every other label is a class in which the unchanged tree was seen to fail (kept as separate obligations)."""
    if s == "":
        return "empty"
    if any(not (32 <= ord(c) < 127) for c in s):
        return "out"                    # control characters, tabs, newlines, non-ASCII: not "strings with or without embedded spaces"
    if NUM_LIKE.fullmatch(s):
        return "out"                    # spelled like a number
    if s[0] in "_#;" or s.lower().startswith(RESERVED):
        return "out"                    # spelled like a data name, comment, text field or reserved word
    if "'" in s and '"' in s and (" " in s or s[0] in "'\""):
        return "out"                    # would have to be quoted and holds both quote characters: CIF 1.1 cannot express it on one line
    if s[0] in "'\"":
        return "lead_quote"
    if s[0] == " ":
        return "lead_blank"
    has_q = "'" in s or '"' in s
    if pos == "loop" and " " in s and has_q:
        return "blank_and_quote"
    if pos == "scalar" and "  " in s:
        return "blank_run"
    if pos == "scalar" and " " in s and has_q and s.endswith(" "):
        return "blank_and_quote"
    return "ok"


STRING_CLASSES = {
    "empty": "the empty string (scalar: the next line is swallowed as the value; loop: the field vanishes and the columns shift)",
    "lead_quote": "strings that start with a quote character, e.g. 'x' or 'tis (read as quoted text / merged with the next quote)",
    "lead_blank": "strings with a leading blank, e.g. ' lead' or ' ' (QUOTE_REGEX's \\s* eats it)",
    "blank_and_quote": "strings with a blank and one kind of quote character, e.g. \"it's a\" (written unquoted: the row splits; scalar: trailing blank lost)",
    "blank_run": "scalar strings with a run of blanks, e.g. 'a  b' (split()/join collapses the run)",
}


# ------------------------------------------------------------------------------------------------ comparison
def same_value(a, b, pos, float_type=True):
    """Is b (read back) the same item value as a (written)?  pos 'scalar' | 'loop'."""
    if isinstance(a, bool) or a is None:
        return False
    if isinstance(a, int):
        return type(b) is int and a == b
    if isinstance(a, float):
        if float_type and type(b) is not float:
            return False
        if not isinstance(b, (int, float)) or isinstance(b, bool):
            return False
        if pos == "scalar":
            return float(b) == a            # repr() is exact
        return abs(float(b) - a) <= H12 + abs(a) * 2.0 ** -52       # half a unit of the 12th decimal + binary64 rounding of the decimal text
    if isinstance(a, str):
        return type(b) is str and a == b
    return False


def compare_docs(d, back, float_type=True):
    """List of differences (empty = same block names, item names, value types and values, columns aligned row by row)."""
    out = []
    if not isinstance(back, dict):
        return [f"result is {back!r}"]
    if set(d) != set(back):
        out.append(f"block names {sorted(back)} != {sorted(d)}")
    for bn in d:
        if bn not in back:
            continue
        blk, bb = d[bn], back[bn]
        if set(blk) != set(bb):
            out.append(f"block {bn}: item names {sorted(bb)} != {sorted(blk)}")
        for k, v in blk.items():
            if k not in bb:
                continue
            w = bb[k]
            if isinstance(v, list):
                if not isinstance(w, list) or len(w) != len(v):
                    out.append(f"{bn}.{k}: column {w!r} != {v!r}")
                    continue
                for i, (x, y) in enumerate(zip(v, w)):
                    if not same_value(x, y, "loop", float_type):
                        out.append(f"{bn}.{k}[{i}]: {y!r} ({type(y).__name__}) != {x!r} ({type(x).__name__})")
            elif not same_value(v, w, "scalar", float_type):
                out.append(f"{bn}.{k}: {w!r} ({type(w).__name__}) != {v!r} ({type(v).__name__})")
    return out


def roundtrip(d, float_type=True):
    """(ok, observed) of Cif(d).to_string() -> Cif.from_string on the real code."""
    cif = cifmod()
    text = None
    try:
        text = cif.Cif(d).to_string()
        back = cif.Cif.from_string(text).data
    except Exception as e:  # noqa
        return False, {"exception": repr(e)[:200], "text": None if text is None else text[:400]}
    diff = compare_docs(d, back, float_type)
    return not diff, {"differences": diff[:4], "text": text[:400], "read_back": repr(back)[:400]}


# ------------------------------------------------------------------------------------------------ generators
def string_docs(s, pos):
    """Documents that put the string s in the given position next to other kinds of fields."""
    if pos == "scalar":
        return [{"b": {"k": s, "z": 7}}, {"b": {"z": 7, "k": s}}]
    return [{"b": {"l_a": [s, "q"], "l_b": [3, 4]}},                                  # first column
            {"b": {"l_a": [1, 2], "l_b": [s, "u v"], "l_c": [2.5, 3.5]}},              # middle column, next to a quoted field below it
            {"b": {"l_a": ["x y", "w"], "l_b": [s, s]}}]                              # last column, after a quoted field


def strings_over(alphabet, maxlen):
    for L in range(0, maxlen + 1):
        for t in itertools.product(alphabet, repeat=L):
            yield "".join(t)


WORDS = ["C1", "O2a", "x,y,z", "-x,1/2+y,z", "P21/c", "it's", 'say"hi"', "a;b", "H-M", "?", ".", "abc_def", "1x", "e5", "x#y", "N(3)", "+", "-", "a_", "END"]
PHRASES = ["P 21/c", "a b", "x  y", "trail ", "a #b", "two  blanks  here", "C 2 2 21", "a ;b; c", "loop_ x", "1 2", "x _y", "- -"]


def rand_string(rng, loop):
    r = rng.random()
    if r < 0.5:
        s = WORDS[int(rng.integers(len(WORDS)))]
    elif r < 0.8:
        s = PHRASES[int(rng.integers(len(PHRASES)))]
    else:
        n = int(rng.integers(1, 9))
        chars = "abcXYZ019 .,-+/()[]:;=*%&<>!?@^|~_#'\""
        s = "".join(chars[int(k)] for k in rng.integers(0, len(chars), size=n))
    return s if string_class(s, "loop" if loop else "scalar") == "ok" else rand_string(rng, loop)


def rand_int(rng):
    r = rng.random()
    if r < 0.3:
        return int(rng.integers(-20, 21))
    if r < 0.6:
        return int(rng.integers(-10 ** 6, 10 ** 6))
    if r < 0.8:
        return int(rng.choice([2 ** 53, -2 ** 53, 2 ** 53 - 1, 10 ** 15, 0, -1, 99999999999999999999 % 2 ** 53]))
    return int(rng.integers(-2 ** 53, 2 ** 53))


def rand_float(rng, loop):
    """A float whose 12-decimal rendering (loop) / value (scalar) is not integral."""
    while True:
        r = rng.random()
        if r < 0.4:
            x = float(rng.uniform(-10, 10))
        elif r < 0.7:
            x = float(rng.uniform(-1e6, 1e6))
        elif r < 0.85:
            x = float(rng.choice([0.1, -0.5, 1e-12, -1e-12, 0.999999999999, 1.5e-12, 123456.789012345678, 5e-13 * 3, 1e-5, 1234567.25]))
        else:
            x = float(rng.uniform(-1, 1)) * 10.0 ** float(rng.integers(-11, 7))
        if loop:
            if abs(x) >= 1e7:
                continue
            if float(f"{x:20.12f}").is_integer():
                continue
        else:
            if x.is_integer() or not math.isfinite(x):
                continue
        return x


def rand_value(rng, loop):
    k = int(rng.integers(3))
    return rand_int(rng) if k == 0 else (rand_float(rng, loop) if k == 1 else rand_string(rng, loop))


NAMES = ["cell_length_a", "symmetry_space_group_name_H-M", "atom_site_label", "atom_site_fract_x", "atom_site_fract_y", "atom_type_symbol",
         "x", "Z", "chemical_formula_sum", "geom_bond_distance", "geom_bond_atom_site_label_1", "refine_ls_R_factor", "a.b", "k[1]", "name-2", "_lead", "tail_",
         "diffrn_measured_fraction_theta_full", "atom_sites_solution_hydrogens_xy", "refine_ls_extinction_expression_and_a_very_long_local_suffix_0123456789"]      # 35, 32 and 73 characters


def rand_block(rng, with_loops=True):
    """One data block: scalars and loop groups (by name prefix and by length), in random order of insertion."""
    items = {}
    names = [NAMES[int(i)] for i in rng.permutation(len(NAMES))]
    ns = int(rng.integers(0, 5))
    for _ in range(ns):
        items[names.pop()] = rand_value(rng, False)
    if with_loops:
        for g in range(int(rng.integers(0, 4))):
            prefix = ["atom", "geom", "sym", "q"][g]
            for lg in range(int(rng.integers(1, 3))):
                rows = int(rng.integers(0 if rng.random() < 0.1 else 1, 6)) if rng.random() < 0.9 else int(rng.integers(10, 60))
                for c in range(int(rng.integers(1, 5))):
                    kind = int(rng.integers(3))
                    col = [(rand_int(rng) if kind == 0 else rand_float(rng, True) if kind == 1 else rand_string(rng, True)) if rng.random() < 0.8
                           else rand_value(rng, True) for _ in range(rows)]
                    items[f"{prefix}_{lg}_{c}" if rng.random() < 0.7 else f"{prefix}{lg}{c}"] = col
        if rng.random() < 0.3:      # column names that themselves begin or end with an underscore (the writer adds one more, the reader removes exactly one)
            rows = int(rng.integers(1, 4))
            for c in range(int(rng.integers(1, 3))):
                items[f"_u_{c}"] = [rand_int(rng) for _ in range(rows)]
    if not items:
        items["only"] = 1
    keys = list(items)
    return {k: items[k] for k in (keys[int(i)] for i in rng.permutation(len(keys)))}


def rand_doc(rng, loops_in_last_block_only=True):
    nb = int(rng.choice([1, 1, 2, 3]))
    doc = {}
    for b in range(nb):
        last = b == nb - 1
        # block names: plain ones and names that contain the reserved words of the format as substrings (they are ordinary characters inside a name)
        pool = (["crystal", "b2", "III"], ["metadata_1", "data_set_2", "x_loop_3"], ["global_", "my_data_", "save_x"], ["DATA_upper", "1_data_a", "loop_"])[int(rng.integers(0, 4))]
        doc[pool[b]] = rand_block(rng, with_loops=last or not loops_in_last_block_only)
    return doc


def has_loop_before_last_block(doc):
    blocks = list(doc.values())
    return any(any(isinstance(v, list) for v in blk.values()) for blk in blocks[:-1])
