"""C08 — shape invariants computed from harmonic coefficients are rotation invariant (shape_descriptors.py, _invariants.pyx, sht.py)."""
import ast
import itertools
import math
import time
from fractions import Fraction

import numpy as np
import z3

from pyvc.api import Interp, NDArr, conj, reals, source
from pyvc.symex import Frame
from pyvc.values import Cx, Unsupported, z, obj_array

SD = "chmpy.shape.shape_descriptors"


def cx_vector(n, prefix="c"):
    re = [z3.Real(f"{prefix}re{k}") for k in range(n)]
    im = [z3.Real(f"{prefix}im{k}") for k in range(n)]
    d = np.empty(n, dtype=object)
    for k in range(n):
        d[k] = Cx(re[k], im[k])
    return NDArr(d, "c"), re, im


def racah_cg_squared(j1, m1, j2, m2, j, m):
    """Exact Clebsch-Gordan coefficient <j1 m1 j2 m2 | j m> for integer arguments: returns (sign, square as Fraction)."""
    if m1 + m2 != m or abs(m1) > j1 or abs(m2) > j2 or abs(m) > j or j < abs(j1 - j2) or j > j1 + j2:
        return 0, Fraction(0)
    f = math.factorial
    pref = Fraction((2 * j + 1) * f(j + j1 - j2) * f(j - j1 + j2) * f(j1 + j2 - j), f(j1 + j2 + j + 1))
    pref *= f(j + m) * f(j - m) * f(j1 - m1) * f(j1 + m1) * f(j2 - m2) * f(j2 + m2)
    s = Fraction(0)
    for k in range(0, j1 + j2 - j + 1):
        args = (k, j1 + j2 - j - k, j1 - m1 - k, j2 + m2 - k, j - j2 + m1 + k, j - j1 - m2 + k)
        if min(args) < 0:
            continue
        den = 1
        for a in args:
            den *= f(a)
        s += Fraction((-1) ** k, den)
    sign = (s > 0) - (s < 0)
    return sign, pref * s * s


def rotation_matrix(rng):
    q = rng.normal(size=4)
    q /= np.linalg.norm(q)
    a, b, c, d = q
    return np.array([[a * a + b * b - c * c - d * d, 2 * (b * c - a * d), 2 * (b * d + a * c)],
                     [2 * (b * c + a * d), a * a - b * b + c * c - d * d, 2 * (c * d - a * b)],
                     [2 * (b * d - a * c), 2 * (c * d + a * b), a * a - b * b - c * c + d * d]])


def rotated_coefficients(sht, coeffs, R, real):
    """Coefficients of g(x) = f(R^-1 x) obtained by evaluating f (given by coeffs) at the rotated grid directions."""
    theta, phi = sht.grid
    x = np.stack([np.sin(theta) * np.cos(phi), np.sin(theta) * np.sin(phi), np.cos(theta)], axis=-1)
    y = x @ R          # rows: R^-1 x  (R orthogonal)
    th2 = np.arccos(np.clip(y[..., 2], -1, 1))
    ph2 = np.arctan2(y[..., 1], y[..., 0]) % (2 * np.pi)
    vals = np.array([sht.evaluate_at_points(coeffs, float(t), float(p_)) for t, p_ in zip(th2.ravel(), ph2.ravel())]).reshape(theta.shape)
    if real:
        vals = np.real(vals)
    return sht.analysis(vals)


def build(ctx):
    ctx.level = "other"
    ctx.explanation = ("P: make_N_invariants executed on symbolic complex coefficient vectors (degree blocks: N_l^2 equals the sum of |c|^2 over exactly the "
                       "coefficients of degree l, for L <= 3 instances) and, for ALL l, the slice bounds read by the loop body are [l^2, (l+1)^2) (VC over a symbolic "
                       "loop index). G: Clebsch-Gordan values of the compiled kernel against the exact Racah formula for every argument tuple reachable with "
                       "l_max <= 12; number and order of invariants as a function of l_max. B: rotation invariance of N, P and the power spectrum on seeded band-limited "
                       "functions and rotations (real and complex transforms); rotation invariance of the bispectrum formula itself is a cited theorem.")
    ctx.assumptions += ["rotation invariance of per-degree norms and of the bispectrum given correct Clebsch-Gordan coefficients (cited theorem)",
                        "floats are reals in the symbolic part; the compiled Cython kernel is what runs (source/binary correspondence not re-established: Cython absent)",
                        "the SHT used to rotate test functions is exact on band-limited functions (property C07)"]
    f_N = ctx.fn(SD, "make_N_invariants")
    f_inv = ctx.fn(SD, "make_invariants")
    ctx.fn("chmpy.shape.sht", "SHT.power_spectrum")
    I = ctx.interp()
    mod = source.load_module(SD)

    # ------------------------------------------------------------- P: slice bounds for every degree (symbolic loop index)
    def ob_slice_bounds():
        # the per-degree iteration is located by what it is (a for loop or a comprehension over range(...)), the coefficient vector by being the
        # function's first parameter; the slices applied to it inside one iteration are collected with a symbolic degree i
        param = f_N.node.args.args[0].arg
        iters = []
        for n in ast.walk(f_N.node):
            if isinstance(n, ast.For) and isinstance(n.iter, ast.Call) and ast.unparse(n.iter.func) == "range" and isinstance(n.target, ast.Name):
                iters.append((n.target.id, list(n.body)))
            elif isinstance(n, (ast.ListComp, ast.GeneratorExp)) and len(n.generators) == 1 and isinstance(n.generators[0].iter, ast.Call) \
                    and ast.unparse(n.generators[0].iter.func) == "range" and isinstance(n.generators[0].target, ast.Name):
                iters.append((n.generators[0].target.id, [ast.Expr(value=n.elt)]))
        i = z3.Int("i")
        bounds = []
        for tname, body in iters:
            I.pc, I.decisions, I.dpos, I.new_alts, I.cur_safety, I.fresh_count, I.depth, I.no_fork = [i >= 0], [], 0, [], [], 0, 1, 0
            fr = Frame(mod, {tname: i}, None, fname=f_N.qualname, fnode=f_N.node)
            for st in body:
                hits = [n for n in ast.walk(st) if isinstance(n, ast.Subscript) and isinstance(n.value, ast.Name) and n.value.id == param and isinstance(n.slice, ast.Slice)]
                for n in hits:
                    lo = I.eval(n.slice.lower, fr) if n.slice.lower is not None else 0
                    hi = I.eval(n.slice.upper, fr) if n.slice.upper is not None else None
                    bounds.append((lo, hi))
                if not hits and isinstance(st, ast.Assign) and all(isinstance(t, (ast.Name, ast.Tuple)) for t in st.targets):
                    try:
                        I.exec_stmt(st, fr)
                    except Unsupported:
                        pass

        def replay(m):
            from chmpy.shape.shape_descriptors import make_N_invariants
            L = 6
            c = np.zeros((L + 1) ** 2, dtype=complex)
            base = make_N_invariants(c.copy())
            bad = None
            for k in range(len(c)):
                c2 = c.copy()
                c2[k] = 1.0 + 0.5j
                out = make_N_invariants(c2)
                deg = int(math.isqrt(k))
                changed = [l for l in range(L + 1) if abs(out[l] - base[l]) > 1e-12]
                if changed != [deg]:
                    bad = {"coefficient_index": k, "degree": deg, "invariants_changed": changed}
                    break
            return {"native_inputs": bad or "unit impulses in each coefficient, L=6", "reproduced": bad is not None, "observed": bad}
        if not bounds or any(hi is None for lo, hi in bounds):
            def fb():
                r_ = replay({})
                return None if not r_["reproduced"] else {"input": r_["native_inputs"], "observed": r_["observed"]}
            ctx.pattern("shape_descriptors.make_N_invariants/loop/slice_bounds", False, fallback=fb, fn=f_N,
                        clause="for every degree the coefficients read are exactly those of that degree (iteration not recognised: decided by unit impulses on the real function)")
            return replay
        for k, (lo, hi) in enumerate(bounds):
            ctx.prove(f"shape_descriptors.make_N_invariants/loop/slice_bounds/{k}", [i >= 0], z3.And(z(lo) == i * i, z(hi) == (i + 1) * (i + 1)),
                      clause="for every degree i >= 0 the slice of coefficients read is exactly [i^2, (i+1)^2): N_i depends only on the coefficients of degree i",
                      replay=replay, fn=f_N)
        return replay
    replay_N = ctx.attempt("shape_descriptors.make_N_invariants/loop/slice_bounds", ob_slice_bounds)

    # ------------------------------------------------------------- P: instances L = 0..3 on symbolic complex vectors
    def ob_instances(L):
        n = (L + 1) ** 2
        vec, re, im = cx_vector(n)
        res = I.run(f_N, [vec])
        assert len(res) == 1 and res[0].kind == "return", [(r.kind, r.value) for r in res]
        out = res[0].value
        cells = out.flat()
        ok_len = len(cells) == L + 1
        ctx.prove(f"shape_descriptors.make_N_invariants/ensures/count/L{L}", res[0].pc, z3.BoolVal(ok_len), clause="(L+1)^2 coefficients give L+1 invariants", fn=f_N,
                  replay=replay_N if callable(replay_N) else None)
        for l in range(min(L + 1, len(cells))):
            t = cells[l]
            spec = sum(re[k] * re[k] + im[k] * im[k] for k in range(l * l, (l + 1) ** 2))
            if z3.is_app(t) and t.decl().name() == "py_sqrt":
                goal = t.arg(0) == spec
            else:
                goal = z3.And(t * t == spec, t >= 0)
            ctx.prove(f"shape_descriptors.make_N_invariants/ensures/degree_block/L{L}/l{l}", res[0].pc, goal, algebra=True,
                      clause=f"N_{l} = sqrt(sum of |c_k|^2 for k in [{l * l}, {(l + 1) ** 2}))", fn=f_N, replay=replay_N if callable(replay_N) else None)
        ctx.safety(f"shape_descriptors.make_N_invariants/L{L}", res, fn=f_N)
    for L in (0, 1, 2, 3):
        ctx.attempt(f"shape_descriptors.make_N_invariants/ensures/degree_block/L{L}", lambda L=L: ob_instances(L))

    ground_clebsch(ctx)
    ground_counts(ctx)
    bounded_rotation(ctx)


def ground_clebsch(ctx):
    from chmpy.shape._invariants import clebsch_gordan
    t0 = time.time()
    lmax = 12 if ctx.tier == "quick" else 23
    bad, n = [], 0
    for l2 in range(0, lmax + 1):
        for l1 in range(l2, lmax + 1):
            for l in range(l1 - l2, min(l1 + l2, lmax) + 1):
                for m1 in range(-l1, l1 + 1):
                    for m in range(-l, l + 1):
                        m2 = m - m1
                        if abs(m2) > l2:
                            continue
                        n += 1
                        sign, sq = racah_cg_squared(l1, m1, l2, m2, l, m)
                        got = clebsch_gordan(l1, m1, l2, m2, l, m)
                        exp = sign * math.sqrt(float(sq))
                        if not (abs(got - exp) <= 1e-9 * max(1.0, abs(exp))):
                            if len(bad) < 4:
                                bad.append({"args": [l1, m1, l2, m2, l, m], "got": got, "expected": exp})
    ctx.ground("_invariants.clebsch/values_vs_racah", not bad, clause=f"every coupling (l1 m1 l2 m2 | l m) with l2 <= l1 <= {lmax}, |l1-l2| <= l <= min(l1+l2,{lmax}) "
               f"({n} tuples): compiled value == exact Racah value (sign and magnitude, 1e-9 relative)", detail={"tuples": n, "first_bad": bad}, witness=bad[:2],
               seconds=time.time() - t0)


def ground_counts(ctx):
    """Number and ordering of the invariants are a fixed function of l_max (G over l_max = 0..12, two different coefficient vectors each)."""
    from chmpy.shape.shape_descriptors import make_invariants

    def expected_count(L):
        n = 0
        for l2 in range(1, L + 1):
            for l1 in range(l2, L + 1):
                for l in range(l1, L + 1):
                    if (l1 - l2 > l) or (l1 + l2 < l):
                        continue
                    if ((l % 2 == 0) or (l2 != l1)) and ((l2 % 2 == 0) or (l1 != l)):
                        n += 1
        return n
    rng = np.random.default_rng(ctx.seed + 8)
    bad = []
    for L in range(0, 13):
        sizes = set()
        for _ in range(2):
            c = rng.normal(size=(L + 1) ** 2) + 1j * rng.normal(size=(L + 1) ** 2)
            for kinds, want in (("N", L + 1), ("P", expected_count(L)), ("NP", L + 1 + expected_count(L))):
                out = make_invariants(L, c, kinds=kinds)
                if len(out) != want:
                    bad.append({"L": L, "kinds": kinds, "len": len(out), "expected": want})
            a = make_invariants(L, c, kinds="NP")
            if not np.allclose(a[: L + 1], make_invariants(L, c, kinds="N")) or not np.allclose(a[L + 1:], make_invariants(L, c, kinds="P"), equal_nan=True):
                bad.append({"L": L, "order": "NP is not N followed by P"})
    # power spectrum: L+1 values for both coefficient layouts, the compact (real-function) layout agreeing with the full layout of the same function; and the
    # invariants are homogeneous of degree one (no absolute magnitude is special): inv(k c) == k inv(c)
    from chmpy.shape.sht import SHT as _SHT
    from chmpy.shape.shape_descriptors import expand_coeffs_to_full as _full
    bad_ps, bad_h = [], []
    for L in range(0, 13):
        try:
            sht = _SHT(L)
            sht.nplm()
        except Exception as e:  # noqa -- an exception of the code under test on a valid argument is a failing input, not a checker error
            bad_ps.append({"l_max": L, "raised": f"SHT({L}): {e!r}"[:160]})
            continue
        cr = rng.normal(size=sht.nplm()) + 1j * rng.normal(size=sht.nplm())
        cr[: L + 1] = cr[: L + 1].real
        cf = _full(L, cr)
        try:
            a_, b_ = np.asarray(sht.power_spectrum(cr)), np.asarray(sht.power_spectrum(cf))
        except Exception as e:  # noqa
            bad_ps.append({"l_max": L, "raised": repr(e)[:160]})
            continue
        if len(a_) != L + 1 or len(b_) != L + 1 or not np.allclose(a_, b_, rtol=1e-10, atol=0):
            bad_ps.append({"l_max": L, "entries_compact_layout": len(a_), "entries_full_layout": len(b_), "expected": L + 1,
                           "max_difference": float(np.abs(a_ - b_).max()) if len(a_) == len(b_) else None})
        try:
            ref = make_invariants(L, cf, kinds="NP")
            scaled = {kf: make_invariants(L, kf * cf, kinds="NP") / kf for kf in (1e-14, 1e9)}
        except Exception as e:  # noqa
            bad_h.append({"l_max": L, "raised": repr(e)[:160]})
            continue
        for kf in (1e-14, 1e9):
            got = scaled[kf]
            err = float(np.nanmax(np.abs(got - ref)) / max(1e-300, float(np.nanmax(np.abs(ref)))))
            if not err <= 1e-5:
                bad_h.append({"l_max": L, "scaled_by": kf, "relative_change": err})
    # N of degree l and the power spectrum at degree l depend on the coefficients of degree l only -- also numerically, when the degrees differ by many orders of magnitude
    from chmpy.shape.shape_descriptors import make_N_invariants as _mkN
    bad_d = []
    for L in range(1, 13):
        c = rng.normal(size=(L + 1) ** 2) + 1j * rng.normal(size=(L + 1) ** 2)
        for direction in (1, -1):
            scale = np.concatenate([np.full(2 * l + 1, 10.0 ** (direction * (5 - l))) for l in range(L + 1)])
            cs = c * scale
            want = np.array([np.sqrt((np.abs(cs[l * l:(l + 1) ** 2]) ** 2).sum()) for l in range(L + 1)])
            try:
                got = np.asarray(_mkN(cs.copy()), dtype=float)
                ps0, ps1 = np.asarray(_SHT(L).power_spectrum(c.copy()), dtype=float), np.asarray(_SHT(L).power_spectrum(cs.copy()), dtype=float)
            except Exception as e:  # noqa
                bad_d.append({"l_max": L, "raised": repr(e)[:160]})
                continue
            sl = np.array([10.0 ** (direction * (5 - l)) for l in range(L + 1)])
            e1 = float(np.max(np.abs(got - want) / want)) if got.shape == want.shape else float("inf")
            e2 = float(np.max(np.abs(ps1 - sl ** 2 * ps0) / (sl ** 2 * ps0))) if ps1.shape == ps0.shape == sl.shape else float("inf")
            if not (e1 <= 1e-10 and e2 <= 1e-10):
                bad_d.append({"l_max": L, "degree_l_scaled_by": f"10^({direction}*(5-l))", "N_relative_error": e1, "power_spectrum_relative_error": e2})
    ctx.ground("shape_descriptors.make_N_invariants/per_degree_at_any_dynamic_range", not bad_d, clause="for l_max = 1..12 with the coefficients of degree l scaled by 10^(+-(5-l)): N_l == |c_l| and "
               "power_spectrum_l scales with the square of the factor of degree l alone, each to 1e-10 RELATIVE to its own size (a degree is not polluted by a much larger one)",
               detail=bad_d[:3], witness=bad_d[:2], fn=ctx.fn("chmpy.shape.shape_descriptors", "make_N_invariants"))
    ctx.ground("sht.SHT.power_spectrum/count_and_layouts", not bad_ps, clause="for l_max = 0..12 the power spectrum has l_max+1 entries and is the same for the compact layout of a real function "
               "and the full layout of the same function", detail=bad_ps[:3], witness=bad_ps[:2], fn=ctx.fn("chmpy.shape.sht", "SHT.power_spectrum"))
    ctx.ground("shape_descriptors.make_invariants/homogeneous", not bad_h, clause="for l_max = 0..12: make_invariants(k c) == k make_invariants(c) for k = 1e-14 and 1e9 (N and P; no absolute threshold)",
               detail=bad_h[:3], witness=bad_h[:2])
    ctx.ground("shape_descriptors.make_invariants/count_and_order", not bad, clause="for l_max = 0..12: N gives l_max+1 values, P the number of admissible (l,l1,l2) triples, NP = N then P",
               detail=bad[:4], witness=bad[:2])


def bounded_rotation(ctx):
    from chmpy.shape.sht import SHT
    from chmpy.shape.shape_descriptors import make_invariants, make_N_invariants, expand_coeffs_to_full
    rng = np.random.default_rng(ctx.seed + 88)
    Ls = (2, 3, 5, 8, 12) if ctx.tier == "quick" else tuple(range(1, 13))
    nrot = 3 if ctx.tier == "quick" else 10
    fails, evals, distinct = [], 0, set()
    for L in Ls:
        sht = SHT(L)
        for real in (True, False):
            for trial in range(2 if ctx.tier == "quick" else 4):
                if real:
                    c = (rng.normal(size=sht.nplm()) + 1j * rng.normal(size=sht.nplm()))
                    c[: L + 1] = c[: L + 1].real        # m = 0 coefficients of a real function are real
                    vals = sht.synthesis(c)
                    c = sht.analysis(np.real(vals))
                else:
                    c = rng.normal(size=sht.nlm()) + 1j * rng.normal(size=sht.nlm())
                full = expand_coeffs_to_full(L, c) if real else c
                ref = make_invariants(L, full, kinds="NP")
                ps = sht.power_spectrum(c)
                for _ in range(nrot):
                    R = rotation_matrix(rng)
                    c2 = rotated_coefficients(sht, c, R, real)
                    full2 = expand_coeffs_to_full(L, c2) if real else c2
                    got = make_invariants(L, full2, kinds="NP")
                    ps2 = sht.power_spectrum(c2)
                    evals += 1
                    distinct.add((L, real, trial, round(float(R[0, 0]), 9)))
                    scale = max(1.0, float(np.abs(ref).max()))
                    e_inv = float(np.abs(got - ref).max()) / scale
                    e_ps = float(np.abs(ps2 - ps).max()) / max(1.0, float(np.abs(ps).max()))
                    if (e_inv > 1e-6 or e_ps > 1e-8 or not np.all(np.isfinite(got))) and len(fails) < 3:
                        worst = int(np.argmax(np.abs(got - ref)))
                        fails.append({"input": {"l_max": L, "real_transform": real, "rotation": R.tolist(), "seed": ctx.seed},
                                      "observed": {"max_rel_change_invariants": e_inv, "worst_index": worst, "n_N": L + 1, "max_rel_change_power_spectrum": e_ps},
                                      "clause": "N, P invariants and the power spectrum of the rotated band-limited function equal those of the original", "key": "rotation"})
        # each N_l depends only on degree l (impulse test, complete over coefficient indices for this L)
        c0 = rng.normal(size=(L + 1) ** 2) + 1j * rng.normal(size=(L + 1) ** 2)
        base = make_N_invariants(c0)
        for k in range((L + 1) ** 2):
            c1 = c0.copy()
            c1[k] += 0.37 - 0.21j
            ch = [l for l in range(L + 1) if abs(make_N_invariants(c1)[l] - base[l]) > 1e-12]
            evals += 1
            if ch != [math.isqrt(k)] and len(fails) < 3:
                fails.append({"input": {"l_max": L, "perturbed_coefficient": k}, "observed": {"degrees_changed": ch, "expected": [math.isqrt(k)]},
                              "clause": "each N invariant of degree l depends only on the coefficients of degree l", "key": "N-locality"})
    ctx.add_bounded("shape_descriptors.make_invariants/bounded/rotation", f"l_max in {Ls}, real and complex transforms, seeded coefficient vectors x {nrot} random rotations; per-coefficient impulses",
                    evals, len(distinct), fails, rule="distinct (l_max, transform kind, vector, rotation)")
