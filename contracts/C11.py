"""C11 — symmetry-operation forms are interchangeable; equality is modulo the lattice.

Contracts on the real functions of chmpy/crystal/symmetry_operation.py and Crystal.cartesian_symmetry_operations.
Top-level postconditions are taken from the property statement; spec functions digit3/digit12 are positional digits.
"""
import itertools
import os
import time
from fractions import Fraction

import numpy as np
import z3

from pyvc.api import (Interp, Obj, NDArr, cert, conj, eq_arrays, farr, iarr, in_set, int_matrix, ints, reals, real_matrix, shell, source,
                      model_float)
from pyvc.values import Unsupported, to_real, z, num_cmp

MOD = "chmpy.crystal.symmetry_operation"
NCODES = 19683 * 1728
EPS = Fraction(1, 10 ** 12)


# ---- spec functions (mathematics, not code) -----------------------------------------------------------------
def digit3(r, p):
    return (r / (3 ** p)) % 3          # z3 Int div/mod; r >= 0


def digit12(t, p):
    return (t / (12 ** p)) % 12


def spec_code(Rint, digits):
    """The packed code of rotation entries Rint[i][j] in {-1,0,1} and duodecimal digits."""
    rot = sum((Rint[i][j] + 1) * 3 ** (8 - 3 * i - j) for i in range(3) for j in range(3))
    tr = sum(digits[i] * 12 ** (2 - i) for i in range(3))
    return rot + 19683 * tr


def rhe(x):
    """Spec: round-half-to-even of a real term (the documented behaviour of numpy.round)."""
    f = z3.ToInt(x + z3.RealVal("1/2"))
    return z3.If(z3.And(z3.ToReal(f) == x + z3.RealVal("1/2"), f % 2 != 0), f - 1, f)


def ternary_hyps(R):
    return [z3.And(R[i][j] >= -1, R[i][j] <= 1) for i in range(3) for j in range(3)]


# ---- native replay helpers --------------------------------------------------------------------------------
def _native():
    import chmpy.crystal.symmetry_operation as so
    return so


def _R_from_model(m, prefix="r"):
    return np.array([[float(m.get(f"{prefix}{i}{j}", 0)) for j in range(3)] for i in range(3)])


def build(ctx):
    ctx.level = "proof"
    ctx.explanation = ("P: VCs generated from the real source of symmetry_operation.py (symbolic execution, z3/cvc5). "
                       "G: exact evaluation of the real string encoder/decoder over complete finite grids. "
                       "B (not counted): spelling grammar of decode_symm_str, float noise on the translation grid, "
                       "34M-code native enumeration in the thorough tier.")
    ctx.assumptions += [
        "floats are mathematical reals (numpy float64 rounding not modelled); the property's own noise term is an explicit symbolic eps with |eps| <= 1e-12",
        "numpy.round is round-half-to-even on reals",
        "Fraction(x).limit_denominator(12) returns k/12 whenever |x - k/12| < 1/288 (best-approximation property)",
        "str(Fraction(k, 12)) is a function of k (lowest-terms spelling)",
    ]
    I = ctx.interp()
    dec = ctx.fn(MOD, "decode_symm_int")
    enc = ctx.fn(MOD, "encode_symm_int")
    SO = lambda name: ctx.fn(MOD, "SymmetryOperation." + name)
    for n in ("__init__", "integer_code", "__eq__", "__hash__", "__str__", "from_integer_code", "from_string_code", "apply",
              "seitz_matrix", "inverted", "__add__", "__sub__", "__lt__", "is_identity", "identity"):
        SO(n)
    ctx.fn(MOD, "encode_symm_str")
    ctx.fn(MOD, "decode_symm_str")
    mod = source.load_module(MOD)
    SOcls = I.class_of(mod, "SymmetryOperation")

    # ------------------------------------------------------------------ decode_symm_int against the digit spec
    c = z3.Int("c")
    pre_c = [c >= 0, c < NCODES]

    def ob_decode():
        res = I.run(dec, [c], pre=pre_c)
        assert len(res) == 1 and res[0].kind == "return", res
        R, T = res[0].value
        goals = []
        for i in range(3):
            for j in range(3):
                goals.append(R.data[i, j] == z3.ToReal(digit3(c % 19683, 8 - 3 * i - j) - 1))
            goals.append(T.data[i] == z3.ToReal(digit12(c / 19683, 2 - i)) / 12)

        def replay(m):
            so = _native()
            code = int(m["c"])
            rot, tr = so.decode_symm_int(code)
            exp_r = [[(code % 19683) // 3 ** (8 - 3 * i - j) % 3 - 1 for j in range(3)] for i in range(3)]
            exp_t = [(code // 19683) // 12 ** (2 - i) % 12 / 12 for i in range(3)]
            bad = not (np.array_equal(rot, exp_r) and np.allclose(tr, exp_t, atol=1e-15, rtol=0))
            return {"native_inputs": {"coded_integer": code}, "reproduced": bad, "observed": {"rotation": rot.tolist(), "translation": tr.tolist(),
                    "expected_rotation": exp_r, "expected_translation": exp_t}}
        ctx.prove("symmetry_operation.decode_symm_int/ensures/spec", res[0].pc, conj(goals),
                  clause="forall 0<=c<3^9*12^3: rotation[i][j] = digit3(c mod 3^9, 8-3i-j)-1 and translation[i] = digit12(c div 3^9, 2-i)/12",
                  replay=replay, fn=dec)
        ctx.safety("symmetry_operation.decode_symm_int", res, fn=dec)
        return res[0]
    dres = ctx.attempt("symmetry_operation.decode_symm_int/ensures/spec", ob_decode)

    # ------------------------------------------------------------------ encode_symm_int against the spec
    Rv = int_matrix("r", 3, 3)
    tv = reals("t", 3)

    def encode_replay(m):
        so = _native()
        R = _R_from_model(m)
        t = np.array([model_float(m.get(f"t{i}", 0)) for i in range(3)])
        code = so.encode_symm_int(R, t)
        d = [int(np.round(x * 12)) % 12 for x in t]
        exp = sum(int(R[i][j] + 1) * 3 ** (8 - 3 * i - j) for i in range(3) for j in range(3)) + 19683 * sum(d[i] * 12 ** (2 - i) for i in range(3))
        return {"native_inputs": {"rotation": R.tolist(), "translation": t.tolist()}, "reproduced": int(code) != exp,
                "observed": {"code": int(code), "expected": exp}}

    def ob_encode():
        res = I.run(enc, [farr(Rv), farr(tv)], pre=ternary_hyps(Rv))
        assert len(res) == 1 and res[0].kind == "return"
        code = res[0].value
        d = [rhe(12 * tv[i]) % 12 for i in range(3)]
        ctx.prove("symmetry_operation.encode_symm_int/ensures/spec", res[0].pc, code == spec_code(Rv, d),
                  clause="code = sum (R[i][j]+1) 3^(8-3i-j) + 3^9 sum d[i] 12^(2-i) with d[i] = round-half-even(12 t[i]) mod 12",
                  replay=encode_replay, fn=enc)
        ctx.safety("symmetry_operation.encode_symm_int", res, fn=enc)
    ctx.attempt("symmetry_operation.encode_symm_int/ensures/spec", ob_encode)

    # ------------------------------------------------------------------ round trips
    def ob_rt1():
        res = I.run(dec, [c], pre=pre_c)
        R, T = res[0].value
        res2 = I.run(enc, [R, T], pre=res[0].pc)
        assert len(res2) == 1

        def replay(m):
            so = _native()
            code = int(m["c"])
            back = so.encode_symm_int(*so.decode_symm_int(code))
            return {"native_inputs": {"coded_integer": code}, "reproduced": int(back) != code, "observed": {"encode(decode(c))": int(back)}}
        ctx.prove("symmetry_operation.roundtrip/encode_decode_int", res2[0].pc, res2[0].value == c,
                  clause="forall codes c: encode_symm_int(*decode_symm_int(c)) == c", replay=replay, fn=enc, timeout_ms=180000)
    ctx.attempt("symmetry_operation.roundtrip/encode_decode_int", ob_rt1)

    dg = ints("k", 3)
    grid_hyps = [z3.And(dg[i] >= 0, dg[i] < 12) for i in range(3)]

    def ob_rt2():
        tgrid = [z3.ToReal(dg[i]) / 12 for i in range(3)]
        res = I.run(enc, [farr(Rv), farr(tgrid)], pre=ternary_hyps(Rv) + grid_hyps)
        code = res[0].value
        res2 = I.run(dec, [code], pre=res[0].pc)
        R2, T2 = res2[0].value
        goal = conj([R2.data[i, j] == z3.ToReal(Rv[i][j]) for i in range(3) for j in range(3)] + [T2.data[i] == tgrid[i] for i in range(3)])

        def replay(m):
            so = _native()
            R = _R_from_model(m)
            t = np.array([int(m.get(f"k{i}", 0)) / 12 for i in range(3)])
            R2n, t2n = so.decode_symm_int(so.encode_symm_int(R, t))
            bad = not (np.array_equal(R2n, R) and np.allclose(t2n, t, atol=1e-15, rtol=0))
            return {"native_inputs": {"rotation": R.tolist(), "translation": t.tolist()}, "reproduced": bad,
                    "observed": {"rotation": R2n.tolist(), "translation": t2n.tolist()}}
        ctx.prove("symmetry_operation.roundtrip/decode_encode_int", res2[0].pc, goal,
                  clause="forall ternary R, digits k in [0,12)^3: decode_symm_int(encode_symm_int(R, k/12)) == (R, k/12)", replay=replay, fn=dec,
                  timeout_ms=180000)
    ctx.attempt("symmetry_operation.roundtrip/decode_encode_int", ob_rt2)

    # ------------------------------------------------------------------ equality / hash / code modulo the lattice
    nv = ints("n", 3)
    ev = reals("e", 3)
    noise_hyps = [z3.And(ev[i] >= -z(EPS), ev[i] <= z(EPS)) for i in range(3)]

    def make_op(I2, R, t):
        return I2.instantiate(SOcls, [farr(R), farr(t)], {})

    def ops_pair(I2, a, kw):
        tgrid = [z3.ToReal(dg[i]) / 12 for i in range(3)]
        tshift = [tgrid[i] + z3.ToReal(nv[i]) + ev[i] for i in range(3)]
        A = make_op(I2, Rv, tgrid)
        B = make_op(I2, Rv, tshift)
        return A, B

    def lattice_replay(m):
        so = _native()
        R = _R_from_model(m)
        t = np.array([int(m.get(f"k{i}", 0)) / 12 for i in range(3)])
        t2 = np.array([int(m.get(f"k{i}", 0)) / 12 + int(m.get(f"n{i}", 0)) + model_float(m.get(f"e{i}", 0)) for i in range(3)])
        A, B = so.SymmetryOperation(R, t), so.SymmetryOperation(R, t2)
        obs = {"code_A": int(A.integer_code), "code_B": int(B.integer_code), "eq": bool(A == B), "hash_eq": hash(A) == hash(B),
               "str_A": str(A), "str_B": str(B)}
        bad = not (obs["eq"] and obs["hash_eq"] and obs["str_A"] == obs["str_B"] and obs["code_A"] == obs["code_B"])
        return {"native_inputs": {"rotation": R.tolist(), "translation_A": t.tolist(), "translation_B": t2.tolist()}, "reproduced": bad,
                "observed": obs}

    def ob_lattice():
        pre = ternary_hyps(Rv) + grid_hyps + noise_hyps

        def thunk(I2, a, kw):
            A, B = ops_pair(I2, a, kw)
            ca = I2.getattr(A, "integer_code")
            cb = I2.getattr(B, "integer_code")
            eq = I2.compare(__import__("ast").Eq(), A, B)
            ha = I2.call(I2.getattr(A, "__hash__"), [])
            hb = I2.call(I2.getattr(B, "__hash__"), [])
            return ca, cb, eq, ha, hb
        res = I.explore(thunk, pre=pre)
        assert all(r.kind == "return" for r in res), [r.kind for r in res]
        for k, r in enumerate(res):
            ca, cb, eq, ha, hb = r.value
            sfx = f"/path{k}" if len(res) > 1 else ""
            ctx.prove("symmetry_operation.SymmetryOperation.integer_code/ensures/eq.mod_lattice" + sfx, r.pc, ca == cb,
                      clause="forall ternary R, grid t=k/12, n in Z^3, |eps|<=1e-12: SymmetryOperation(R,t).integer_code == SymmetryOperation(R,t+n+eps).integer_code",
                      replay=lattice_replay, fn=SO("integer_code"))
            ctx.prove("symmetry_operation.SymmetryOperation.__eq__/ensures/eq.mod_lattice" + sfx, r.pc, z(eq),
                      clause="... the two operations compare equal", replay=lattice_replay, fn=SO("__eq__"))
            ctx.prove("symmetry_operation.SymmetryOperation.__hash__/ensures/eq.mod_lattice" + sfx, r.pc, ha == hb,
                      clause="... and hash equally", replay=lattice_replay, fn=SO("__hash__"))
            ctx.prove("symmetry_operation.SymmetryOperation.integer_code/ensures/canonical" + sfx, r.pc,
                      ca == spec_code(Rv, dg), clause="... and the code is the canonical one: digits k (in [0,12)), rotation R",
                      replay=lattice_replay, fn=SO("integer_code"))
        ctx.safety("symmetry_operation.SymmetryOperation.integer_code", res)
    ctx.attempt("symmetry_operation.SymmetryOperation.integer_code/ensures/eq.mod_lattice", ob_lattice)

    # eq <=> codes equal, for arbitrary operations (R ternary, t real)
    R2v = int_matrix("q", 3, 3)
    t2v = reals("u", 3)

    def ob_eq_code():
        def thunk(I2, a, kw):
            A = make_op(I2, Rv, tv)
            B = make_op(I2, R2v, t2v)
            import ast
            return (I2.getattr(A, "integer_code"), I2.getattr(B, "integer_code"), I2.compare(ast.Eq(), A, B),
                    I2.call(I2.getattr(A, "__hash__"), []), I2.call(I2.getattr(B, "__hash__"), []), I2.compare(ast.Lt(), A, B))
        res = I.explore(thunk, pre=ternary_hyps(Rv) + ternary_hyps(R2v))
        for k, r in enumerate(res):
            ca, cb, eq, ha, hb, lt = r.value
            ctx.prove("symmetry_operation.SymmetryOperation.__eq__/ensures/iff_codes", r.pc, z(eq) == (ca == cb),
                      clause="A == B  <=>  A.integer_code == B.integer_code", fn=SO("__eq__"))
            ctx.prove("symmetry_operation.SymmetryOperation.__hash__/ensures/consistent", r.pc, z3.Implies(z(eq), ha == hb),
                      clause="A == B => hash(A) == hash(B)", fn=SO("__hash__"))
            ctx.prove("symmetry_operation.SymmetryOperation.__lt__/ensures/code_order", r.pc, z(lt) == (ca < cb),
                      clause="A < B <=> code(A) < code(B)", fn=SO("__lt__"))
    ctx.attempt("symmetry_operation.SymmetryOperation.__eq__/ensures/iff_codes", ob_eq_code)

    # L: positional representation lemma linking the decode spec to the code (spec functions only)
    dig3 = [[digit3(c % 19683, 8 - 3 * i - j) - 1 for j in range(3)] for i in range(3)]
    dig12 = [digit12(c / 19683, 2 - i) for i in range(3)]
    ctx.prove("lemma/positional_representation", pre_c, spec_code(dig3, dig12) == c, tag="L",
              clause="forall 0<=c<3^9*12^3: sum of ternary digits * 3^p + 3^9 * sum of duodecimal digits * 12^p == c", timeout_ms=8000)

    # from_integer_code: the cached code is the code the matrix form would produce.  Modular: decode_symm_int is used through its
    # contract (proved above: decode_symm_int/ensures/spec + the positional lemma), not through its body.
    from pyvc.api import Contract

    def decode_result(I2, code):
        rho = [[I2.fresh("int", f"rho{i}{j}") for j in range(3)] for i in range(3)]
        kap = [I2.fresh("int", f"kap{i}") for i in range(3)]
        R, T = farr(rho), farr([z3.ToReal(kap[i]) / 12 for i in range(3)])
        R._spec, T._spec = rho, kap
        return (R, T)

    def decode_ensures(res, code):
        rho, kap = res[0]._spec, res[1]._spec
        return conj([z3.And(rho[i][j] >= -1, rho[i][j] <= 1) for i in range(3) for j in range(3)] +
                    [z3.And(kap[i] >= 0, kap[i] < 12) for i in range(3)] + [spec_code(rho, kap) == code])
    Imod = ctx.interp(contracts={MOD + ".decode_symm_int": Contract(
        requires=lambda code: z3.And(code >= 0, code < NCODES), ensures=decode_ensures, result=decode_result)})
    SOcls_m = Imod.class_of(mod, "SymmetryOperation")

    def ob_from_int():
        def thunk(I2, a, kw):
            op = I2.call(I2.getattr(SOcls_m, "from_integer_code"), [c])
            cached = I2.getattr(op, "integer_code")
            fresh = I2.instantiate(SOcls_m, [op.fields["rotation"], op.fields["translation"]], {})
            return cached, I2.getattr(fresh, "integer_code"), op
        res = Imod.explore(thunk, pre=pre_c)
        for r in res:
            cached, recomputed, op = r.value

            def replay(m):
                so = _native()
                code = int(m["c"])
                o = so.SymmetryOperation.from_integer_code(code)
                rec = so.SymmetryOperation(o.rotation, o.translation).integer_code
                return {"native_inputs": {"code": code}, "reproduced": int(rec) != code or int(o.integer_code) != code,
                        "observed": {"recomputed": int(rec), "cached": int(o.integer_code)}}
            ctx.prove("symmetry_operation.SymmetryOperation.from_integer_code/ensures/code_consistent", r.pc,
                      z3.And(cached == c, recomputed == c),
                      clause="from_integer_code(c).integer_code == c == the code recomputed from its rotation and translation",
                      replay=replay, fn=SO("from_integer_code"))
        ctx.safety("symmetry_operation.SymmetryOperation.from_integer_code", res)
    ctx.attempt("symmetry_operation.SymmetryOperation.from_integer_code/ensures/code_consistent", ob_from_int)

    # ------------------------------------------------------------------ apply: 3-vectors, homogeneous 4-vectors, Cartesian
    xv = reals("x", 3)
    Rr = real_matrix("R", 3, 3)

    def ob_apply(int_rotation=False):
        Ri = int_matrix("ri", 3, 3)
        Rr_ = Ri if int_rotation else Rr
        sfx = "/int_rotation" if int_rotation else ""
        def thunk(I2, a, kw):
            op = Obj(SOcls, {"rotation": iarr(Ri) if int_rotation else farr(Rr), "translation": farr(tv)})
            p3 = I2.call(I2.getattr(op, "apply"), [farr([xv])])
            p4 = I2.call(I2.getattr(op, "apply"), [farr([xv + [1]])])
            pc_ = I2.call(I2.getattr(op, "__call__"), [farr([xv])])
            sz = I2.getattr(op, "seitz_matrix")
            return p3, p4, pc_, sz
        res = I.explore(thunk)
        for r in res:
            p3, p4, pc_, sz = r.value
            spec = [sum(z3.ToReal(Rr_[i][j]) * xv[j] if int_rotation else Rr_[i][j] * xv[j] for j in range(3)) + tv[i] for i in range(3)]

            def replay(m):
                so = _native()
                R = np.array([[int(m.get(f"ri{i}{j}", 0)) for j in range(3)] for i in range(3)]) if int_rotation else np.array([[model_float(m.get(f"R{i}{j}", 0)) for j in range(3)] for i in range(3)])
                t = np.array([model_float(m.get(f"t{i}", 0)) for i in range(3)])
                x = np.array([[model_float(m.get(f"x{i}", 0)) for i in range(3)]])
                op = so.SymmetryOperation(R, t)
                op.translation = t
                a3 = op.apply(x)
                a4 = op.apply(np.hstack([x, [[1.0]]]))
                exp = x @ R.T + t
                bad = not (np.allclose(a3, exp) and np.allclose(a4[:, :3], exp) and a3.shape == (1, 3))
                return {"native_inputs": {"R": R.tolist(), "t": t.tolist(), "x": x.tolist()}, "reproduced": bad,
                        "observed": {"apply3": a3.tolist(), "apply4": a4.tolist(), "expected": exp.tolist()}}
            ctx.prove("symmetry_operation.SymmetryOperation.apply/ensures/affine" + sfx, r.pc,
                      conj([p3.data[0, i] == spec[i] for i in range(3)]), clause="apply(x) = R x + t for a row vector x", replay=replay, fn=SO("apply"))
            ctx.prove("symmetry_operation.SymmetryOperation.apply/ensures/3_vs_4" + sfx, r.pc,
                      conj([p4.data[0, i] == p3.data[0, i] for i in range(3)] + [p4.data[0, 3] == 1]),
                      clause="first three components of apply((x,1)) equal apply(x); the fourth stays 1", replay=replay, fn=SO("apply"))
            ctx.prove("symmetry_operation.SymmetryOperation.__call__/ensures/apply" + sfx, r.pc, z(eq_arrays(pc_, p3)), clause="op(x) == op.apply(x)",
                      fn=SO("apply"))
            want = [[Rr_[i][j] for j in range(3)] + [tv[i]] for i in range(3)] + [[0, 0, 0, 1]]
            ctx.prove("symmetry_operation.SymmetryOperation.seitz_matrix/ensures/layout" + sfx, r.pc, z(eq_arrays(sz, farr(want))),
                      clause="seitz = [[R, t],[0 0 0 1]]", replay=replay, fn=SO("seitz_matrix"))
    ctx.attempt("symmetry_operation.SymmetryOperation.apply/ensures/affine", ob_apply)
    ctx.attempt("symmetry_operation.SymmetryOperation.apply/ensures/affine/int_rotation", lambda: ob_apply(True))

    # inverted / __add__ / __sub__
    def ob_arith():
        vv = reals("w", 3)

        def thunk(I2, a, kw):
            op = make_op(I2, Rv, tv)
            inv = I2.call(I2.getattr(op, "inverted"), [])
            add = I2.binop("+", op, farr(vv))
            sub = I2.binop("-", op, farr(vv))
            return op, inv, add, sub
        res = I.explore(thunk, pre=ternary_hyps(Rv))
        fl = lambda x: x - z3.ToReal(z3.ToInt(x))
        for r in res:
            op, inv, add, sub = r.value
            ctx.prove("symmetry_operation.SymmetryOperation.inverted/ensures/spec", r.pc,
                      conj([inv.fields["rotation"].data[i, j] == -z3.ToReal(Rv[i][j]) for i in range(3) for j in range(3)] +
                           [inv.fields["translation"].data[i] == fl(-fl(tv[i])) for i in range(3)]),
                      clause="inverted(): rotation -R, translation (-t) mod 1", fn=SO("inverted"))
            ctx.prove("symmetry_operation.SymmetryOperation.__add__/ensures/spec", r.pc,
                      conj([add.fields["rotation"].data[i, j] == z3.ToReal(Rv[i][j]) for i in range(3) for j in range(3)] +
                           [add.fields["translation"].data[i] == fl(fl(tv[i]) + vv[i]) for i in range(3)] +
                           [sub.fields["translation"].data[i] == fl(fl(tv[i]) - vv[i]) for i in range(3)]),
                      clause="op + v / op - v: same rotation, translation (t +- v) mod 1", fn=SO("__add__"))
            ctx.prove("symmetry_operation.SymmetryOperation.__init__/ensures/wrap", r.pc,
                      conj([z3.And(op.fields["translation"].data[i] >= 0, op.fields["translation"].data[i] < 1) for i in range(3)]),
                      clause="stored translation lies in [0,1) (real arithmetic)", fn=SO("__init__"))
    ctx.attempt("symmetry_operation.SymmetryOperation.inverted/ensures/spec", ob_arith)

    cartesian_obligations(ctx, I, SOcls, Rr, tv, xv)
    string_obligations(ctx, I, SOcls)
    array_like_forms(ctx)
    independent_results(ctx)
    engine_guard(ctx, I, dec, enc)
    bounded(ctx)


# ---------------------------------------------------------------------------------------------------------------------
def cartesian_obligations(ctx, I, SOcls, Rr, tv, xv):
    """(f R^T + t) D == (f D) R_c + t_c for the pair returned by Crystal.cartesian_symmetry_operations, given D.Inv = 1."""
    CR = "chmpy.crystal.crystal"
    f = ctx.fn(CR, "Crystal.cartesian_symmetry_operations")
    ctx.fn(CR, "Crystal.to_cartesian")
    ctx.fn("chmpy.crystal.unit_cell", "UnitCell.to_cartesian")
    D = real_matrix("D", 3, 3)
    Iv = real_matrix("V", 3, 3)

    def ob():
        def thunk(I2, a, kw):
            op = Obj(SOcls, {"rotation": farr(Rr), "translation": farr(tv)})
            uc = shell(I2, "chmpy.crystal.unit_cell", "UnitCell", direct=farr(D), inverse=farr(Iv))
            sg = shell(I2, "chmpy.crystal.space_group", "SpaceGroup", symmetry_operations=[op])
            cr = shell(I2, CR, "Crystal", unit_cell=uc, space_group=sg)
            return I2.call(I2.getattr(cr, "cartesian_symmetry_operations"), [])
        res = I.explore(thunk)
        assert len(res) == 1 and res[0].kind == "return", [(r.kind, r.value) for r in res]
        (Rc, tc), = res[0].value
        # fractional route
        frac = [sum(xv[j] * Rr[i][j] for j in range(3)) + tv[i] for i in range(3)]
        lhs = [sum(frac[k] * D[k][i] for k in range(3)) for i in range(3)]
        cart = [sum(xv[k] * D[k][i] for k in range(3)) for i in range(3)]
        rhs = [sum(cart[k] * Rc.data[k, i] for k in range(3)) + tc.data[i] for i in range(3)]
        hyps = []
        for a in range(3):
            for b in range(3):
                hyps.append(sum(D[a][k] * Iv[k][b] for k in range(3)) - (1 if a == b else 0))

        def sampler(k):
            rng = np.random.default_rng(1000 + k)
            while True:
                Dm = [[Fraction(int(rng.integers(-9, 10)), int(rng.integers(1, 5))) for _ in range(3)] for _ in range(3)]
                det = (Dm[0][0] * (Dm[1][1] * Dm[2][2] - Dm[1][2] * Dm[2][1]) - Dm[0][1] * (Dm[1][0] * Dm[2][2] - Dm[1][2] * Dm[2][0])
                       + Dm[0][2] * (Dm[1][0] * Dm[2][1] - Dm[1][1] * Dm[2][0]))
                if det != 0:
                    break
            cof = lambda i, j: (Dm[(i + 1) % 3][(j + 1) % 3] * Dm[(i + 2) % 3][(j + 2) % 3] - Dm[(i + 1) % 3][(j + 2) % 3] * Dm[(i + 2) % 3][(j + 1) % 3])
            Vm = [[cof(j, i) / det for j in range(3)] for i in range(3)]
            env = {}
            for i in range(3):
                for j in range(3):
                    env[f"D{i}{j}"] = Dm[i][j]
                    env[f"V{i}{j}"] = Vm[i][j]
                    env[f"R{i}{j}"] = Fraction(int(rng.integers(-1, 2)))
                env[f"t{i}"] = Fraction(int(rng.integers(0, 12)), 12)
                env[f"x{i}"] = Fraction(int(rng.integers(-20, 20)), 7)
            return env

        def replay(m):
            from chmpy.crystal import Crystal, UnitCell, SpaceGroup, AsymmetricUnit
            from chmpy.crystal.symmetry_operation import SymmetryOperation
            import chmpy
            Dn = np.array([[float(Fraction(m[f"D{i}{j}"])) for j in range(3)] for i in range(3)])
            Rn = np.array([[float(Fraction(m[f"R{i}{j}"])) for j in range(3)] for i in range(3)])
            tn = np.array([float(Fraction(m[f"t{i}"])) for i in range(3)])
            xn = np.array([[float(Fraction(m[f"x{i}"])) for i in range(3)]])
            uc = UnitCell(Dn)
            sg = SpaceGroup(1)
            cr = Crystal(uc, sg, AsymmetricUnit([chmpy.Element["C"]], np.array([[0.1, 0.2, 0.3]])))
            op = SymmetryOperation(Rn, tn)
            sg.symmetry_operations = [op]
            (rc, tcn), = cr.cartesian_symmetry_operations()
            a = uc.to_cartesian(op.apply(xn))
            b2 = np.dot(uc.to_cartesian(xn), rc) + tcn
            diff = float(np.abs(a - b2).max())
            return {"native_inputs": {"direct": Dn.tolist(), "rotation": Rn.tolist(), "translation": tn.tolist(), "frac_point": xn.tolist()},
                    "reproduced": diff > 1e-8 * max(1.0, float(np.abs(a).max())), "observed": {"fractional_route": a.tolist(), "cartesian_route": b2.tolist()}}
        ctx.prove_identity("crystal.Crystal.cartesian_symmetry_operations/ensures/apply.cartesian", [lhs[i] - rhs[i] for i in range(3)], hyps,
                           clause="(f R^T + t) D == (f D) R_c + t_c  whenever D V = 1 (R_c, t_c as returned by the real function)",
                           sampler=sampler, replay=replay, fn=f)
    ctx.attempt("crystal.Crystal.cartesian_symmetry_operations/ensures/apply.cartesian", ob)


# ---------------------------------------------------------------------------------------------------------------------
FRAC_STR = ["", "1/12", "1/6", "1/4", "1/3", "5/12", "1/2", "7/12", "2/3", "3/4", "5/6", "11/12"]


def spec_symm_str(R, k):
    rows = []
    for i in range(3):
        v = FRAC_STR[k[i] % 12]
        for j in range(3):
            if R[i][j] != 0:
                v += ("-" if R[i][j] < 0 else "+") + "xyz"[j]
        rows.append(v)
    return ",".join(rows)


def independent_results(ctx):
    """G: every decoding returns arrays of its own: editing the matrix form obtained from one call does not change what the next call (same or other spelling) returns,
    and no decoder is wrapped in a caching decorator (a cache would hand the same mutable arrays to every caller)."""
    import ast as _ast
    import chmpy.crystal.symmetry_operation as so
    from pyvc import source as _src
    tree = _src.load_module(MOD).tree
    decorated = {}
    for n_ in _ast.walk(tree):
        if isinstance(n_, _ast.FunctionDef):
            ds = [_ast.unparse(d_) for d_ in n_.decorator_list]
            if any("cache" in d_ for d_ in ds):
                decorated[n_.name] = ds
    bad = []
    for label, call in (("decode_symm_str('-y,x-y,z+1/3')", lambda: so.decode_symm_str("-y,x-y,z+1/3")), ("decode_symm_str('x,y,z')", lambda: so.decode_symm_str("x,y,z")),
                        ("decode_symm_int(16484)", lambda: so.decode_symm_int(16484)),
                        ("SymmetryOperation.from_string_code('x,y,z')", lambda: (lambda o: (o.rotation, o.translation))(so.SymmetryOperation.from_string_code("x,y,z"))),
                        ("SymmetryOperation.from_integer_code(16484)", lambda: (lambda o: (o.rotation, o.translation))(so.SymmetryOperation.from_integer_code(16484)))):
        try:
            r1, t1 = call()
            want = (np.array(r1, dtype=float, copy=True), np.array(t1, dtype=float, copy=True))
            r1 = np.asarray(r1)
            t1 = np.asarray(t1)
            if r1.flags.writeable:
                r1[...] = 7.0
            if t1.flags.writeable:
                t1[...] = 0.123
            r2, t2 = call()
            if not (np.array_equal(np.asarray(r2, dtype=float), want[0]) and np.allclose(np.asarray(t2, dtype=float), want[1])):
                bad.append({"call": label, "history": "call, overwrite the returned arrays, call again", "second_result_rotation": np.asarray(r2, dtype=float).tolist()})
        except Exception as e:  # noqa
            bad.append({"call": label, "raised": repr(e)[:160]})
    ctx.ground("symmetry_operation/decoders/independent_results", not decorated and not bad, tag="G",
               clause="decode_symm_str / decode_symm_int / from_string_code / from_integer_code hand out arrays of their own (overwriting one result does not change the next) and none "
               "of them is wrapped in a caching decorator", detail={"decorated": decorated, "shared": bad[:3]}, witness={"decorated": decorated, "shared": bad[:2]})


def array_like_forms(ctx):
    """G: the documented array_like arguments (nested tuples / lists, integer entries) give the same packed code as ndarrays."""
    so = _native()
    rng = np.random.default_rng(2024)
    bad = None
    n = 0
    for c_ in [16484, 1433663, 4242] + [int(x) for x in rng.integers(0, NCODES, 60)]:
        R, t = so.decode_symm_int(c_)
        forms = [(R, t), (R.tolist(), t.tolist()), (tuple(map(tuple, R.tolist())), tuple(t.tolist())), (R.astype(int).tolist(), tuple(t.tolist()))]
        for Rf, tf in forms:
            n += 1
            try:
                got = int(so.encode_symm_int(Rf, tf))
            except Exception as e:  # noqa
                got = repr(e)[:80]
            if got != c_ and bad is None:
                bad = {"code": c_, "rotation_type": type(Rf).__name__, "translation_type": type(tf).__name__, "translation": list(map(float, t)), "encode_symm_int": got}
    ctx.ground("symmetry_operation.encode_symm_int/ensures/array_like_arguments", bad is None, clause=f"ndarray, nested list and nested tuple arguments of the same operation encode to the same integer ({n} calls)",
               detail=bad, witness=bad, fn=ctx.fn(MOD, "encode_symm_int"))


def engine_guard(ctx, I, dec, enc):
    """CPython cross-check of the symbolic executor on the functions under contract (concrete arguments, one path, same value)."""
    from pyvc.crosscheck import crosscheck
    so = _native()
    rng = np.random.default_rng(1111)
    codes = [16484, 0, NCODES - 1, 4242, 19682, 19683] + [int(x) for x in rng.integers(0, NCODES, 40)]
    crosscheck(ctx, I, dec, so.decode_symm_int, [(c_,) for c_ in codes])
    pairs = [so.decode_symm_int(c_) for c_ in codes[:30]]
    crosscheck(ctx, I, enc, so.encode_symm_int, [(r_, t_) for r_, t_ in pairs], to_engine=lambda a: (farr(a[0].tolist()), farr(a[1].tolist())))
    crosscheck(ctx, I, ctx.fn(MOD, "encode_symm_str"), so.encode_symm_str, [(r_, t_) for r_, t_ in pairs[:20]],
               to_engine=lambda a: (farr(a[0].tolist()), farr(a[1].tolist())))
    strings = [so.encode_symm_str(r_, t_) for r_, t_ in pairs[:20]] + ["x,y,z", "-x+1/2, y, -z+1/4", "x-y,x,z+1/6", "0.5+x,y,z", "X,Y,Z"]
    crosscheck(ctx, I, ctx.fn(MOD, "decode_symm_str"), so.decode_symm_str, [(s_,) for s_ in strings])


def string_obligations(ctx, I, SOcls):
    """encode_symm_str / decode_symm_str on the complete grid of encodable operations, per row (rows are independent:
    the functions loop over rows with no shared state except the row index) — exact evaluation of the real functions."""
    so = _native()
    t0 = time.time()
    rows = list(itertools.product((-1, 0, 1), repeat=3))
    bad = None
    n = 0
    for i in range(3):
        for row in rows:
            for k in range(12):
                R = [[0, 0, 0] for _ in range(3)]
                kk = [0, 0, 0]
                R[i] = list(row)
                kk[i] = k
                got = so.encode_symm_str(np.array(R, dtype=float), np.array(kk) / 12)
                n += 1
                if got != spec_symm_str(R, kk) and bad is None:
                    bad = {"rotation": R, "translation_twelfths": kk, "got": got, "expected": spec_symm_str(R, kk)}
    ctx.ground("symmetry_operation.encode_symm_str/ensures/spec", bad is None, clause=f"per row, all 27 ternary rows x 12 grid translations x 3 row positions ({n} cases): "
               "reduced fraction then +-x/+-y/+-z for exactly the non-zero entries", detail=bad, witness=bad, seconds=time.time() - t0,
               fn=ctx.fn(MOD, "encode_symm_str"))
    # decode(encode) on the same grid, and through SymmetryOperation.from_string_code -> str (canonical printing)
    t0 = time.time()
    bad = None
    bad2 = None
    n = 0
    for i in range(3):
        for row in rows:                      # including the all-zero row (degenerate but encodable: its component is the bare translation, or empty)
            for k in range(12):
                R = [[1, 0, 0], [0, 1, 0], [0, 0, 1]]
                kk = [0, 0, 0]
                R[i] = list(row)
                kk[i] = k
                s = spec_symm_str(R, kk)
                r2, t2 = so.decode_symm_str(s)
                n += 1
                if not (np.array_equal(r2, R) and np.allclose(t2 * 12, kk, atol=1e-9)) and bad is None:
                    bad = {"string": s, "rotation": r2.tolist(), "translation": t2.tolist(), "expected_rotation": R, "expected_twelfths": kk}
                op = so.SymmetryOperation.from_string_code(s)
                op2 = so.SymmetryOperation(np.array(R, dtype=float), np.array(kk) / 12)
                if not (op == op2 and str(op) == str(op2) and hash(op) == hash(op2)) and bad2 is None:
                    bad2 = {"string": s, "str(from_string_code)": str(op), "str(matrix form)": str(op2), "codes": [int(op.integer_code), int(op2.integer_code)]}
    ctx.ground("symmetry_operation.decode_symm_str/ensures/inverse_of_encode", bad is None,
               clause=f"decode_symm_str(canonical spelling) returns the rotation and translation, one varying row at a time ({n} cases)",
               detail=bad, witness=bad, seconds=time.time() - t0, fn=ctx.fn(MOD, "decode_symm_str"))
    ctx.ground("symmetry_operation.SymmetryOperation.from_string_code/ensures/same_operation", bad2 is None,
               clause="from_string_code(s) equals, hashes and prints like the operation built from the matrix form", detail=bad2, witness=bad2,
               fn=ctx.fn(MOD, "SymmetryOperation.from_string_code"))
    # printing is canonical: equal operations print identically whatever spelling they were read from
    t0 = time.time()
    bad = None
    spellings = ["x,y,z", "+x,+y,+z", "X, Y, Z", " x , y , z ", "x,y,+z", "x+0,y,z"]
    outs = {}
    for s in spellings:
        op = so.SymmetryOperation.from_string_code(s)
        outs[s] = (str(op), int(op.integer_code))
    ident = so.SymmetryOperation.identity()
    if len({v for v in outs.values()} | {(str(ident), int(ident.integer_code))}) != 1:
        bad = {"spellings": outs, "identity": [str(ident), int(ident.integer_code)]}
    ctx.ground("symmetry_operation.SymmetryOperation.__str__/ensures/canonical", bad is None,
               clause="equal operations print identically: every spelling of the identity prints as the identity does", detail=bad, witness=bad,
               seconds=time.time() - t0, fn=ctx.fn(MOD, "SymmetryOperation.__str__"))


# ---------------------------------------------------------------------------------------------------------------------
def spelling_variants(R, kk, rng, count):
    """Equivalent CIF/SHELX spellings of one operation: term order, sign forms, fraction/decimal, blanks, case."""
    out = []
    for _ in range(count):
        rows = []
        for i in range(3):
            terms = []
            for j in range(3):
                if R[i][j]:
                    sign = "-" if R[i][j] < 0 else "+"
                    terms.append((sign, "xyz"[j]))
            k = kk[i] % 12
            if k:
                f = Fraction(k, 12)
                style = rng.integers(0, 3)
                if style == 0:
                    txt = f"{f.numerator}/{f.denominator}"
                elif style == 1:
                    txt = f"{float(f):.{int(rng.integers(4, 9))}f}"
                else:
                    txt = repr(round(float(f), 7))
                neg = rng.integers(0, 4) == 0
                if neg:   # -(1 - f) is the same translation modulo the lattice
                    g = 1 - f
                    txt = f"{g.numerator}/{g.denominator}" if style == 0 else f"{float(g):.7f}"
                    terms.append(("-", txt))
                else:
                    terms.append(("+", txt))
            order = rng.permutation(len(terms))
            s = ""
            for pos, ti in enumerate(order):
                sign, body = terms[ti]
                if pos == 0 and sign == "+" and rng.integers(0, 2):
                    sign = ""
                sp = " " * int(rng.integers(0, 3))
                s += sp + sign + sp + body
            if rng.integers(0, 2):
                s = s.upper()
            rows.append(" " * int(rng.integers(0, 2)) + s + " " * int(rng.integers(0, 2)))
        out.append(",".join(rows))
    return out


def bounded(ctx):
    so = _native()
    rng = np.random.default_rng(ctx.seed + 11)
    # B1: string reader on the spelling grammar
    n_ops = 150 if ctx.tier == "quick" else 3000
    per = 8
    fails, evals, distinct = [], 0, set()
    t0 = time.time()
    for _ in range(n_ops):
        while True:
            R = rng.integers(-1, 2, size=(3, 3))
            if all(R[i].any() for i in range(3)):
                break
        kk = rng.integers(0, 12, size=3)
        ref = so.SymmetryOperation(R.astype(float), kk / 12)
        for s in spelling_variants(R, kk, rng, per):
            evals += 1
            distinct.add(s)
            try:
                op = so.SymmetryOperation.from_string_code(s)
                ok = (op == ref) and hash(op) == hash(ref) and str(op) == str(ref)
                obs = {"code": int(op.integer_code), "expected_code": int(ref.integer_code), "str": str(op), "expected_str": str(ref)}
            except Exception as e:  # noqa
                ok, obs = False, {"exception": repr(e)}
            if not ok and len(fails) < 3:
                fails.append({"input": {"string": s, "rotation": R.tolist(), "twelfths": kk.tolist()}, "observed": obs,
                              "clause": "from_string_code(spelling) is the operation", "key": "spelling"})
    ctx.add_bounded("symmetry_operation.decode_symm_str/bounded/spelling_grammar", "seeded random operations x 8 spellings (term order, signs, fraction/decimal 4-8 digits, negative translations, blanks, case)",
                    evals, len(distinct), fails, samples=[{"spelling": s} for s in list(distinct)[:3]],
                    rule="distinct spelling strings; non-trivial = every row has a rotation term")
    # B2: float noise around the translation grid, real numpy path
    fails, evals, distinct = [], 0, set()
    offs = [-2, -1, 0, 1, 2]
    noise = [-1e-12, -1e-13, 0.0, 1e-13, 1e-12]
    for k in range(12):
        for n in offs:
            for e in noise:
                t = np.array([k / 12 + n + e, 0.25, (12 - k) % 12 / 12 - n + e])
                ref = so.SymmetryOperation(np.eye(3), np.array([k / 12, 0.25, (12 - k) % 12 / 12]))
                op = so.SymmetryOperation(np.eye(3), t)
                evals += 1
                distinct.add((k, n, e))
                ok = op == ref and hash(op) == hash(ref) and str(op) == str(ref)
                if not ok and len(fails) < 3:
                    fails.append({"input": {"translation": t.tolist(), "reference_translation": ref.translation.tolist()},
                                  "observed": {"code": int(op.integer_code), "ref_code": int(ref.integer_code), "str": str(op), "ref_str": str(ref)},
                                  "clause": "translations differing by an integer +- 1e-12 give equal, equally hashed, identically printed operations",
                                  "key": "noise"})
    ctx.add_bounded("symmetry_operation.SymmetryOperation/bounded/lattice_noise_float", "12 grid values x integer offsets -2..2 x noise {0, +-1e-13, +-1e-12}, real float64 path",
                    evals, len(distinct), fails, rule="distinct (k, n, eps) triples")
    if ctx.tier == "thorough":
        # G (thorough): ALL 34,012,224 packed codes through the real numpy functions (closes the floats-as-reals gap of the symbolic round trip on this finite domain)
        import multiprocessing as mp
        t0 = time.time()
        nproc = min(16, os.cpu_count() or 4)
        chunk = 200000
        ranges = [(lo, min(lo + chunk, NCODES)) for lo in range(0, NCODES, chunk)]
        with mp.get_context("fork").Pool(nproc) as pool:
            results = pool.map(_roundtrip_range, ranges, chunksize=2)
        bad = [r for r in results if r is not None]
        ctx.ground("symmetry_operation.roundtrip/native_all_codes", not bad, clause=f"encode_symm_int(*decode_symm_int(c)) == c for every one of the {NCODES} codes, real float64 path",
                   detail={"codes": NCODES, "first_bad": bad[:3]}, witness=bad[:3], seconds=round(time.time() - t0, 1))


def _roundtrip_range(r):
    so = _native()
    dec, enc = so.decode_symm_int, so.encode_symm_int
    for code in range(r[0], r[1]):
        if enc(*dec(code)) != code:
            return code
    return None
