"""Generators of molecular crystals for the bounded stand-ins (shared by C04 / C10)."""
import itertools
import numpy as np

MOLS = {
    "water": (["O", "H", "H"], np.array([[0.0, 0.0, 0.0], [0.96, 0.0, 0.0], [-0.24, 0.93, 0.0]])),
    "h2co": (["C", "O", "H", "H"], np.array([[0.0, 0.0, 0.0], [1.21, 0.0, 0.0], [-0.55, 0.94, 0.0], [-0.55, -0.94, 0.0]])),
    "hcn": (["H", "C", "N"], np.array([[-1.07, 0.0, 0.0], [0.0, 0.0, 0.0], [1.16, 0.0, 0.0]])),
    "methanol": (["C", "O", "H", "H", "H", "H"], np.array([[0.0, 0.0, 0.0], [1.43, 0.0, 0.0], [-0.36, 1.03, 0.0], [-0.36, -0.51, 0.89],
                                                               [-0.36, -0.51, -0.89], [1.75, 0.9, 0.1]])),
    "ethene": (["C", "C", "H", "H", "H", "H"], np.array([[0.0, 0.0, 0.0], [1.33, 0.0, 0.0], [-0.56, 0.93, 0.0], [-0.56, -0.93, 0.0], [1.89, 0.93, 0.0], [1.89, -0.93, 0.0]])),
    "h2s": (["S", "H", "H"], np.array([[0.0, 0.0, 0.0], [1.34, 0.0, 0.0], [-0.05, 1.34, 0.0]])),
    "i2": (["I", "I"], np.array([[0.0, 0.0, 0.0], [2.67, 0.0, 0.0]])),
    "ch3i": (["C", "I", "H", "H", "H"], np.array([[0.0, 0.0, 0.0], [2.14, 0.0, 0.0], [-0.36, 1.03, 0.0], [-0.36, -0.51, 0.89], [-0.36, -0.51, -0.89]])),
    # central atom listed last / in the middle: the breadth-first unwrapping then meets predecessors with a larger index
    "water_hho": (["H", "H", "O"], np.array([[0.96, 0.0, 0.0], [-0.24, 0.93, 0.0], [0.0, 0.0, 0.0]])),
    "h2co_hhoc": (["H", "H", "O", "C"], np.array([[-0.55, 0.94, 0.0], [-0.55, -0.94, 0.0], [1.21, 0.0, 0.0], [0.0, 0.0, 0.0]])),
}


def random_rotation(rng):
    q = rng.normal(size=4)
    q /= np.linalg.norm(q)
    a, b, c, d = q
    return np.array([[a * a + b * b - c * c - d * d, 2 * (b * c - a * d), 2 * (b * d + a * c)],
                     [2 * (b * c + a * d), a * a - b * b + c * c - d * d, 2 * (c * d - a * b)],
                     [2 * (b * d - a * c), 2 * (c * d + a * b), a * a - b * b - c * c + d * d]])


def compatible_cell(rng, number, scale=1.0):
    """A unit cell metrically compatible with the crystal system of space group `number`."""
    from chmpy.crystal import UnitCell
    a, b, c = rng.uniform(11, 16, 3) * scale
    r = np.pi / 2
    if number <= 2:
        while True:
            ang = rng.uniform(np.radians(65), np.radians(115), 3)
            ca, cb, cg = np.cos(ang)
            if 1 - ca * ca - cb * cb - cg * cg + 2 * ca * cb * cg > 0.3:
                return UnitCell.from_lengths_and_angles([a, b, c], ang)
    if number <= 15:
        return None          # unique axis depends on the setting: decided by the caller through `monoclinic_cell`
    if number <= 74:
        return UnitCell.from_lengths_and_angles([a, b, c], [r, r, r])
    if number <= 142:
        return UnitCell.from_lengths_and_angles([a, a, c], [r, r, r])
    if number <= 194:
        return UnitCell.from_lengths_and_angles([a, a, c], [r, r, 2 * np.pi / 3])
    return UnitCell.from_lengths_and_angles([a, a, a], [r, r, r])


def cell_for_setting(rng, sg, scale=1.0):
    """Cell compatible with the operations of the setting: found by symmetrising a random metric tensor under the rotations."""
    from chmpy.crystal import UnitCell
    ops = sg.symmetry_operations
    a, b, c = rng.uniform(11, 16, 3) * scale
    while True:
        ang = rng.uniform(np.radians(70), np.radians(110), 3)
        ca, cb, cg = np.cos(ang)
        if 1 - ca * ca - cb * cb - cg * cg + 2 * ca * cb * cg > 0.4:
            break
    G = np.array([[a * a, a * b * cg, a * c * cb], [a * b * cg, b * b, b * c * ca], [a * c * cb, b * c * ca, c * c]])
    # metric tensor invariant under every rotation part: average R^T G R over the point group (fractional rotations)
    acc = np.zeros((3, 3))
    for s in ops:
        R = np.asarray(s.rotation, dtype=float)
        acc += R.T @ G @ R
    G = acc / len(ops)
    L = np.sqrt(np.diag(G))
    al = np.arccos(np.clip(G[1, 2] / (L[1] * L[2]), -1, 1))
    be = np.arccos(np.clip(G[0, 2] / (L[0] * L[2]), -1, 1))
    ga = np.arccos(np.clip(G[0, 1] / (L[0] * L[1]), -1, 1))
    return UnitCell.from_lengths_and_angles(L, [al, be, ga])


def has_close_contact(frac_sets, D, min_sep):
    """Is there a pair of atoms closer than min_sep belonging to different molecule images (or to different lattice
    translates of the same image)?  All images are wrapped as rigid units; 27 neighbouring cells are considered."""
    from scipy.spatial import cKDTree
    ids, pts = [], []
    for k, f in enumerate(frac_sets):
        ids += [k] * len(f)
        pts.append(f)
    pts = np.vstack(pts) @ D
    ids = np.array(ids)
    shifts = np.array(list(itertools.product((-1, 0, 1), repeat=3)), dtype=float) @ D
    base = cKDTree(pts)
    for si, s in enumerate(shifts):
        other = cKDTree(pts + s)
        pairs = base.query_ball_tree(other, min_sep)
        zero = not s.any()
        for i, js in enumerate(pairs):
            for j in js:
                if ids[i] != ids[j] or not zero:
                    if zero and ids[i] == ids[j]:
                        continue
                    return True
    return False


def molecular_crystal(rng, number, choice, kinds, max_tries=60, min_sep=2.9, scale=1.0, scatter=False, dup_labels=False):
    """Crystal of the given setting with the given molecules on general positions, all intermolecular contacts > min_sep
    (bonding threshold is at most ~2.6 A for these elements).  Returns (crystal, description) or (None, reason)."""
    from chmpy.crystal import Crystal, SpaceGroup, AsymmetricUnit
    from chmpy import Element
    sg = SpaceGroup(number, choice=choice)
    nops = len(sg.symmetry_operations)
    if any(k in ("i2", "ch3i") for k in kinds):
        min_sep = max(min_sep, 4.3)        # iodine: bonding threshold up to 3.2 A
        scale *= 1.25
    sc = scale * max(1.0, (nops * len(kinds) / 8.0) ** (1 / 3))
    for _ in range(max_tries):
        cell = cell_for_setting(rng, sg, scale=sc)
        D = cell.direct
        els, pos = [], []
        for kind in kinds:
            e, p = MOLS[kind]
            centre = rng.uniform(-0.6, 1.6, 3) @ D          # anywhere relative to the cell boundaries
            els += e
            pos.append(p @ random_rotation(rng).T + centre)
        pos = np.vstack(pos)
        frac = cell.to_fractional(pos)
        # images of every molecule under every operation
        sets = []
        start = 0
        for kind in kinds:
            n = len(MOLS[kind][0])
            for s in sg.symmetry_operations:
                img = s.apply(frac[start:start + n])
                sets.append(img - np.floor(img.mean(axis=0)))       # rigid lattice translate with its centroid in the reference cell
            start += n
        if not has_close_contact(sets, D, min_sep):
            if scatter:
                # list some sites as symmetry-equivalent positions (any operation, any lattice translation): same crystal, as in many real CIF files
                frac = frac.copy()
                for i in range(len(frac)):
                    if rng.integers(0, 3) == 0:
                        s_ = sg.symmetry_operations[int(rng.integers(0, nops))]
                        frac[i] = s_.apply(frac[i][None, :])[0] + rng.integers(-2, 3, 3)
            labels = None
            if dup_labels:
                # every molecule numbers its own atoms from 1: labels repeat across the molecules of the asymmetric unit (common in deposited CIFs with Z' > 1)
                labels, start_ = [], 0
                for kind in kinds:
                    cnt = {}
                    for e_ in MOLS[kind][0]:
                        cnt[e_] = cnt.get(e_, 0) + 1
                        labels.append(f"{e_}{cnt[e_]}")
                labels = np.array(labels)
            c = Crystal(cell, sg, AsymmetricUnit([Element[x] for x in els], frac, labels=labels))
            return c, {"setting": f"{number}:{choice}", "molecules": list(kinds), "cell": np.round(cell.parameters, 3).tolist(), "frac": np.round(frac, 5).tolist(), "sites_listed_as_symmetry_images": bool(scatter)}
    return None, "no placement found"
