"""C16 — saving a molecule to XYZ or SDF and loading it back reproduces it (core/molecule.py, fmt/xyz_file.py, fmt/sdf.py)."""
import ast
import os
import tempfile
import time
from fractions import Fraction

import numpy as np
import z3

from pyvc import frames
from pyvc.api import Contract, Interp, NDArr, Obj, conj, farr, reals, real_matrix, shell, source
from pyvc.strings import SStr, Lit, Fmt, MisalignedSlice
from pyvc.values import PyRaise, Unsupported, z, to_real

MOL, XYZ, SDF, ELM = "chmpy.core.molecule", "chmpy.fmt.xyz_file", "chmpy.fmt.sdf", "chmpy.core.element"

# V2000 atom block and counts line, as published (columns are 1-based, inclusive) — the oracle for "fixed-column layout"
V2000_ATOM = [("x", 1, 10), ("y", 11, 20), ("z", 21, 30), ("space", 31, 31), ("symbol", 32, 34), ("mass_difference", 35, 36),
              ("charge", 37, 39), ("stereo", 40, 42), ("hydrogen_count", 43, 45), ("stereo_care_box", 46, 48), ("valence", 49, 51),
              ("h0_designator", 52, 54), ("not_used1", 55, 57), ("not_used2", 58, 60), ("mapping", 61, 63), ("inversion", 64, 66),
              ("exact_exchange", 67, 69)]
V2000_COUNTS = [("atoms", 1, 3), ("bonds", 4, 6), ("atom_list", 7, 9), ("obselete", 10, 12), ("chiral", 13, 15), ("stext", 16, 18),
                ("obselete1", 19, 21), ("obselete2", 22, 24), ("obselete3", 25, 27), ("obselete4", 28, 30), ("additional", 31, 33)]
V2000_BOND = [("left", 1, 3), ("right", 4, 6), ("type", 7, 9), ("stereo", 10, 12), ("not_used", 13, 15), ("topology", 16, 18),
              ("center_status", 19, 21)]

SDF_LO, SDF_HI = Fraction(-999999995, 100000), Fraction(9999999995, 100000)    # what fits '10.4f': (-9999.99995, 99999.99995)


def _mol():
    import chmpy
    return chmpy


def native_roundtrip(symbols, pos, fmt, bonds=False):
    """Save with Molecule.save, load with Molecule.load; returns (ok, observed)."""
    from chmpy import Molecule, Element
    m = Molecule([Element[s] for s in symbols], np.array(pos, dtype=float))
    if bonds:
        m.guess_bonds()
    d = tempfile.mkdtemp(prefix="c16_")
    p = os.path.join(d, "mol." + fmt)
    try:
        m.save(p)
        text = open(p).read()
        m2 = Molecule.load(p)
        if isinstance(m2, list):
            if len(m2) != 1:
                return False, {"loaded": f"{len(m2)} molecules"}
            m2 = m2[0]
        tol = 0.5e-12 * 1.01 if fmt == "xyz" else 0.5e-4 * 1.0001
        ok = [e.atomic_number for e in m2.elements] == [Element[s].atomic_number for s in symbols] and \
            np.asarray(m2.positions).shape == np.asarray(pos).shape and bool(np.all(np.abs(np.asarray(m2.positions) - np.asarray(pos)) <= tol + 1e-16 * np.abs(pos)))
        return ok, {"elements": [str(e) for e in m2.elements], "positions": np.asarray(m2.positions).tolist(), "text_head": text[:400]}
    except Exception as e:  # noqa
        return False, {"exception": repr(e)[:300]}
    finally:
        for f in os.listdir(d):
            os.unlink(os.path.join(d, f))
        os.rmdir(d)


def build(ctx):
    ctx.level = "proof"
    ctx.explanation = ("P: the real writers and readers executed on symbolic coordinates with structured strings (formatted fields keep their value, "
                       "width and column offset as linear terms): column alignment against the published V2000 table, parse(format(x)) within half a unit of the "
                       "last digit, coordinate dataflow, whole-text write->read for 2-atom instances with all coordinates symbolic. F: each reader/writer loop is a map "
                       "(per-line independence lifts the per-line contracts to any atom count). G: tables vs the V2000 standard; element symbols of all 103 elements. "
                       "B: native save/load on seeded molecules, 1..200 atoms, with and without perceived bonds, multi-record SDF files.")
    ctx.assumptions += ["CPython format/parse contract: format(x,'W.Pf') renders round-half-even(x*10^P)/10^P, float() of that text returns it; "
                        "'Wd' renders the integer, int() returns it; widths as specified by the format mini-language",
                        "str.join/splitlines/split: '\\n'.join(L).splitlines() == L for lines without line breaks; split() separates at blanks",
                        "floats are reals (binary64 representation error of the decimal, <= 1 ulp, is not modelled)"]
    I = ctx.interp(contracts={MOL + ".Molecule.assign_default_labels": Contract(result=lambda I2, s: None)})
    molmod = source.load_module(MOL)
    MOLcls = I.class_of(molmod, "Molecule")
    elmod = source.load_module(ELM)
    ELcls = I.class_of(elmod, "Element")
    f_toxyz, f_fromxyz = ctx.fn(MOL, "Molecule.to_xyz_string"), ctx.fn(MOL, "Molecule.from_xyz_string")
    f_tosdf, f_fromsdf = ctx.fn(MOL, "Molecule.to_sdf_string"), ctx.fn(MOL, "Molecule.from_sdf_dict")
    f_pxyz = ctx.fn(XYZ, "parse_xyz_string")
    f_atomline, f_bondline, f_counts = ctx.fn(SDF, "to_atom_line"), ctx.fn(SDF, "to_bond_line"), ctx.fn(SDF, "to_counts_line")
    f_sdfstr, f_pcounts, f_patoms, f_pbonds, f_psdf = (ctx.fn(SDF, n) for n in ("to_sdf_string", "parse_counts_line", "parse_atom_lines",
                                                                                "parse_bond_lines", "parse_sdf_contents"))
    for n in ("save", "load", "_ext_save_map", "_ext_load_map", "to_xyz_file", "to_sdf_file", "from_xyz_file", "from_sdf_file"):
        ctx.fn(MOL, "Molecule." + n)

    # ---------------------------------------------------------------- F: assign_default_labels only assigns labels
    f_adl = ctx.fn(MOL, "Molecule.assign_default_labels")
    w = {n.attr for n in ast.walk(f_adl.node) if isinstance(n, ast.Attribute) and isinstance(n.ctx, ast.Store)}
    ctx.ground("molecule.Molecule.assign_default_labels/assigns", w <= {"labels"}, tag="F", clause="assign_default_labels stores only self.labels",
               detail=sorted(w), witness=sorted(w), fn=f_adl)

    # ---------------------------------------------------------------- G: the reader's tables are the V2000 standard
    sdfmod = source.load_module(SDF)
    for label, tabname, std in (("atom", "_ATOM_FIELDS", V2000_ATOM), ("counts", "_COUNTS_FIELDS", V2000_COUNTS), ("bond", "_BOND_FIELDS", V2000_BOND)):
        tab = I.lookup_global(sdfmod, tabname)
        cols, n = [], 0
        for name, parser, length in tab:
            if length is None:
                break
            cols.append((name, n + 1, n + length))
            n += length
        ok = cols == std
        ctx.ground(f"sdf.{tabname}/v2000_columns", ok, clause=f"the {label} field table has the published V2000 columns",
                   detail=None if ok else {"table": cols, "standard": std}, witness=None if ok else {"table": cols})

    def loops_fallback():
        rng_ = np.random.default_rng(5)
        for n_ in (1, 2, 5, 17):
            for fmt_ in ("xyz", "sdf"):
                pos_ = np.cumsum(rng_.uniform(0.9, 1.5, (n_, 3)), axis=0)
                ok_, obs_ = native_roundtrip(["C", "O", "N", "H", "S"][: max(1, min(5, n_))] * (n_ // 5 + 1), pos_.tolist() * 1, fmt_) if False else \
                    native_roundtrip((["C", "O", "N", "H", "S"] * 4)[:n_], pos_.tolist(), fmt_)
                if not ok_:
                    return {"input": {"natoms": n_, "format": fmt_}, "observed": obs_}
        return None

    # ---------------------------------------------------------------- F: loops are maps
    for fn, ordinal, acc, what in ((f_pxyz, 0, {"elements", "positions"}, "parse_xyz_string: one atom per line"),
                                   (f_toxyz, 0, {"lines"}, "to_xyz_string: one line per atom"),
                                   (f_patoms, 0, {"atom_data"}, "parse_atom_lines: one record per line"),
                                   (f_pbonds, 0, {"bond_data"}, "parse_bond_lines: one record per line"),
                                   (f_psdf, 0, {"results"}, "parse_sdf_contents: one molecule per record, in order")):
        ok, detail = frames.map_loop(fn.node, ordinal, acc)
        ctx.pattern(f"{fn.qualname.split('chmpy.')[1]}/loop{ordinal}/is_map", ok, clause=f"{what}: iterations are independent (only appends to {sorted(acc)})",
                    detail=detail, fn=fn, fallback=loops_fallback)
    # to_sdf_string: atom loop is loop 0 (for i in range(num_atoms)), bond loop 1
    for ordinal, acc in ((0, {"atom_lines"}), (1, {"bond_lines"})):
        ok, detail = frames.map_loop(f_sdfstr.node, ordinal, acc)
        ctx.pattern(f"fmt.sdf.to_sdf_string/loop{ordinal}/is_map", ok, clause="one line per atom / bond index", detail=detail, fn=f_sdfstr, fallback=loops_fallback)

    # ---------------------------------------------------------------- XYZ
    x, y, zc = reals("x", 3)
    LIM = 10 ** 6
    pre_xyz = [v > -LIM for v in (x, y, zc)] + [v < LIM for v in (x, y, zc)]
    H12 = Fraction(1, 2 * 10 ** 12)

    def mk_el(I2, sym):
        return I2.subscript(ELcls, sym)

    def mk_mol(I2, syms, P):
        return Obj(MOLcls, {"elements": [mk_el(I2, s) for s in syms], "positions": farr(P), "properties": {}, "bonds": None, "labels": None})

    def xyz_replay(m):
        vals = [float(Fraction(m.get(f"x{i}", 0))) for i in range(3)]
        pos = [vals, [1.5, -2.25, 0.125]]
        ok, obs = native_roundtrip(["O", "H"], pos, "xyz")
        return {"native_inputs": {"symbols": ["O", "H"], "positions": pos}, "reproduced": not ok, "observed": obs}

    def ob_xyz():
        P = [[x, y, zc], reals("p", 3)]
        pre = pre_xyz + [z3.And(v > -LIM, v < LIM) for v in P[1]]

        def thunk(I2, a, kw):
            m = mk_mol(I2, ["O", "H"], P)
            text = I2.call(I2.getattr(m, "to_xyz_string"), [])
            m2 = I2.call(I2.getattr(MOLcls, "from_xyz_string"), [text])
            return text, m2
        res = I.explore(thunk, pre=pre)
        assert all(r.kind == "return" for r in res), [(r.kind, r.value) for r in res][:3]
        for k, r in enumerate(res):
            text, m2 = r.value
            sfx = f"/path{k}" if len(res) > 1 else ""
            els = m2.fields["elements"]
            pos = m2.fields["positions"]
            ok_shape = isinstance(pos, NDArr) and pos.shape == (2, 3) and len(els) == 2
            goal = [z3.BoolVal(ok_shape)]
            if ok_shape:
                goal += [z3.BoolVal(els[0].fields["atomic_number"] == 8 and els[1].fields["atomic_number"] == 1)]
                for i in range(2):
                    for j in range(3):
                        d = pos.data[i, j] - P[i][j]
                        goal.append(z3.And(d <= z(H12), d >= -z(H12)))
            ctx.prove("molecule.Molecule.from_xyz_string/ensures/roundtrip_2atoms" + sfx, r.pc, conj(goal),
                      clause="forall coordinates in (-1e6,1e6): from_xyz_string(to_xyz_string(m)) has the same elements in order and coordinates within 0.5e-12",
                      replay=xyz_replay, fn=f_fromxyz)
        ctx.safety("molecule.Molecule.to_xyz_string", res, fn=f_toxyz)
    ctx.attempt("molecule.Molecule.from_xyz_string/ensures/roundtrip_2atoms", ob_xyz)

    # header lines: count line is len(self); the reader skips exactly two lines
    def ob_xyz_header():
        P = [[x, y, zc]]

        def thunk(I2, a, kw):
            m = mk_mol(I2, ["C"], P)
            return I2.call(I2.getattr(m, "to_xyz_string"), []), I2.call(I2.getattr(m, "to_xyz_string"), [False])
        res = I.explore(thunk, pre=pre_xyz)
        for k, r in enumerate(res):
            full, bare = r.value
            lines = I.call(I.getattr(full, "splitlines"), []) if isinstance(full, SStr) else full.splitlines()
            ok = len(lines) == 3 and lines[0] == "1" and isinstance(lines[1], str) and "\n" not in lines[1]
            bl = I.call(I.getattr(bare, "splitlines"), []) if isinstance(bare, SStr) else bare.splitlines()
            ok = ok and len(bl) == 1
            ctx.prove("molecule.Molecule.to_xyz_string/ensures/header", r.pc, z3.BoolVal(bool(ok)),
                      clause="line 1 is the atom count, line 2 a single comment line, then one line per atom; header=False emits the atom lines only",
                      replay=xyz_replay, fn=f_toxyz)
    ctx.attempt("molecule.Molecule.to_xyz_string/ensures/header", ob_xyz_header)

    # ---------------------------------------------------------------- SDF: atom line columns (writer against the standard, reader against the writer)
    pre_sdf = [z3.And(v > z(SDF_LO), v < z(SDF_HI)) for v in (x, y, zc)]
    H4 = Fraction(1, 2 * 10 ** 4)

    def sdf_replay(m):
        vals = [float(Fraction(m.get(f"x{i}", 0))) for i in range(3)]
        pos = [vals, [1.5, -2.25, 0.125]]
        ok, obs = native_roundtrip(["O", "H"], pos, "sdf")
        return {"native_inputs": {"symbols": ["O", "H"], "positions": pos}, "reproduced": not ok, "observed": obs}

    def ob_atom_line(sym):
        def thunk(I2, a, kw):
            return I2.call(I2.lookup_global(sdfmod, "to_atom_line"), [], {"x": x, "y": y, "z": zc, "symbol": sym})
        res = I.explore(thunk, pre=pre_sdf)
        for k, r in enumerate(res):
            line = r.value
            base = f"fmt.sdf.to_atom_line/ensures/columns/{sym}"
            I.pc = list(r.pc)
            total = line.length()
            goals = []
            for name, c0, c1 in V2000_ATOM[:5]:
                try:
                    seg = line.slice(I, slice(c0 - 1, c1))
                    if name in ("x", "y", "z"):
                        ok = isinstance(seg, SStr) and len(seg.segs) == 1 and isinstance(seg.segs[0], Fmt)
                        if ok:
                            want = {"x": x, "y": y, "z": zc}[name]
                            d = to_real(seg.segs[0].parsed_value()) - want
                            goal = z3.And(d <= z(H4), d >= -z(H4))
                        else:
                            goal = z3.BoolVal(False)
                    elif name == "space":
                        goal = z3.BoolVal(seg == " ")
                    else:
                        goal = z3.BoolVal(isinstance(seg, str) and seg.strip() == sym and len(seg) == 3)
                except MisalignedSlice as e:
                    goal = z3.BoolVal(False)
                goals.append((name, c0, c1, goal))
            hyps = list(I.pc)       # includes the definitions of the digit counts introduced while measuring the fields
            ctx.prove(base + "/length", hyps, total == 69, clause="an atom line is 69 characters", replay=sdf_replay, fn=f_atomline)
            for name, c0, c1, goal in goals:
                ctx.prove(f"{base}/{name}", hyps, goal, clause=f"columns {c0}-{c1} hold {name} (coordinates: the value rounded to 4 decimals)",
                          replay=sdf_replay, fn=f_atomline)
    for sym in ("H", "Cl"):
        ctx.attempt(f"fmt.sdf.to_atom_line/ensures/columns/{sym}", lambda sym=sym: ob_atom_line(sym))

    # counts line
    na, nb = z3.Int("natoms"), z3.Int("nbonds")
    pre_counts = [na >= 0, na <= 999, nb >= 0, nb <= 999]

    def counts_replay(m):
        n = int(m.get("natoms", 1)) or 1
        n = max(1, min(n, 999))
        rng = np.random.default_rng(3)
        pos = rng.uniform(-50, 50, (n, 3))
        ok, obs = native_roundtrip(["C"] * n, pos.tolist(), "sdf")
        return {"native_inputs": {"natoms": n}, "reproduced": not ok, "observed": {k: v for k, v in obs.items() if k != "positions"}}

    def ob_counts():
        def thunk(I2, a, kw):
            line = I2.call(I2.lookup_global(sdfmod, "to_counts_line"), [], {"atoms": na, "bonds": nb})
            back = I2.call(I2.lookup_global(sdfmod, "parse_counts_line"), [line])
            return line, back
        res = I.explore(thunk, pre=pre_counts)
        for k, r in enumerate(res):
            sfx = f"/path{k}" if len(res) > 1 else ""
            if r.kind != "return":
                ctx.prove("fmt.sdf.to_counts_line/ensures/columns" + sfx, r.pc, z3.BoolVal(False),
                          clause="counts line parses back for 0 <= atoms, bonds <= 999", replay=counts_replay, fn=f_counts)
                continue
            line, back = r.value
            I.pc = list(r.pc)
            ln = line.length()
            ctx.prove("fmt.sdf.to_counts_line/ensures/columns" + sfx, list(I.pc),
                      z3.And(ln == 39, z(back["atoms"]) == na, z(back["bonds"]) == nb, z3.BoolVal(back["version"] == "V2000")),
                      clause="for 0 <= atoms, bonds <= 999: 39 characters, atoms in columns 1-3, bonds in 4-6, version 'V2000' at 34-39, and the reader recovers them",
                      replay=counts_replay, fn=f_counts)
    ctx.attempt("fmt.sdf.to_counts_line/ensures/columns", ob_counts, replay=counts_replay, fn=f_counts)

    # bond line
    bl, br = z3.Int("bleft"), z3.Int("bright")

    def ob_bond():
        def thunk(I2, a, kw):
            line = I2.call(I2.lookup_global(sdfmod, "to_bond_line"), [], {"left": bl, "right": br, "type": 1})
            back = I2.call(I2.lookup_global(sdfmod, "parse_bond_lines"), [[line]])
            return line, back
        res = I.explore(thunk, pre=[bl >= 1, bl <= 999, br >= 1, br <= 999])
        for k, r in enumerate(res):
            sfx = f"/path{k}" if len(res) > 1 else ""
            if r.kind != "return":
                ctx.prove("fmt.sdf.to_bond_line/ensures/columns" + sfx, r.pc, z3.BoolVal(False), clause="bond line parses back for 1 <= atom indices <= 999", fn=f_bondline)
                continue
            line, back = r.value
            I.pc = list(r.pc)
            ln = line.length()
            ctx.prove("fmt.sdf.to_bond_line/ensures/columns" + sfx, list(I.pc),
                      z3.And(ln == 21, z(back["left"].flat()[0]) == bl, z(back["right"].flat()[0]) == br, z(back["type"].flat()[0]) == 1),
                      clause="for 1 <= left, right <= 999: 21 characters, 3 columns each, and the reader recovers them", fn=f_bondline)
    ctx.attempt("fmt.sdf.to_bond_line/ensures/columns", ob_bond, fn=f_bondline)

    # whole text: Molecule.to_sdf_string -> parse_sdf_contents -> Molecule.from_sdf_dict, 2 atoms, all coordinates symbolic
    def ob_sdf_text(title=None):
        P = [[x, y, zc], reals("p", 3)]
        pre = pre_sdf + [z3.And(v > z(SDF_LO), v < z(SDF_HI)) for v in P[1]]
        tsfx = "" if title is None else ("/title_empty" if title == "" else "/title_blank_padded")

        def thunk(I2, a, kw):
            m = mk_mol(I2, ["O", "Cl"], P)
            if title is not None:
                m.fields["properties"]["name"] = title
            text = I2.call(I2.getattr(m, "to_sdf_string"), [])
            recs = I2.call(I2.lookup_global(sdfmod, "parse_sdf_contents"), [text])
            if len(recs) != 1:
                raise PyRaise("AssertionError", f"{len(recs)} records")
            m2 = I2.call(I2.getattr(MOLcls, "from_sdf_dict"), [recs[0]])
            return text, m2
        res = I.explore(thunk, pre=pre)
        for k, r in enumerate(res):
            sfx = f"/path{k}" if len(res) > 1 else ""
            ident = "molecule.Molecule.from_sdf_dict/ensures/roundtrip_2atoms" + tsfx + sfx
            cl = ("forall coordinates fitting 10.4f: from_sdf_dict(parse_sdf_contents(to_sdf_string(m))[0]) has the same elements in order and every "
                  "coordinate k equal to coordinate k of the original within 0.5e-4")
            if r.kind != "return":
                ctx.prove(ident, r.pc, z3.BoolVal(False), clause=cl + f" (path raises {r.value.exc_type})", replay=sdf_replay, fn=f_fromsdf)
                continue
            text, m2 = r.value
            els, pos = m2.fields["elements"], m2.fields["positions"]
            ok_shape = isinstance(pos, NDArr) and pos.shape == (2, 3) and len(els) == 2
            goal = [z3.BoolVal(ok_shape)]
            if ok_shape:
                goal.append(z3.BoolVal(els[0].fields["atomic_number"] == 8 and els[1].fields["atomic_number"] == 17))
                for i in range(2):
                    for j in range(3):
                        d = to_real(pos.data[i, j]) - P[i][j]
                        goal.append(z3.And(d <= z(H4), d >= -z(H4)))
            ctx.prove(ident, r.pc, conj(goal), clause=cl, replay=sdf_replay if title is None else title_replay(title), fn=f_fromsdf)
            last = text.segs[-1] if isinstance(text, SStr) else Lit(text)
            ends = isinstance(last, Lit) and last.text.endswith("\nM  END\n$$$$\n")
            ctx.prove("fmt.sdf.to_sdf_string/ensures/record_terminated" + tsfx + sfx, r.pc, z3.BoolVal(bool(ends)),
                      clause="the record ends with the lines 'M  END' and '$$$$', each terminated by a newline (so written records can be concatenated into one file)",
                      replay=multi_replay, fn=f_sdfstr)

    def title_replay(title):
        def replay(m):
            from chmpy import Molecule, Element
            mol = Molecule([Element["O"], Element["Cl"]], np.array([[0.5, 1.5, -2.5], [1.0, 2.0, 3.0]]), name=title)
            try:
                from chmpy.fmt.sdf import parse_sdf_contents
                back = Molecule.from_sdf_dict(parse_sdf_contents(mol.to_sdf_string())[0])
                ok = [e.atomic_number for e in back.elements] == [8, 17] and np.allclose(back.positions, mol.positions, atol=1e-4)
                obs = {"elements": [str(e) for e in back.elements], "positions": np.asarray(back.positions).tolist()}
            except Exception as e:  # noqa
                ok, obs = False, {"exception": repr(e)[:200]}
            return {"native_inputs": {"title": title, "symbols": ["O", "Cl"]}, "reproduced": not ok, "observed": obs}
        return replay

    def multi_replay(m):
        from chmpy import Molecule, Element
        from chmpy.fmt.sdf import parse_sdf_contents
        mols = [Molecule([Element["O"], Element["H"]], np.array([[0.0, 0.0, 0.1 * k], [0.9, 0.0, 0.1 * k]])) for k in range(3)]
        text = "".join(mm.to_sdf_string() for mm in mols)
        try:
            n = len(parse_sdf_contents(text))
        except Exception as e:  # noqa
            n = repr(e)[:100]
        return {"native_inputs": "three written records concatenated", "reproduced": n != 3, "observed": {"records_read": n}}
    ctx.attempt("molecule.Molecule.from_sdf_dict/ensures/roundtrip_2atoms", ob_sdf_text, replay=sdf_replay, fn=f_fromsdf)
    ctx.attempt("molecule.Molecule.from_sdf_dict/ensures/roundtrip_2atoms/title_empty", lambda: ob_sdf_text(""), replay=title_replay(""), fn=f_fromsdf)
    ctx.attempt("molecule.Molecule.from_sdf_dict/ensures/roundtrip_2atoms/title_blank_padded", lambda: ob_sdf_text("  my mol "), replay=title_replay("  my mol "), fn=f_fromsdf)

    engine_guard(ctx, I, f_atomline, f_bondline, f_counts, f_pcounts, f_patoms, f_pbonds, f_pxyz)
    ground_and_bounded(ctx)


def engine_guard(ctx, I, f_atomline, f_bondline, f_counts, f_pcounts, f_patoms, f_pbonds, f_pxyz):
    """CPython cross-check of the symbolic executor on the line writers / readers (concrete arguments, one path, same value)."""
    from pyvc.crosscheck import crosscheck
    import chmpy.fmt.sdf as sdf
    import chmpy.fmt.xyz_file as xyz
    crosscheck(ctx, I, f_atomline, sdf.to_atom_line, [(1.5, -2.25, 0.125, None, "C"), (-1234.5678, 0.0, 99.9999, None, "Cl"), (0.00004, -0.00005, 2.0, None, "H"), (1e4, 1e-5, -9999.99995, None, "Xe")])
    crosscheck(ctx, I, f_bondline, sdf.to_bond_line, [(1, 2, 1), (12, 7, 2, 0), (999, 1, 3), (0, 0, 0)])
    crosscheck(ctx, I, f_counts, sdf.to_counts_line, [(3, 2), (0, 0), (999, 999), (12, 0, 1)])
    lines = [sdf.to_atom_line(1.5, -2.25, 0.125, None, "C"), sdf.to_atom_line(-1234.5678, 0.0, 99.9999, None, "Cl"), sdf.to_atom_line(0.0, 0.0, 0.0, None, "H")]
    crosscheck(ctx, I, f_patoms, lambda ls: dict(sdf.parse_atom_lines(ls)), [(lines,), (lines[:1],), ([],)])
    crosscheck(ctx, I, f_pbonds, lambda ls: dict(sdf.parse_bond_lines(ls)), [([sdf.to_bond_line(1, 2, 1), sdf.to_bond_line(12, 7, 2)],), ([],)])
    crosscheck(ctx, I, f_pcounts, sdf.parse_counts_line, [(sdf.to_counts_line(3, 2),), (sdf.to_counts_line(120, 238),), (sdf.to_counts_line(0, 0),)])
    crosscheck(ctx, I, f_pxyz, lambda t: xyz.parse_xyz_string(t), [("2\ncomment\nO 0.0 0.0 0.0\nH 0.96 0.0 -1.5\n",), ("1\n\nCl 1e-3 2.5 -3\n",)])


def ground_and_bounded(ctx):
    from chmpy import Molecule, Element
    from chmpy.core.element import _ELEMENT_DATA
    # G: dispatch by suffix (any case) and fmt= override — the finite set of (suffix spelling, fmt) combinations
    t0 = time.time()
    bad = []
    m = Molecule([Element["O"], Element["H"], Element["H"]], np.array([[0.0, 0.1, 0.2], [0.757, 0.586, 0.3], [-0.757, 0.586, -0.4]]))
    d = tempfile.mkdtemp(prefix="c16d_")
    for name, kw, fmt in (("a.xyz", {}, "xyz"), ("a.XYZ", {}, "xyz"), ("a.Xyz", {}, "xyz"), ("a.sdf", {}, "sdf"), ("a.SDF", {}, "sdf"),
                          ("a.dat", {"fmt": "xyz"}, "xyz"), ("a.dat", {"fmt": ".sdf"}, "sdf"), ("b.xyz", {"fmt": "sdf"}, "sdf")):
        p = os.path.join(d, name)
        try:
            m.save(p, **kw)
            txt = open(p).read()
            is_sdf = "V2000" in txt
            if is_sdf != (fmt == "sdf"):
                bad.append({"file": name, "kwargs": kw, "written_as": "sdf" if is_sdf else "xyz"})
            m2 = Molecule.load(p, **kw)
            m2 = m2[0] if isinstance(m2, list) else m2
            if [e.atomic_number for e in m2.elements] != [8, 1, 1] or not np.allclose(m2.positions, m.positions, atol=1e-4):
                bad.append({"file": name, "kwargs": kw, "loaded": np.asarray(m2.positions).tolist()})
        except Exception as e:  # noqa
            bad.append({"file": name, "kwargs": kw, "exception": repr(e)[:200]})
        finally:
            if os.path.exists(p):
                os.unlink(p)
    os.rmdir(d)
    ctx.ground("molecule.Molecule.save_load/dispatch", not bad, clause="save and load pick the same format for .xyz/.sdf in any letter case and for the fmt= override",
               detail=bad[:4], witness=bad[:2], seconds=time.time() - t0)
    # G: all 103 element symbols through both formats (finite), any case for the XYZ reader
    t0 = time.time()
    bad = []
    for Z, row in enumerate(_ELEMENT_DATA, start=1):
        for fmt in ("xyz", "sdf"):
            ok, obs = native_roundtrip([row[1], "H"], [[0.1 * Z, -1.0, 2.5], [1.0, 1.0, 1.0]], fmt)
            if not ok:
                bad.append({"Z": Z, "fmt": fmt, "observed": obs})
        for variant in {row[1].upper(), row[1].lower()}:
            try:
                m2 = Molecule.from_xyz_string(f"1\n\n{variant}    1.0\t2.0   3.0\n")
                if m2.elements[0].atomic_number != Z or not np.allclose(m2.positions, [[1, 2, 3]]):
                    bad.append({"Z": Z, "xyz_symbol": variant, "got": str(m2.elements[0])})
            except Exception as e:  # noqa
                bad.append({"Z": Z, "xyz_symbol": variant, "exception": repr(e)[:100]})
    ctx.ground("molecule.Molecule.save_load/all_elements", not bad, clause="every element Z=1..103 survives XYZ and SDF save/load; the XYZ reader accepts upper/lower-case symbols and runs of blanks/tabs",
               detail=bad[:4], witness=bad[:2], seconds=time.time() - t0)
    # B: seeded molecules
    rng = np.random.default_rng(ctx.seed + 16)
    n_mols = 40 if ctx.tier == "quick" else 600
    fails, ev, distinct = [], 0, set()
    syms_all = [r[1] for r in _ELEMENT_DATA]
    sizes = [1, 2, 3, 99, 100, 101, 200] + [int(v) for v in rng.integers(1, 201, size=n_mols)]
    for n in sizes:
        syms = [syms_all[int(k)] for k in rng.integers(0, 103, size=n)]
        scale = float(rng.choice([1.0, 30.0, 3000.0]))
        pos = rng.uniform(-scale, scale, (n, 3)) if n > 3 else rng.uniform(-3, 3, (n, 3))
        if n <= 60:
            # chain-like geometry with realistic spacing: keeps the number of perceived bond records within the 999 the V2000 counts line can hold
            pos = np.cumsum(rng.uniform(0.9, 1.6, (n, 3)) * rng.choice([-1, 1], (n, 3)), axis=0)
        for fmt in ("xyz", "sdf"):
            for bonds in (False, True):
                if bonds and n > 60:
                    continue
                if bonds:
                    mm = Molecule([Element[s_] for s_ in syms], np.array(pos, dtype=float))
                    mm.guess_bonds()
                    if len(mm.bonds.keys()) > 999:          # more bond records than the V2000 counts line can express: outside the format's range
                        continue
                ev += 1
                distinct.add((n, fmt, bonds, round(float(pos[0, 0]), 6)))
                ok, obs = native_roundtrip(syms, pos.tolist(), fmt, bonds=bonds)
                if not ok and len(fails) < 3:
                    fails.append({"input": {"natoms": n, "format": fmt, "bonds": bonds, "symbols": syms[:5], "positions": pos[:3].tolist()},
                                  "observed": {k: (v if k != "positions" else v[:3]) for k, v in obs.items()},
                                  "clause": "save then load gives the same elements in order and coordinates to the format's precision", "key": f"{fmt}-roundtrip"})
    ctx.add_bounded("molecule.Molecule.save_load/bounded/seeded_molecules", "atom counts 1,2,3,99,100,101,200 + seeded 1..200; random elements Z=1..103; coordinate scales 1,30,3000; with/without perceived bonds (bonded cases: chain-like geometries of <= 60 atoms, so that the bond block stays within the 999 records V2000 can count; the writer lists each bond in both directions)",
                    ev, len(distinct), fails, rule="distinct (natoms, format, bonds, first coordinate)")
    # B: multi-record SDF: one molecule per record, in order
    fails, ev = [], 0
    for nrec in (2, 3, 5):
        mols = []
        for k in range(nrec):
            n = int(rng.integers(1, 12))
            kw = {} if k % 3 else {"name": ["", " padded title ", "x"][int(rng.integers(0, 3))]}
            mols.append(Molecule([Element[syms_all[int(j)]] for j in rng.integers(0, 30, size=n)], rng.uniform(-9, 9, (n, 3)), **kw))
        try:
            text = "".join(mm.to_sdf_string() for mm in mols)
            d = tempfile.mkdtemp(prefix="c16m_")
            p = os.path.join(d, "multi.sdf")
            open(p, "w").write(text)
            back = Molecule.load(p)
            os.unlink(p)
            os.rmdir(d)
            back = back if isinstance(back, list) else [back]
            ok = len(back) == nrec and all([e.atomic_number for e in a.elements] == [e.atomic_number for e in b.elements] and
                                           np.allclose(a.positions, b.positions, atol=0.5001e-4) for a, b in zip(mols, back))
            obs = {"records_loaded": len(back)}
        except Exception as e:  # noqa
            ok, obs = False, {"exception": repr(e)[:200]}
        ev += 1
        if not ok and len(fails) < 2:
            fails.append({"input": {"records": nrec, "sizes": [len(mm) for mm in mols]}, "observed": obs,
                          "clause": "an SDF file holding several records yields one molecule per record, in order", "key": "multi-record"})
    ctx.add_bounded("molecule.Molecule.load/bounded/multi_record_sdf", "2, 3 and 5 concatenated records of 1..11 atoms", ev, ev, fails, rule="record counts")

    # a molecule that was itself loaded (with and without the retained record text), then modified, then saved: the file describes the CURRENT molecule
    fails, ev = [], 0
    for n in (1, 3, 7):
        for fmt in ("sdf", "xyz"):
            for keep in (False, True):
                try:
                    m0 = Molecule([Element[syms_all[int(j)]] for j in rng.integers(0, 30, size=n)], rng.uniform(-5, 5, (n, 3)))
                    d = tempfile.mkdtemp(prefix="c16r_")
                    p1, p2 = os.path.join(d, "a." + fmt), os.path.join(d, "b." + fmt)
                    m0.save(p1)
                    m1 = Molecule.load(p1, **({"keep_sdf_text": True} if (keep and fmt == "sdf") else {}))
                    shift = np.array([1.25, -2.5, 0.75])
                    m1.translate(shift)
                    m2 = m1.translated(shift)
                    m1.save(p1)
                    m2.save(p2)
                    b1, b2 = Molecule.load(p1), Molecule.load(p2)
                    for f_ in (p1, p2):
                        os.unlink(f_)
                    os.rmdir(d)
                    tol = 0.5001e-4 if fmt == "sdf" else 1e-9
                    ok = np.allclose(b1.positions, m0.positions + shift, atol=2 * tol) and np.allclose(b2.positions, m0.positions + 2 * shift, atol=2 * tol)
                    obs = {"max_error_after_modification": float(max(np.abs(b1.positions - m0.positions - shift).max(), np.abs(b2.positions - m0.positions - 2 * shift).max()))}
                except Exception as e:  # noqa
                    ok, obs = False, {"exception": repr(e)[:200]}
                ev += 1
                if not ok and len(fails) < 2:
                    fails.append({"input": {"atoms": n, "format": fmt, "loaded_with_keep_sdf_text": keep, "history": "save, load, translate / translated, save, load"}, "observed": obs,
                                  "clause": "saving a loaded-then-moved molecule writes its current coordinates", "key": "reloaded_modified"})
    # a record that carries data items after "M  END" (as database files do: > <GENERIC_NAME> ...): it loads, and the loaded molecule saves to a record that loads again
    for n in (1, 4):
        for items in ("> <GENERIC_NAME>\nethanol\n\n", "> <name>\nmy molecule\n\n> <MW>\n46.07\n\n", "> <MW>\n46.07\n\n> <NOTE>\nline one\nline two\n\n"):
            ev += 1
            try:
                m0 = Molecule([Element[syms_all[int(j)]] for j in rng.integers(0, 30, size=n)], rng.uniform(-5, 5, (n, 3)))
                d = tempfile.mkdtemp(prefix="c16i_")
                p1 = os.path.join(d, "a.sdf")
                open(p1, "w").write(m0.to_sdf_string().replace("$$$$", items + "$$$$"))
                m1 = Molecule.load(p1)
                m1 = m1[0] if isinstance(m1, list) else m1
                m1.save(p1)
                text = open(p1).read()
                b1 = Molecule.load(p1)
                b1 = b1[0] if isinstance(b1, list) else b1
                os.unlink(p1)
                os.rmdir(d)
                ok = ([e.atomic_number for e in b1.elements] == [e.atomic_number for e in m0.elements] and np.allclose(b1.positions, m0.positions, atol=1.0002e-4)
                      and text.splitlines()[3].rstrip().endswith("V2000") and "\n" not in str(m1.name))
                obs = {"fourth_line_of_the_saved_record": text.splitlines()[3][:60] if len(text.splitlines()) > 3 else None, "name_of_loaded_molecule": repr(m1.name)[:60]}
            except Exception as e:  # noqa
                ok, obs = False, {"exception": repr(e)[:200]}
            if not ok and len(fails) < 2:
                fails.append({"input": {"atoms": n, "data_items_after_M_END": items, "history": "write record with data items, load, save, load"}, "observed": obs,
                              "clause": "a molecule loaded from an SDF record with data items saves to a V2000 record (counts line on line 4) that loads back to the same molecule", "key": "sdf_data_items"})
    ctx.add_bounded("molecule.Molecule.save_load/bounded/loaded_then_modified", "1, 3, 7 atoms; sdf (with and without keep_sdf_text) and xyz; translate in place and translated copy before saving again; SDF records with data items (name tags, multi-line values) loaded and saved again",
                    ev, ev, fails, rule="(size, format, keep) combinations")
