"""Mechanical de-cythoniser for the two sampling kernels (DESIGN.md section 2.2).

A line/token rewriter: every `.pyx` line becomes exactly one Python line (line numbers are preserved), the C types are
kept in a type environment.  Anything that is not recognised aborts the extraction (ExtractionError -> the obligations that
need the function become *undecided*); nothing is guessed.

    ext = extract(path)          ext.text (Python source), ext.tree (ast), ext.functions[name] -> FnInfo(types, params, ...)

C types are normalised to: 'u32' (unsigned int), 'int', 'double', 'arr:<elem>:<ndim>' (ndarray / typed memoryview), 'obj'.
"""
import ast
import hashlib
import re


class ExtractionError(Exception):
    pass


SCALAR_TYPES = {"unsigned int": "u32", "unsigned": "u32", "int": "int", "double": "double", "float": "double",
                "Py_ssize_t": "int", "long": "int", "void": "void"}
ELEM_TYPES = {"np.uint32_t": "u32", "cnp.uint32_t": "u32", "np.float64_t": "double", "cnp.float64_t": "double",
              "np.int32_t": "int", "cnp.int32_t": "int"}
CONV = {"u32": "c_u32", "int": "c_int", "double": "c_double"}
LIBC_MATH = ("ceil", "log", "pow", "floor", "sqrt", "fabs")

_TYPE_RE = re.compile(
    r"^(?P<const>const\s+)?(?:(?P<nd>c?np\.ndarray)\[(?P<ndargs>[^\]]*)\]|(?P<scalar>unsigned\s+int|unsigned|int|double|float|long|Py_ssize_t|void)(?![\w]))"
    r"(?P<mv>\[[:,\s1]*\])?\s*")
_CAST_RE = re.compile(r"<\s*(unsigned\s+int|unsigned|double|float|int)\s*>\s*\(")
_ANY_CAST_RE = re.compile(r"<\s*[A-Za-z_][A-Za-z_0-9\s\*\.]*>\s*[\(A-Za-z_]")


def _norm_type(m):
    """regex match of _TYPE_RE -> normalised type string."""
    if m.group("nd"):
        args = [a.strip() for a in m.group("ndargs").split(",")]
        if args[0] not in ELEM_TYPES:
            raise ExtractionError(f"unknown ndarray element type {args[0]!r}")
        nd = 1
        for a in args[1:]:
            k, _, v = a.partition("=")
            if k.strip() == "ndim":
                nd = int(v)
            elif k.strip() not in ("mode",):
                raise ExtractionError(f"unknown ndarray option {a!r}")
        return f"arr:{ELEM_TYPES[args[0]]}:{nd}"
    sc = SCALAR_TYPES[re.sub(r"\s+", " ", m.group("scalar"))]
    if m.group("mv"):
        nd = m.group("mv").count(":") - m.group("mv").count("::")
        return f"arr:{sc}:{nd}"
    return sc


def _split_top(s, sep=","):
    out, depth, cur = [], 0, ""
    for ch in s:
        if ch in "([{":
            depth += 1
        elif ch in ")]}":
            depth -= 1
        if ch == sep and depth == 0:
            out.append(cur)
            cur = ""
        else:
            cur += ch
    if cur.strip():
        out.append(cur)
    return [x.strip() for x in out]


def _rewrite_expr(s):
    """casts, unsigned literal suffixes, trailing semicolons."""
    s = _CAST_RE.sub(lambda m: CONV[SCALAR_TYPES[re.sub(r"\s+", " ", m.group(1))]] + "(", s)
    if _ANY_CAST_RE.search(s):
        raise ExtractionError(f"unrecognised cast in {s.strip()!r}")
    s = re.sub(r"\b(\d+)[uU]\b", r"\1", s)
    return s


class FnInfo:
    def __init__(self, name, kind):
        self.name = name
        self.kind = kind            # cpdef | cdef | def
        self.params = []            # [(name, type)]
        self.types = {}             # local / parameter name -> normalised type
        self.ret = "obj"
        self.decorators = []
        self.lines = None           # (first, last) in the .pyx
        self.sha256 = None
        self.node = None


class Extraction:
    def __init__(self, path, modname):
        self.path = path
        self.modname = modname
        self.pyx_text = open(path).read()
        self.functions = {}
        self.dropped = []
        self.text = None
        self.tree = None

    def describe(self, name):
        f = self.functions[name]
        return {"qualname": f"{self.modname}.{name}", "file": self.path, "lines": list(f.lines), "sha256": f.sha256}


def extract(path, modname):
    ext = Extraction(path, modname)
    out = []
    cur = None                     # current FnInfo
    cur_indent = None
    pending_decorators = []
    in_doc = None
    src_lines = ext.pyx_text.splitlines()
    for ln, raw in enumerate(src_lines, start=1):
        line = raw.rstrip()
        stripped = line.strip()
        indent = line[: len(line) - len(line.lstrip())]
        # ---- docstrings pass through
        if in_doc:
            out.append(line)
            if in_doc in stripped:
                in_doc = None
            continue
        for q in ('"""', "'''"):
            if stripped.startswith(q):
                if stripped.count(q) == 1:
                    in_doc = q
                break
        if in_doc or stripped.startswith(('"""', "'''")):
            out.append(line)
            continue
        if not stripped or stripped.startswith("#"):
            out.append(line)
            continue
        code, hashpos = line, _comment_pos(line)
        comment = ""
        if hashpos is not None:
            code, comment = line[:hashpos].rstrip(), "  " + line[hashpos:]
        body = code.strip()
        if body.endswith(";"):
            body = body.rstrip(";").rstrip()
        # function ended?
        if cur is not None and len(indent) <= len(cur_indent) and body:
            cur = None
        # ---- imports
        m = re.match(r"^from\s+libc\.math\s+cimport\s+(.*)$", body)
        if m:
            names = [x.strip() for x in m.group(1).split(",")]
            for n in names:
                if n not in LIBC_MATH:
                    raise ExtractionError(f"line {ln}: libc.math function {n!r} has no model")
            out.append(f"{indent}from contracts.c20_rt import {', '.join(names)}{comment}")
            continue
        if re.match(r"^(cimport\s+\S+(\s+as\s+\S+)?|from\s+\S+\s+cimport\s+.*)$", body):
            ext.dropped.append((ln, body))
            out.append(f"{indent}pass  # [cython] {body}")
            continue
        if re.match(r"^c?np\.import_array\(\)$", body):
            ext.dropped.append((ln, body))
            out.append(f"{indent}pass  # [cython] {body}")
            continue
        if body.startswith("@cython."):
            pending_decorators.append(body)
            out.append(f"{indent}# [cython] {body}")
            continue
        # ---- function headers
        m = re.match(r"^(cpdef|cdef|def)\s+(.*?)\((.*)\)\s*((?:noexcept|nogil|\s)*):$", body)
        if m and (m.group(1) != "cdef" or re.match(r"^(inline\s+)?[\w\s]+\s+\w+$|^\w+$", m.group(2).strip())):
            kind, head, args, _tail = m.groups()
            head = re.sub(r"^inline\s+", "", head.strip())
            parts = head.rsplit(None, 1)
            name = parts[-1]
            fi = FnInfo(name, kind)
            if len(parts) == 2:
                tm = _TYPE_RE.match(parts[0] + " ")
                if not tm:
                    raise ExtractionError(f"line {ln}: return type {parts[0]!r}")
                fi.ret = _norm_type(tm)
            names = []
            for a in _split_top(args):
                if not a:
                    continue
                tm = _TYPE_RE.match(a)
                if tm and tm.end() < len(a):
                    t, nm = _norm_type(tm), a[tm.end():].strip()
                else:
                    t, nm = "obj", a
                if not re.match(r"^[A-Za-z_]\w*$", nm):
                    raise ExtractionError(f"line {ln}: parameter {a!r}")
                fi.params.append((nm, t))
                fi.types[nm] = t
                names.append(nm)
            fi.decorators = pending_decorators
            pending_decorators = []
            fi.first = ln - len(fi.decorators)
            ext.functions[name] = fi
            cur, cur_indent = fi, indent
            out.append(f"{indent}def {name}({', '.join(names)}):{comment}")
            continue
        if pending_decorators:
            raise ExtractionError(f"line {ln}: decorator not followed by a function")
        # ---- with nogil
        if re.match(r"^with\s+(nogil|gil)\s*:$", body):
            out.append(f"{indent}if True:  # [cython] {body}")
            continue
        # ---- cdef declarations
        if body.startswith("cdef "):
            if cur is None:
                raise ExtractionError(f"line {ln}: module-level cdef is not supported")
            decl = body[5:].strip()
            tm = _TYPE_RE.match(decl)
            if not tm:
                raise ExtractionError(f"line {ln}: unrecognised declaration {body!r}")
            t = _norm_type(tm)
            stmts = []
            for d in _split_top(decl[tm.end():]):
                nm, eq, init = d.partition("=")
                nm = nm.strip()
                arr = re.match(r"^([A-Za-z_]\w*)\[(\d+)\]$", nm)
                if arr and not eq:
                    cur.types[arr.group(1)] = f"arr:{t}:1"
                    stmts.append(f"{arr.group(1)} = c_local_array({arr.group(2)}, '{t}')")
                    continue
                if not re.match(r"^[A-Za-z_]\w*$", nm):
                    raise ExtractionError(f"line {ln}: declarator {d!r}")
                if nm in cur.types and cur.types[nm] != t:
                    raise ExtractionError(f"line {ln}: {nm} re-declared with another type")
                cur.types[nm] = t
                if eq:
                    e = _rewrite_expr(init.strip())
                    if t in CONV:
                        stmts.append(f"{nm} = {CONV[t]}({e})")
                    elif t.startswith("arr:") and tm.group("mv"):
                        stmts.append(f"{nm} = c_view({e}, '{t}')")
                    else:
                        stmts.append(f"{nm} = {e}")
            out.append(indent + ("; ".join(stmts) if stmts else "pass") + f"  # [cython] {body}" )
            continue
        # ---- ordinary statement
        new = _rewrite_expr(body)
        if re.search(r"\b(cdef|cpdef|cimport|nogil|prange|ctypedef|extern)\b", new):
            raise ExtractionError(f"line {ln}: unrecognised Cython construct {body!r}")
        out.append(indent + new + comment)
    text = "\n".join(out) + "\n"
    try:
        tree = ast.parse(text)
    except SyntaxError as e:
        raise ExtractionError(f"extracted text does not parse: {e}")
    ext.text, ext.tree = text, tree
    for node in tree.body:
        if isinstance(node, ast.FunctionDef) and node.name in ext.functions:
            fi = ext.functions[node.name]
            fi.node = node
            fi.lines = (fi.first, node.end_lineno)
            seg = "\n".join(src_lines[fi.first - 1: node.end_lineno])
            fi.sha256 = hashlib.sha256(seg.encode()).hexdigest()
    for name, fi in ext.functions.items():
        if fi.node is None:
            raise ExtractionError(f"function {name} lost during extraction")
    return ext


def _comment_pos(line):
    q = None
    for i, ch in enumerate(line):
        if q:
            if ch == q:
                q = None
        elif ch in "\"'":
            q = ch
        elif ch == "#":
            return i
    return None


# ------------------------------------------------------------------------------------------------------------------
# C-semantics pass for native execution of the extracted text: unsigned arithmetic wraps, shifts are checked, assignments
# to typed lvalues convert.  (The symbolic executor implements the same semantics on bit-vectors directly.)
# ------------------------------------------------------------------------------------------------------------------
class _CSem(ast.NodeTransformer):
    def __init__(self, fi, all_fns):
        self.fi = fi
        self.fns = all_fns

    def ctype(self, e):
        T = self.fi.types
        if isinstance(e, ast.Constant):
            if isinstance(e.value, bool):
                return "int"
            if isinstance(e.value, int):
                return "lit"
            if isinstance(e.value, float):
                return "double"
            return "obj"
        if isinstance(e, ast.Name):
            t = T.get(e.id, "obj")
            return t
        if isinstance(e, ast.Subscript):
            if isinstance(e.value, ast.Attribute) and e.value.attr == "shape":
                return "int"
            bt = self.ctype(e.value)
            if bt.startswith("arr:"):
                _, el, nd = bt.split(":")
                n_idx = len(e.slice.elts) if isinstance(e.slice, ast.Tuple) else 1
                if any(isinstance(x, ast.Slice) for x in (e.slice.elts if isinstance(e.slice, ast.Tuple) else [e.slice])):
                    return "obj"
                if n_idx == int(nd):
                    return el
                return f"arr:{el}:{int(nd) - n_idx}"
            return "obj"
        if isinstance(e, ast.Call) and isinstance(e.func, ast.Name):
            if e.func.id in ("c_u32", "c_shl", "c_shr"):
                return "u32"
            if e.func.id == "c_int":
                return "int"
            if e.func.id in ("c_double",) + LIBC_MATH:
                return "double"
            if e.func.id in self.fns:
                return self.fns[e.func.id].ret
            return "obj"
        if isinstance(e, ast.BinOp):
            a, b = self.ctype(e.left), self.ctype(e.right)
            if "obj" in (a, b) or a.startswith("arr") or b.startswith("arr"):
                return "obj"
            if "double" in (a, b):
                return "double"
            if "u32" in (a, b):
                return "u32"
            if a == b == "lit":
                return "lit"
            return "int"
        if isinstance(e, ast.UnaryOp):
            return self.ctype(e.operand)
        if isinstance(e, ast.Attribute):
            return "int" if e.attr == "shape" else "obj"
        return "obj"

    def visit_BinOp(self, node):
        self.generic_visit(node)
        t = self.ctype(node)
        if t == "u32":
            if isinstance(node.op, ast.LShift):
                return ast.copy_location(_call("c_shl", [node.left, node.right]), node)
            if isinstance(node.op, ast.RShift):
                return ast.copy_location(_call("c_shr", [node.left, node.right]), node)
            if isinstance(node.op, (ast.Add, ast.Sub, ast.Mult)):
                return ast.copy_location(_call("c_u32", [node]), node)
            if isinstance(node.op, (ast.Div, ast.FloorDiv)):
                return ast.copy_location(_call("c_udiv", [node.left, node.right]), node)
            if isinstance(node.op, ast.Mod):
                return ast.copy_location(_call("c_umod", [node.left, node.right]), node)
        if t == "int" and isinstance(node.op, (ast.Div, ast.FloorDiv)):
            return ast.copy_location(_call("c_idiv", [node.left, node.right]), node)
        if t == "double" and isinstance(node.op, ast.Mod):
            return ast.copy_location(_call("c_fmod", [node.left, node.right]), node)
        return node

    def _conv(self, target, value):
        tt = self.ctype(target)
        if tt in CONV:
            vt = self.ctype(value)
            if vt != tt or tt == "u32":
                return _call(CONV[tt], [value])
        return value

    def visit_Assign(self, node):
        self.generic_visit(node)
        if len(node.targets) == 1:
            node.value = self._conv(node.targets[0], node.value)
        return node

    def visit_AugAssign(self, node):
        load = _as_load(node.target)
        binop = ast.BinOp(left=load, op=node.op, right=node.value)
        ast.copy_location(binop, node)
        new = ast.Assign(targets=[node.target], value=binop)
        ast.copy_location(new, node)
        return self.visit_Assign(new)


def _call(name, args):
    return ast.Call(func=ast.Name(id=name, ctx=ast.Load()), args=args, keywords=[])


def _as_load(t):
    c = ast.parse(ast.unparse(t), mode="eval").body
    return c


def native_module(ext, np_shim=None):
    """Execute the extracted text under C semantics -> dict of callables (the extracted functions)."""
    import copy
    from contracts import c20_rt
    tree = copy.deepcopy(ext.tree)
    for node in tree.body:
        if isinstance(node, ast.FunctionDef) and node.name in ext.functions:
            _CSem(ext.functions[node.name], ext.functions).visit(node)
    ast.fix_missing_locations(tree)
    g = {"__name__": ext.modname + "<extracted>", "__file__": ext.path}
    for n in ("c_u32", "c_int", "c_double", "c_shl", "c_shr", "c_udiv", "c_umod", "c_idiv", "c_fmod", "c_view", "c_local_array"):
        g[n] = getattr(c20_rt, n)
    code = compile(tree, ext.path + "<extracted>", "exec")
    exec(code, g)
    if np_shim is not None:
        for k in ("np", "numpy"):
            if k in g:
                g[k] = np_shim
    return g
