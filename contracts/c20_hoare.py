"""Kernel VC generator: Hoare-style symbolic execution of the de-cythonised kernel text with *symbolic* loop bounds.

pyvc's executor keeps arrays as static-shape cell grids and therefore cannot run `for i in range(1, N)` over `np.empty(N)` for
a symbolic N.  The two sampling kernels need exactly that, so this module executes the extracted Python AST (c20_decython)
with C semantics on z3 terms:

  unsigned int  -> BitVec(32) (wrap-around is the bit-vector semantics)          double -> Real (floats as reals)
  ndarray / typed memoryview -> z3 Array (index BitVec(32); 2-D: BitVec(64) = Concat(row, col)), np.empty = unconstrained array
  for/while     -> classical rule: invariant on entry, havoc of the assigned variables, one arbitrary iteration, exit
  array access  -> `index < length` obligation (boundscheck=False makes a miss undefined behaviour)

Universally quantified facts (loop invariants over array prefixes) are kept as *schemas* and instantiated, when a VC is built,
at every index term that occurs in the VC (plus the skolem constants of a quantified goal); recursive spec functions are
unfolded at their ground applications (two rounds).  All VCs handed to the solvers are therefore quantifier-free
(QF_AUFBV + LRA), which is what makes the verdicts stable and gives counter-models for broken bodies.
"""
import ast
import itertools
from fractions import Fraction

import z3

from pyvc.values import Unsupported

BVS = z3.BitVecSort(32)


def bv(v):
    return z3.BitVecVal(int(v) & 0xFFFFFFFF, 32)


def is_bv(v):
    return isinstance(v, z3.BitVecRef)


def is_real(v):
    return isinstance(v, z3.ArithRef) and v.is_real()


def is_zint(v):
    return isinstance(v, z3.ArithRef) and v.is_int()


def concrete(v):
    """Python number for a literal / constant term, else None."""
    if isinstance(v, bool):
        return None
    if isinstance(v, (int, Fraction)):
        return v
    if isinstance(v, z3.ExprRef):
        s = z3.simplify(v)
        if z3.is_bv_value(s) or z3.is_int_value(s):
            return s.as_long()
        if z3.is_rational_value(s):
            return Fraction(s.numerator_as_long(), s.denominator_as_long())
    return None


class _PathEnd(Exception):
    pass


class _Break(Exception):
    pass


class _Return(Exception):
    def __init__(self, value):
        self.value = value


class Arr:
    """Mutable array object (aliases share it): .term is the current z3 array."""

    def __init__(self, name, term, elem, dims, zero_init=False):
        self.name, self.term, self.elem, self.dims = name, term, elem, list(dims)

    @property
    def ndim(self):
        return len(self.dims)


class RowView:
    def __init__(self, arr, row):
        self.arr, self.row = arr, row
        self.elem = arr.elem
        self.dims = arr.dims[1:]
        self.ndim = 1


class LamArr:
    """Immutable numpy value given by an element function (broadcasting expressions of the Korobov kernel)."""

    def __init__(self, dims, fn, elem="double"):
        self.dims, self.fn, self.elem = list(dims), fn, elem

    @property
    def ndim(self):
        return len(self.dims)


class Token:
    def __init__(self, name):
        self.name = name

    def __repr__(self):
        return f"<{self.name}>"


NEWAXIS = Token("newaxis")


class LogV:
    def __init__(self, arg):
        self.arg = arg


class Log2V:
    def __init__(self, arg):
        self.arg = arg


class CeilLog2:
    def __init__(self, arg):
        self.arg = arg


class Schema:
    """forall vars . fn(*vars)   (vars: BitVec(32) terms; kind 'idx' = one index, 'pair' = (row, col)).

    arr: the array term the fact is about -- the schema is instantiated only at indices at which that array (or an array
    connected to it by store / equality) is accessed in the VC; pick(row, col) -> index selects the quantified component
    when a one-variable fact talks about a 2-D array."""

    def __init__(self, label, kind, fn, arr=None, pick=None):
        self.label, self.kind, self.fn, self.arr, self.pick = label, kind, fn, arr, pick
        self.nvars = 1 if kind == "idx" else 2


class Axiom:
    """Defining axiom of an uninterpreted spec function, instantiated at its ground applications."""

    def __init__(self, decl, fn):
        self.decl, self.fn = decl, fn


class LoopSpec:
    """Invariant of one loop, supplied by the contract: facts(K, t, pre) -> list of (label, Bool | Schema)."""

    def __init__(self, role, facts):
        self.role, self.facts = role, facts


class Obligation:
    def __init__(self, label, kind, pc, schemas, goal, note=""):
        self.label, self.kind, self.pc, self.schemas, self.goal, self.note = label, kind, pc, schemas, goal, note


class Kernel:
    """Executes functions of one extracted module."""

    def __init__(self, ext, classify, axioms=(), u32="bv", globals_=None, max_paths=400):
        self.ext = ext
        self.classify = classify            # classify(K, fn_name, loop_node, enclosing) -> LoopSpec | None
        self.axioms = list(axioms)
        self.u32 = u32
        self.globals = globals_ or {}
        self.max_paths = max_paths
        self.obligs = []
        self._seen = set()
        self.uf = {}
        self.assumed_models = set()

    # ------------------------------------------------------------------ sorts / fresh
    def sort_of(self, ctype):
        if ctype == "u32":
            return BVS if self.u32 == "bv" else z3.IntSort()
        if ctype == "int":
            return z3.IntSort()
        if ctype == "double":
            return z3.RealSort()
        raise Unsupported(f"no sort for C type {ctype}")

    def idx_sort(self):
        return BVS if self.u32 == "bv" else z3.IntSort()

    def fresh(self, hint, sort):
        self.fresh_n += 1
        return z3.Const(f"{hint}!{self.fresh_n}", sort)

    def func(self, name, *sorts):
        if name not in self.uf:
            self.uf[name] = z3.Function(name, *sorts)
        return self.uf[name]

    # ------------------------------------------------------------------ path control (re-execution with a decision prefix)
    def explore(self, thunk):
        results = []
        stack = [[]]
        n = 0
        while stack:
            prefix = stack.pop()
            n += 1
            if n > self.max_paths:
                raise Unsupported(f"path cap {self.max_paths} exceeded")
            self.decisions, self.dpos, self.new_alts = list(prefix), 0, []
            self.pc, self.schemas, self.fresh_n, self.tags, self.loops = [], [], 0, [], []
            self.cur_fname = "?"
            self.occ = {}
            try:
                val = thunk(self)
                results.append((list(self.pc), list(self.schemas), val, list(self.tags)))
            except _PathEnd:
                pass
            stack.extend(self.new_alts)
        return results

    def choose(self, n, tag=None):
        if self.dpos < len(self.decisions):
            d = self.decisions[self.dpos]
        else:
            for k in range(1, n):
                self.new_alts.append(self.decisions[: self.dpos] + [k])
            self.decisions.append(0)
            d = 0
        self.dpos += 1
        return d

    def assume(self, c):
        if isinstance(c, Schema):
            self.schemas.append(c)
            return
        if isinstance(c, bool):
            if not c:
                raise _PathEnd()
            return
        c = z3.simplify(c)
        if z3.is_true(c):
            return
        if z3.is_false(c):
            raise _PathEnd()
        self.pc.append(c)

    def feasible(self, c):
        s = z3.Solver()
        s.set("timeout", 2000)
        s.add(*self.pc)
        s.add(c)
        return s.check() != z3.unsat

    def oblige(self, label, goal, kind="vc", note=""):
        if not isinstance(goal, Schema):
            if isinstance(goal, bool):
                goal = z3.BoolVal(goal)
            goal = z3.simplify(goal)
            if z3.is_true(goal):
                return
        full = "/".join([label] + ([",".join(self.tags)] if self.tags else []))
        key = (full, tuple(self.decisions[: self.dpos]))
        k = self.occ.get(full, 0) + 1
        self.occ[full] = k
        key = key + (k,)
        if key in self._seen:
            return
        self._seen.add(key)
        ident = full if k == 1 else f"{full}#{k}"
        self.obligs.append(Obligation(ident, kind, list(self.pc), list(self.schemas), goal, note))

    # ------------------------------------------------------------------ running a function
    def run(self, fname, args, pre=()):
        """All paths of extracted function `fname` on the given argument terms -> list of (pc, schemas, value, tags)."""
        def thunk(K):
            for p in pre:
                K.assume(p)
            return K.call_kernel(fname, list(args))
        return self.explore(thunk)

    def call_kernel(self, fname, args):
        fi = self.ext.functions[fname]
        if len(args) != len(fi.params):
            raise Unsupported(f"arity of {fname}")
        env = {}
        for (nm, t), a in zip(fi.params, args):
            env[nm] = a
        fr = Frame(fname, fi, env)
        try:
            self.block(fi.node.body, fr)
        except _Return as r:
            return r.value
        return None

    # ------------------------------------------------------------------ statements
    unroll_limit = 64  # loops with concrete bounds and no invariant are unrolled up to this many iterations
    after = None      # optional hook(K, fr, stmt, prev_stmt) -> [(label, fact)]: ghost cut (proved, then assumed) after a statement

    def block(self, stmts, fr):
        prev = None
        for s in stmts:
            m = getattr(self, "x_" + type(s).__name__, None)
            if m is None:
                raise Unsupported(f"statement {type(s).__name__} at {self.ext.path}:{s.lineno}")
            m(s, fr)
            if self.after is not None:
                for lab, fact in self.after(self, fr, s, prev) or []:
                    self.oblige(f"{fr.fname}/cut/{lab}", fact, kind="cut")
                    self.assume(fact)
            prev = s

    def x_Pass(self, s, fr):
        pass

    def x_Expr(self, s, fr):
        if isinstance(s.value, ast.Constant):
            return
        self.eval(s.value, fr)

    def x_Assert(self, s, fr):
        c = self.truth(self.eval(s.test, fr))
        # a failing assert raises AssertionError: outside the contract's precondition
        self.assume(c)

    def x_Return(self, s, fr):
        raise _Return(self.eval(s.value, fr) if s.value is not None else None)

    def x_Break(self, s, fr):
        raise _Break()

    def x_AugAssign(self, s, fr):
        cur = self.eval(_load(s.target), fr)
        v = self.eval(s.value, fr)
        self.assign(s.target, self.binop(OPS[type(s.op)], cur, v), fr)

    def assign(self, t, v, fr):
        if isinstance(t, ast.Name):
            ct = fr.fi.types.get(t.id)
            if ct in ("u32", "int", "double"):
                v = self.convert(v, ct)
            fr.env[t.id] = v
            return
        if isinstance(t, ast.Subscript):
            base = self.eval(t.value, fr)
            idx = self.eval_index(t.slice, fr)
            self.store(base, idx, v, fr, t)
            return
        raise Unsupported(f"assignment target {type(t).__name__}")

    def x_If(self, s, fr):
        c = self.truth(self.eval(s.test, fr))
        if isinstance(c, bool):
            return self.block(s.body if c else s.orelse, fr)
        c = z3.simplify(c)
        if z3.is_true(c):
            return self.block(s.body, fr)
        if z3.is_false(c):
            return self.block(s.orelse, fr)
        label = "if%d" % [n for n in ast.walk(fr.fi.node) if isinstance(n, ast.If)].index(s)
        d = self.choose(2)
        if d == 0:
            self.assume(c)
            self.tags.append(label + "=T")
            self.block(s.body, fr)
        else:
            self.assume(z3.Not(c))
            self.tags.append(label + "=F")
            self.block(s.orelse, fr)

    # ---- loops ---------------------------------------------------------------------------------------------------
    def modified(self, body, fr):
        names, arrays = [], []
        for st in body:
            for n in ast.walk(st):
                tg = []
                if isinstance(n, ast.Assign):
                    tg = n.targets
                elif isinstance(n, ast.AugAssign):
                    tg = [n.target]
                elif isinstance(n, ast.For):
                    tg = [n.target]
                for t in tg:
                    if isinstance(t, ast.Name):
                        if t.id not in names:
                            names.append(t.id)
                    elif isinstance(t, ast.Subscript):
                        b = t.value
                        while isinstance(b, ast.Subscript):
                            b = b.value
                        if isinstance(b, ast.Name) and b.id not in arrays:
                            arrays.append(b.id)
                    else:
                        raise Unsupported("assignment target in loop body")
                if isinstance(n, ast.Call) and isinstance(n.func, ast.Name) and n.func.id in self.ext.functions:
                    raise Unsupported("kernel call inside a symbolic loop")
        return names, arrays

    def havoc(self, names, arrays, fr):
        pre = {}
        done = set()
        for a in arrays:
            obj = fr.env.get(a)
            if isinstance(obj, RowView):
                raise Unsupported("store through a row view inside a loop")
            if not isinstance(obj, Arr):
                raise Unsupported(f"{a} is not an array at loop entry")
            if id(obj) in done:
                continue
            done.add(id(obj))
            pre[a] = obj.term
            obj.term = self.fresh(obj.name, obj.term.sort())
        for n in names:
            cur = fr.env.get(n)
            if isinstance(cur, (Arr, RowView)):
                # re-bound row alias (m = poly[j+1]): becomes unknown until re-assigned
                pre[n] = cur
                fr.env.pop(n)
                continue
            ct = fr.fi.types.get(n)
            if ct is None or ct.startswith("arr"):
                if cur is None:
                    continue
                raise Unsupported(f"cannot havoc untyped variable {n}")
            pre[n] = cur
            fr.env[n] = self.fresh(n, self.sort_of(ct))
        return pre

    def x_For(self, s, fr):
        if s.orelse:
            raise Unsupported("for/else")
        if not (isinstance(s.iter, ast.Call) and isinstance(s.iter.func, ast.Name) and s.iter.func.id == "range"
                and isinstance(s.target, ast.Name) and 1 <= len(s.iter.args) <= 2 and not s.iter.keywords):
            raise Unsupported("for loop that is not `for <name> in range(lo, hi)`")
        a = [self.eval(x, fr) for x in s.iter.args]
        tct = fr.fi.types.get(s.target.id, "u32")
        lo, hi = (0, a[0]) if len(a) == 1 else a
        lo, hi = self.convert(lo, tct), self.convert(hi, tct)
        spec = self.classify(self, fr, s, "for")
        clo, chi = concrete(lo), concrete(hi)
        if spec is None and clo is not None and chi is not None and chi - clo <= self.unroll_limit:
            for v in range(clo, chi):
                fr.env[s.target.id] = self.convert(v, tct)
                try:
                    self.block(s.body, fr)
                except _Break:
                    break
            return
        if spec is None:
            spec = self.auto_map(s, fr)
        if spec is None:
            raise Unsupported(f"loop at line {s.lineno} has no invariant (not classified, not a map loop)")
        self.invariant_for(s, fr, spec, lo, hi)

    def lt(self, a, b):
        return z3.ULT(a, b) if is_bv(a) else a < b

    def le(self, a, b):
        return z3.ULE(a, b) if is_bv(a) else a <= b

    def invariant_for(self, s, fr, spec, lo, hi):
        role = spec.role
        nonempty = self.lt(lo, hi)
        rec = {"role": role, "lo": lo, "hi": hi, "var": None, "node": s}
        names, arrays = self.modified(s.body, fr)
        if s.target.id not in names:
            names.append(s.target.id)
        snapshot = {k: (v.term if isinstance(v, Arr) else v) for k, v in fr.env.items()}
        # entry
        for lab, fact in spec.facts(self, fr, lo, snapshot):
            self.oblige(f"{fr.fname}/loop:{role}/inv-entry/{lab}", self.guard(nonempty, fact), kind="inv-entry")
        which = self.choose(2)
        pre = self.havoc(names, arrays, fr)
        t = self.fresh(s.target.id, lo.sort())
        if which == 1:
            # one arbitrary iteration
            self.assume(z3.And(self.le(lo, t), self.lt(t, hi)))
            fr.env[s.target.id] = t
            for lab, fact in spec.facts(self, fr, t, snapshot):
                self.assume(fact)
            rec["var"] = t
            self.loops.append(rec)
            try:
                self.block(s.body, fr)
            except _Break:
                self.loops.pop()
                self.tags.append(f"{role}:break")
                return
            self.loops.pop()
            nxt = t + 1
            fr.env[s.target.id] = nxt
            for lab, fact in spec.facts(self, fr, nxt, snapshot):
                self.oblige(f"{fr.fname}/loop:{role}/inv-preserved/{lab}", fact, kind="inv-preserved")
            raise _PathEnd()
        # exit (merged with the empty-range case)
        fr.env[s.target.id] = t
        self.assume(z3.Implies(nonempty, t == hi))
        for lab, fact in spec.facts(self, fr, t, snapshot):
            self.assume(self.guard(nonempty, fact))
        last = hi - 1
        unchanged = []
        for n, old in pre.items():
            cur = fr.env.get(n)
            if isinstance(old, (Arr, RowView)):
                continue
            if isinstance(cur, Arr):
                unchanged.append(cur.term == old)
            elif n == s.target.id:
                if old is not None:
                    unchanged.append(cur == old)
            elif old is not None and cur is not None:
                unchanged.append(cur == old)
        if unchanged:
            self.assume(z3.Implies(z3.Not(nonempty), z3.And(*unchanged)))
        # Python/Cython leave the loop variable at the last iterated value
        tv = self.fresh(s.target.id, lo.sort())
        self.assume(z3.Implies(nonempty, tv == last))
        if pre.get(s.target.id) is not None and not isinstance(pre.get(s.target.id), (Arr, RowView)):
            self.assume(z3.Implies(z3.Not(nonempty), tv == pre[s.target.id]))
        fr.env[s.target.id] = tv
        # re-bound aliases keep their pre-loop binding only if the loop did not run; otherwise they are unknown
        for n, old in pre.items():
            if isinstance(old, (Arr, RowView)) and n not in fr.env:
                fr.env[n] = _Unknown(n)

    def guard(self, g, fact):
        if isinstance(fact, Schema):
            return Schema(fact.label, fact.kind, lambda *a, f=fact.fn, g=g: z3.Implies(g, f(*a)), fact.arr, fact.pick)
        return z3.Implies(g, fact)

    def x_While(self, s, fr):
        if s.orelse:
            raise Unsupported("while/else")
        spec = self.classify(self, fr, s, "while")
        if spec is None:
            # concrete execution (encoding cross-check): the guard must evaluate to a constant every time
            for _ in range(self.unroll_limit + 1):
                c = self.truth(self.eval(s.test, fr))
                c = c if isinstance(c, bool) else z3.simplify(c)
                if c is True or (not isinstance(c, bool) and z3.is_true(c)):
                    self.block(s.body, fr)
                elif c is False or z3.is_false(c):
                    return
                else:
                    raise Unsupported(f"while loop at line {s.lineno} has no invariant")
            raise Unsupported(f"while loop at line {s.lineno}: unroll limit")
        role = spec.role
        names, arrays = self.modified(s.body, fr)
        snapshot = {k: (v.term if isinstance(v, Arr) else v) for k, v in fr.env.items()}
        for lab, fact in spec.facts(self, fr, None, snapshot):
            self.oblige(f"{fr.fname}/loop:{role}/inv-entry/{lab}", fact, kind="inv-entry")
        which = self.choose(2)
        self.havoc(names, arrays, fr)
        for lab, fact in spec.facts(self, fr, None, snapshot):
            self.assume(fact)
        c = self.truth(self.eval(s.test, fr))
        if which == 1:
            self.assume(c)
            try:
                self.block(s.body, fr)
            except _Break:
                raise Unsupported("break inside while")
            for lab, fact in spec.facts(self, fr, None, snapshot):
                self.oblige(f"{fr.fname}/loop:{role}/inv-preserved/{lab}", fact, kind="inv-preserved")
            raise _PathEnd()
        self.assume(z3.Not(c) if not isinstance(c, bool) else (not c))

    def auto_map(self, s, fr):
        """`for i in range(lo, hi): A[i] = e(i)` where e reads neither A nor anything the loop writes: the invariant
        `forall lo <= k < t: A[k] == e(k)` needs no annotation."""
        if len(s.body) != 1 or not isinstance(s.body[0], ast.Assign):
            return None
        st = s.body[0]
        tg = st.targets[0]
        if not (len(st.targets) == 1 and isinstance(tg, ast.Subscript) and isinstance(tg.value, ast.Name)
                and isinstance(tg.slice, ast.Name) and tg.slice.id == s.target.id):
            return None
        aname = tg.value.id
        for n in ast.walk(st.value):
            if isinstance(n, ast.Name) and n.id == aname:
                return None
        arr = fr.env.get(aname)
        if not isinstance(arr, Arr) or arr.ndim != 1:
            return None
        ivar = s.target.id
        ect = arr.elem

        def facts(K, fr2, t, snap, lo_node=s):
            lo = K.convert(K.eval(s.iter.args[0], fr2) if len(s.iter.args) == 2 else 0, fr2.fi.types.get(ivar, "u32"))
            aterm = fr2.env[aname].term
            kk = z3.Const("map_k", lo.sort())
            saved = fr2.env.get(ivar)
            fr2.env[ivar] = kk
            K.quiet += 1
            try:
                val = K.convert(K.eval(st.value, fr2), ect)
            finally:
                K.quiet -= 1
                if saved is None:
                    fr2.env.pop(ivar, None)
                else:
                    fr2.env[ivar] = saved

            def body(k):
                return z3.Implies(z3.And(K.le(lo, k), K.lt(k, t)), z3.Select(aterm, k) == z3.substitute(val, (kk, k)))
            return [("map", Schema(f"map:{aname}", "idx", body, aterm))]
        return LoopSpec(f"map@{self.loop_ordinal(fr, s)}", facts)

    def loop_ordinal(self, fr, node):
        k = 0
        for n in ast.walk(fr.fi.node):
            if isinstance(n, (ast.For, ast.While)):
                if n is node:
                    return k
                k += 1
        return -1

    # ------------------------------------------------------------------ expressions
    quiet = 0     # >0: evaluating a spec/invariant expression, emit no safety obligations
    cdiv = False  # inside a @cython.cdivision(True) function: % on doubles is C fmod

    def truth(self, v):
        if isinstance(v, bool):
            return v
        if isinstance(v, z3.BoolRef):
            return v
        if isinstance(v, int):
            return v != 0
        if is_bv(v) or is_zint(v):
            return v != 0
        raise Unsupported("truth value")

    def eval(self, e, fr):
        m = getattr(self, "e_" + type(e).__name__, None)
        if m is None:
            raise Unsupported(f"expression {type(e).__name__} at line {getattr(e, 'lineno', '?')}")
        return m(e, fr)

    def e_Constant(self, e, fr):
        v = e.value
        if isinstance(v, bool) or v is None:
            return v
        if isinstance(v, int):
            return v
        if isinstance(v, float):
            return Fraction(repr(v))
        if isinstance(v, str):
            return v
        raise Unsupported("constant")

    def e_Name(self, e, fr):
        if e.id in fr.env:
            v = fr.env[e.id]
            if isinstance(v, _Unknown):
                raise Unsupported(f"{e.id} is read after a loop that may have re-bound it")
            return v
        if e.id in fr.fi.types and fr.fi.types[e.id] in ("u32", "int", "double"):
            # read of an unassigned C local: indeterminate value
            v = self.fresh(e.id + "_uninit", self.sort_of(fr.fi.types[e.id]))
            fr.env[e.id] = v
            return v
        if e.id in self.globals:
            return self.globals[e.id]
        if e.id in ("np", "numpy"):
            return Token("np")
        raise Unsupported(f"unknown name {e.id}")

    def e_Attribute(self, e, fr):
        b = self.eval(e.value, fr)
        if isinstance(b, Token) and b.name == "np":
            if e.attr == "newaxis":
                return NEWAXIS
            return Token("np." + e.attr)
        if isinstance(b, (Arr, RowView, LamArr)) and e.attr == "shape":
            return tuple(b.dims)
        raise Unsupported(f"attribute {e.attr}")

    def e_Tuple(self, e, fr):
        return tuple(self.eval(x, fr) for x in e.elts)

    def e_UnaryOp(self, e, fr):
        v = self.eval(e.operand, fr)
        if isinstance(e.op, ast.USub):
            return self.binop("-", 0, v)
        if isinstance(e.op, ast.Not):
            t = self.truth(v)
            return (not t) if isinstance(t, bool) else z3.Not(t)
        raise Unsupported("unary operator")

    def e_BoolOp(self, e, fr):
        vs = [self.truth(self.eval(x, fr)) for x in e.values]
        vs = [z3.BoolVal(v) if isinstance(v, bool) else v for v in vs]
        return z3.And(*vs) if isinstance(e.op, ast.And) else z3.Or(*vs)

    def e_Compare(self, e, fr):
        if len(e.ops) != 1:
            raise Unsupported("chained comparison")
        a, b = self.eval(e.left, fr), self.eval(e.comparators[0], fr)
        a, b = self.unify(a, b)
        op = type(e.ops[0])
        if isinstance(a, (int, Fraction)) and isinstance(b, (int, Fraction)):
            return {ast.Eq: a == b, ast.NotEq: a != b, ast.Lt: a < b, ast.LtE: a <= b, ast.Gt: a > b, ast.GtE: a >= b}[op]
        if is_bv(a):
            return {ast.Eq: lambda: a == b, ast.NotEq: lambda: a != b, ast.Lt: lambda: z3.ULT(a, b), ast.LtE: lambda: z3.ULE(a, b),
                    ast.Gt: lambda: z3.UGT(a, b), ast.GtE: lambda: z3.UGE(a, b)}[op]()
        return {ast.Eq: lambda: a == b, ast.NotEq: lambda: a != b, ast.Lt: lambda: a < b, ast.LtE: lambda: a <= b,
                ast.Gt: lambda: a > b, ast.GtE: lambda: a >= b}[op]()

    def e_BinOp(self, e, fr):
        return self.binop(OPS[type(e.op)], self.eval(e.left, fr), self.eval(e.right, fr))

    def unify(self, a, b):
        """Usual arithmetic conversions between two scalar operands."""
        for x in (a, b):
            if not (isinstance(x, (int, Fraction)) and not isinstance(x, bool) or is_bv(x) or is_real(x) or is_zint(x)):
                raise Unsupported(f"operand {type(x).__name__}")
        if is_real(a) or is_real(b) or isinstance(a, Fraction) or isinstance(b, Fraction):
            if is_real(a) or is_real(b) or is_bv(a) or is_bv(b) or is_zint(a) or is_zint(b):
                return self.to_real(a), self.to_real(b)
            return Fraction(a), Fraction(b)
        if is_bv(a) or is_bv(b):
            return (a if is_bv(a) else self.to_bv(a)), (b if is_bv(b) else self.to_bv(b))
        if is_zint(a) or is_zint(b):
            return (a if is_zint(a) else z3.IntVal(a)), (b if is_zint(b) else z3.IntVal(b))
        return a, b

    def to_bv(self, v):
        if isinstance(v, int):
            return bv(v)
        raise Unsupported("conversion to unsigned int")

    def to_real(self, v):
        if is_real(v):
            return v
        if isinstance(v, (int, Fraction)):
            return z3.RealVal(str(Fraction(v)))
        if is_zint(v):
            return z3.ToReal(v)
        if is_bv(v):
            c = concrete(v)
            if c is not None:
                return z3.RealVal(c)
            return self.func("u2d", BVS, z3.RealSort())(v)
        raise Unsupported("conversion to double")

    def binop(self, op, a, b):
        if isinstance(a, (LamArr, Arr)) or isinstance(b, (LamArr, Arr)):
            return self.array_binop(op, a, b)
        if isinstance(a, LogV) and isinstance(b, LogV) and op == "/":
            if concrete(b.arg) == 2:
                return Log2V(a.arg)
            raise Unsupported("ratio of logarithms with a base other than 2")
        if isinstance(a, (LogV, Log2V, CeilLog2)) or isinstance(b, (LogV, Log2V, CeilLog2)):
            raise Unsupported("arithmetic on a logarithm")
        a, b = self.unify(a, b)
        if isinstance(a, (int, Fraction)):
            if op in ("<<", ">>", "&", "|", "^"):
                return {"<<": a << b, ">>": a >> b, "&": a & b, "|": a | b, "^": a ^ b}[op]
            if op == "/":
                return Fraction(a) / Fraction(b)
            return {"+": a + b, "-": a - b, "*": a * b, "//": a // b if b else None, "%": a % b if b else None}[op]
        if is_bv(a):
            if op in ("<<", ">>") and not self.quiet:
                self.oblige(f"{self.cur_fname}/safe/shift", z3.ULT(b, bv(32)), kind="safety", note="shift count below the width (else undefined in C)")
            if op in ("/", "//", "%") and not self.quiet:
                self.oblige(f"{self.cur_fname}/safe/div", b != 0, kind="safety")
            return {"+": lambda: a + b, "-": lambda: a - b, "*": lambda: a * b, "<<": lambda: a << b, ">>": lambda: z3.LShR(a, b),
                    "&": lambda: a & b, "|": lambda: a | b, "^": lambda: a ^ b, "/": lambda: z3.UDiv(a, b), "//": lambda: z3.UDiv(a, b),
                    "%": lambda: z3.URem(a, b)}[op]()
        if is_real(a):
            if op == "%":
                cb = concrete(b)
                if cb != 1:
                    raise Unsupported("float modulo other than 1")
                if self.cdiv:   # C fmod(a, 1): a - trunc(a)
                    return z3.If(a >= 0, a - z3.ToReal(z3.ToInt(a)), a + z3.ToReal(z3.ToInt(-a)))
                return a - z3.ToReal(z3.ToInt(a))
            if op == "/":
                return a / b
            if op in ("+", "-", "*"):
                return {"+": a + b, "-": a - b, "*": a * b}[op]
            raise Unsupported(f"operator {op} on doubles")
        if is_zint(a):
            if op in ("+", "-", "*"):
                return {"+": a + b, "-": a - b, "*": a * b}[op]
            if op == "/":
                return z3.ToReal(a) / z3.ToReal(b)
            raise Unsupported(f"operator {op} on ints")
        raise Unsupported(f"operator {op}")

    # ---- numpy-level values (Korobov kernel) --------------------------------------------------------------------------
    def as_lam(self, v):
        if isinstance(v, LamArr):
            return v
        if isinstance(v, Arr):
            term = v.term
            if v.ndim != 1:
                raise Unsupported("2-D array in a numpy expression")
            conv = self.to_real if v.elem == "double" else (lambda x: x)
            return LamArr(v.dims, lambda i, term=term: z3.Select(term, i), v.elem)
        return LamArr([], lambda: v, "scalar")

    def array_binop(self, op, a, b):
        A, B = self.as_lam(a), self.as_lam(b)
        nd = max(A.ndim, B.ndim)

        def padded(X):
            return [1] * (nd - X.ndim) + list(X.dims)
        da, db = padded(A), padded(B)
        dims = []
        for x, y in zip(da, db):
            cx, cy = concrete(x), concrete(y)
            if cx == 1:
                dims.append(y)
            elif cy == 1:
                dims.append(x)
            else:
                if not (z3.is_expr(x) and z3.is_expr(y) and z3.eq(z3.simplify(x), z3.simplify(y))) and cx != cy:
                    self.oblige(f"{self.cur_fname}/safe/broadcast", x == y, kind="safety", note="operand shapes broadcast")
                dims.append(x)

        def pick(X, dX, idx):
            sub = idx[nd - X.ndim:]
            dd = dX[nd - X.ndim:]
            use = [(0 if concrete(d) == 1 else i) for i, d in zip(sub, dd)]
            use = [self.convert(u, "u32") if isinstance(u, int) else u for u in use]
            return X.fn(*use)

        cd = self.cdiv

        def fn(*idx):
            self.quiet += 1
            saved, self.cdiv = self.cdiv, cd
            try:
                return self.binop(op, pick(A, da, idx), pick(B, db, idx))
            finally:
                self.quiet -= 1
                self.cdiv = saved
        return LamArr(dims, fn, "double")

    def eval_index(self, node, fr):
        if isinstance(node, ast.Tuple):
            return tuple(self.eval_index(x, fr) for x in node.elts)
        if isinstance(node, ast.Slice):
            if node.lower is None and node.upper is None and node.step is None:
                return slice(None)
            raise Unsupported("partial slice")
        return self.eval(node, fr)

    def e_Subscript(self, e, fr):
        base = self.eval(e.value, fr)
        idx = self.eval_index(e.slice, fr)
        if isinstance(base, tuple):
            c = concrete(idx) if not isinstance(idx, int) else idx
            if c is None:
                raise Unsupported("symbolic index into shape")
            return base[c]
        return self.select(base, idx, fr, e)

    def in_bounds(self, i, n):
        i2, n2 = self.unify(i, n)
        if is_bv(i2):
            return z3.ULT(i2, n2)
        return z3.And(i2 >= 0, i2 < n2) if not isinstance(i2, int) else (0 <= i2 < n2)

    def _ix(self, i):
        return self.convert(i, "u32") if not (is_bv(i) or is_zint(i)) else i

    def select(self, base, idx, fr, node=None):
        if isinstance(base, (Arr, LamArr)) and isinstance(idx, tuple) and any(x is NEWAXIS or isinstance(x, slice) for x in idx):
            L = self.as_lam(base)
            dims, mapping, pos = [], [], 0
            for x in idx:
                if x is NEWAXIS:
                    dims.append(1)
                    mapping.append(None)
                elif isinstance(x, slice):
                    dims.append(L.dims[pos])
                    mapping.append(pos)
                    pos += 1
                else:
                    raise Unsupported("mixed integer/slice indexing")
            if pos != L.ndim:
                raise Unsupported("partial indexing")
            return LamArr(dims, lambda *ii, L=L, mapping=mapping: L.fn(*[ii[k] for k, mp in enumerate(mapping) if mp is not None]), L.elem)
        if isinstance(base, RowView):
            return self.select(base.arr, (base.row, idx), fr, node)
        if isinstance(base, Arr):
            name = base.name
            if base.ndim == 1:
                if isinstance(idx, tuple):
                    raise Unsupported("too many indices")
                i = self._ix(idx)
                if not self.quiet:
                    self.oblige(f"{self.cur_fname}/safe/index/{name}", self.in_bounds(i, base.dims[0]), kind="safety",
                                note=f"read {name}[..] inside the allocation")
                return z3.Select(base.term, i)
            if base.ndim == 2:
                if not isinstance(idx, tuple):
                    r = self._ix(idx)
                    if not self.quiet:
                        self.oblige(f"{self.cur_fname}/safe/index/{name}", self.in_bounds(r, base.dims[0]), kind="safety",
                                    note=f"row of {name} inside the allocation")
                    return RowView(base, r)
                r, c = self._ix(idx[0]), self._ix(idx[1])
                if not self.quiet:
                    self.oblige(f"{self.cur_fname}/safe/index/{name}", z3.And(self.in_bounds(r, base.dims[0]), self.in_bounds(c, base.dims[1])),
                                kind="safety", note=f"read {name}[.., ..] inside the allocation")
                return z3.Select(base.term, z3.Concat(r, c))
        raise Unsupported(f"subscript of {type(base).__name__}")

    def store(self, base, idx, v, fr, node=None):
        if isinstance(base, RowView):
            raise Unsupported("store through a row view")
        if not isinstance(base, Arr):
            raise Unsupported(f"subscript store on {type(base).__name__}")
        v = self.convert(v, base.elem)
        name = base.name
        if base.ndim == 1:
            i = self._ix(idx)
            self.oblige(f"{self.cur_fname}/safe/index/{name}", self.in_bounds(i, base.dims[0]), kind="safety", note=f"write {name}[..] inside the allocation")
            base.term = z3.Store(base.term, i, v)
        else:
            if not isinstance(idx, tuple) or len(idx) != 2:
                raise Unsupported("row store")
            r, c = self._ix(idx[0]), self._ix(idx[1])
            self.oblige(f"{self.cur_fname}/safe/index/{name}", z3.And(self.in_bounds(r, base.dims[0]), self.in_bounds(c, base.dims[1])),
                        kind="safety", note=f"write {name}[.., ..] inside the allocation")
            base.term = z3.Store(base.term, z3.Concat(r, c), v)

    def convert(self, v, ct):
        """C conversion of a value to the type ct."""
        if ct == "u32":
            if self.u32 == "int":
                if isinstance(v, int):
                    return z3.IntVal(v)
                if is_zint(v):
                    return v
                raise Unsupported("conversion to unsigned int (integer model)")
            if is_bv(v):
                return v
            if isinstance(v, int):
                return bv(v)
            if isinstance(v, (CeilLog2, Log2V)):
                return self.log2_model(v)
            raise Unsupported(f"conversion of {type(v).__name__} to unsigned int")
        if ct == "int":
            if isinstance(v, int):
                return z3.IntVal(v)
            if is_zint(v):
                return v
            raise Unsupported("conversion to int")
        if ct == "double":
            if isinstance(v, (LogV, Log2V, CeilLog2)):
                return v
            return self.to_real(v)
        return v

    def log2_model(self, v):
        """<unsigned>(ceil(log(<double>n)/log(2.0))): library model (assumed; see the libm ground check)."""
        n = v.arg
        cn = concrete(n)
        if cn is not None and cn == int(cn) and cn >= 1:
            return bv((int(cn) - 1).bit_length() if isinstance(v, CeilLog2) else int(cn).bit_length() - 1)
        if not (z3.is_app(n) and n.decl().name() == "u2d"):
            raise Unsupported("logarithm of something that is not an unsigned int")
        n = n.arg(0)
        L = self.fresh("L", BVS)
        one = bv(1)
        if isinstance(v, CeilLog2):
            self.assumed_models.add("libm: ceil(log(n)/log(2.0)) >= log2(n) and <= 32 for 1 <= n < 2^32")
            self.assume(z3.Implies(n != 0, z3.And(z3.ULE(L, bv(32)), z3.Or(L == 32, z3.ULE(n, one << L)))))
        else:
            self.assumed_models.add("libm: trunc(log(n)/log(2.0)) = floor(log2 n)")
            self.assume(z3.Implies(n != 0, z3.And(z3.ULT(L, bv(32)), z3.ULE(one << L, n), z3.Or(L == 31, z3.ULT(n, one << (L + 1))))))
        return L

    def e_Call(self, e, fr):
        if not isinstance(e.func, (ast.Name, ast.Attribute)):
            raise Unsupported("call")
        args = [self.eval(a, fr) for a in e.args]
        kw = {k.arg: self.eval(k.value, fr) for k in e.keywords}
        if isinstance(e.func, ast.Name):
            f = e.func.id
            if f in self.ext.functions:
                saved = self.cur_fname
                try:
                    return self.call_kernel_inline(f, args)
                finally:
                    self.cur_fname = saved
            if f in ("c_u32", "c_int", "c_double"):
                return self.convert(args[0], {"c_u32": "u32", "c_int": "int", "c_double": "double"}[f])
            if f == "c_view":
                if not isinstance(args[0], Arr):
                    raise Unsupported("memoryview of a non-array")
                _, el, nd = args[1].split(":")
                if args[0].elem != el or args[0].ndim != int(nd):
                    raise Unsupported("memoryview type mismatch")
                return args[0]
            if f == "log":
                return LogV(args[0])
            if f == "ceil":
                if isinstance(args[0], Log2V):
                    return CeilLog2(args[0].arg)
                raise Unsupported("ceil of a general double")
            if f == "pow":
                a, b = args
                ca, cb = concrete(a), concrete(b)
                if ca is not None and cb is not None and isinstance(cb, int) and 0 <= cb <= 64:
                    return z3.RealVal(str(Fraction(ca) ** cb))
                return self.func("pow", z3.RealSort(), z3.RealSort(), z3.RealSort())(self.to_real(a), self.to_real(b))
            raise Unsupported(f"call of {f}")
        target = self.eval(e.func, fr)
        if isinstance(target, Token):
            return self.np_call(target.name, args, kw, fr)
        raise Unsupported("call")

    def call_kernel_inline(self, fname, args):
        fi = self.ext.functions[fname]
        env = {}
        for (nm, t), a in zip(fi.params, args):
            if t in ("u32", "int", "double"):
                a = self.convert(a, t)
            env[nm] = a
        fr = Frame(fname, fi, env)
        self.cur_fname = fname
        saved_cdiv = self.cdiv
        self.cdiv = any("cdivision(True)" in d for d in fi.decorators)
        try:
            self.block(fi.node.body, fr)
        except _Return as r:
            v = r.value
            if fi.ret in ("u32", "int", "double"):
                v = self.convert(v, fi.ret)
            return v
        finally:
            self.cdiv = saved_cdiv
        return None

    def call_kernel(self, fname, args):
        self.cur_fname = fname
        return self.call_kernel_inline(fname, args)

    def np_call(self, name, args, kw, fr):
        dt = kw.get("dtype")
        elem = {"np.uint32": "u32", "np.float64": "double", "np.int32": "int"}.get(getattr(dt, "name", None))
        if name in ("np.empty", "np.zeros"):
            if elem is None:
                raise Unsupported("allocation without a known dtype")
            shape = args[0] if isinstance(args[0], tuple) else (args[0],)
            dims = [self._ix(d) for d in shape]
            es = self.sort_of(elem)
            isort = self.idx_sort() if len(dims) == 1 else z3.BitVecSort(64)
            if len(dims) == 2 and self.u32 != "bv":
                # 2-D allocation in the integer model: only its shape can be used
                return Arr(self._aname(fr), None, elem, dims)
            self.alloc_n = getattr(self, "alloc_n", 0)
            nm = self._aname(fr)
            if name == "np.zeros":
                zero = bv(0) if es == BVS else (z3.RealVal(0) if es == z3.RealSort() else z3.IntVal(0))
                term = z3.K(isort, zero)
            else:
                term = self.fresh(nm + "_uninit", z3.ArraySort(isort, es))
            return Arr(nm, term, elem, dims)
        if name == "np.arange":
            lo, hi = (0, args[0]) if len(args) == 1 else args[:2]
            lo, hi = self._ix(lo), self._ix(hi)
            return LamArr([hi - lo], lambda i, lo=lo: lo + i, "int")
        raise Unsupported(f"numpy function {name}")

    def _aname(self, fr):
        return getattr(fr, "assign_hint", None) or "arr"

    def x_Assign(self, s, fr):   # noqa: F811  (allocation names follow the assigned variable)
        if len(s.targets) != 1:
            raise Unsupported("chained assignment")
        fr.assign_hint = s.targets[0].id if isinstance(s.targets[0], ast.Name) else None
        try:
            v = self.eval(s.value, fr)
        finally:
            fr.assign_hint = None
        self.assign(s.targets[0], v, fr)


class _Unknown:
    def __init__(self, name):
        self.name = name


class Frame:
    def __init__(self, fname, fi, env):
        self.fname, self.fi, self.env = fname, fi, env
        self.if_labels = {}
        self.assign_hint = None


def _load(t):
    return ast.parse(ast.unparse(t), mode="eval").body


OPS = {ast.Add: "+", ast.Sub: "-", ast.Mult: "*", ast.Div: "/", ast.FloorDiv: "//", ast.Mod: "%", ast.LShift: "<<", ast.RShift: ">>",
       ast.BitAnd: "&", ast.BitOr: "|", ast.BitXor: "^"}


# ---------------------------------------------------------------------------------------------------------------------
# VC construction: schema instantiation at the index terms of the VC, axiom unfolding at ground applications
# ---------------------------------------------------------------------------------------------------------------------
def _walk(terms):
    seen = {}
    stack = list(terms)
    while stack:
        t = stack.pop()
        i = t.get_id()
        if i in seen:
            continue
        seen[i] = t
        if z3.is_app(t):
            stack.extend(t.children())
    return seen.values()


class _UF:
    def __init__(self):
        self.p = {}

    def find(self, x):
        self.p.setdefault(x, x)
        while self.p[x] != x:
            self.p[x] = self.p[self.p[x]]
            x = self.p[x]
        return x

    def union(self, a, b):
        self.p[self.find(a)] = self.find(b)


def access_map(forms):
    """array classes (connected by store / equality / ite) -> index terms at which a member is read or written."""
    uf = _UF()
    acc = []
    for t in _walk(forms):
        if not z3.is_app(t):
            continue
        k = t.decl().kind()
        if k == z3.Z3_OP_STORE:
            uf.union(t.get_id(), t.arg(0).get_id())
            acc.append((t.arg(0).get_id(), t.arg(1)))
        elif k == z3.Z3_OP_SELECT:
            acc.append((t.arg(0).get_id(), t.arg(1)))
        elif k == z3.Z3_OP_EQ and z3.is_array(t.arg(0)):
            uf.union(t.arg(0).get_id(), t.arg(1).get_id())
        elif k == z3.Z3_OP_ITE and z3.is_array(t):
            uf.union(t.get_id(), t.arg(1).get_id())
            uf.union(t.get_id(), t.arg(2).get_id())
    out = {}
    for a, i in acc:
        out.setdefault(uf.find(a), {})[i.get_id()] = i
    return uf, out


def _cands(sc, uf, amap, sk):
    if sc.arr is None:
        pool = {}
        for d in amap.values():
            pool.update(d)
        terms = list(pool.values())
    else:
        terms = list(amap.get(uf.find(sc.arr.get_id()), {}).values())
    out = []
    for i in terms:
        is_pair = z3.is_bv(i) and i.size() == 64
        if is_pair:
            if not (z3.is_app(i) and i.decl().kind() == z3.Z3_OP_CONCAT and i.num_args() == 2):
                continue
            r, c = i.arg(0), i.arg(1)
            if sc.kind == "pair":
                out.append((r, c))
            elif sc.pick is not None:
                out.append((sc.pick(r, c),))
        elif sc.kind == "idx" and sc.pick is None:
            out.append((i,))
    if sk and len(sk) == sc.nvars:
        out.append(tuple(sk))
    return out


def build_vc(K, ob, extra_idx={}, rounds=3):
    """-> (hyps, goal): quantifier-free."""
    hyps = list(ob.pc)
    goal = ob.goal
    sk = []
    isort = K.idx_sort()
    if isinstance(goal, Schema):
        sk = [z3.Const(f"sk{n}!", isort) for n in range(goal.nvars)]
        goal_t = goal.fn(*sk)
    else:
        goal_t = goal
    insts = []
    done = set()
    forms = hyps + [goal_t]
    names = {a.decl.name(): a for a in K.axioms}
    for _ in range(rounds):
        uf, amap = access_map(forms)
        new = []
        for sc in ob.schemas:
            cands = _cands(sc, uf, amap, sk)
            if sc.kind == "idx" and sc.label in extra_idx:
                cands = cands + [(e,) for e in extra_idx[sc.label]]
            for c in cands:
                key = (id(sc),) + tuple(x.get_id() for x in c)
                if key in done:
                    continue
                done.add(key)
                K.quiet += 1
                try:
                    f = sc.fn(*c)
                finally:
                    K.quiet -= 1
                f = z3.simplify(f)
                if not z3.is_true(f):
                    new.append(f)
        # axioms of spec functions at their ground applications
        apps = {}
        for t in _walk(forms + new):
            if z3.is_app(t) and t.num_args() > 0 and t.decl().kind() == z3.Z3_OP_UNINTERPRETED and t.decl().name() in names:
                apps[t.get_id()] = t
        for t in apps.values():
            key = ("ax", t.get_id())
            if key in done:
                continue
            done.add(key)
            f = z3.simplify(names[t.decl().name()].fn(*t.children()))
            if not z3.is_true(f):
                new.append(f)
        if not new:
            break
        insts.extend(new)
        forms = forms + new
    return hyps + insts, goal_t


def has_real(t):
    for x in _walk([t]):
        if z3.is_real(x) or (z3.is_array(x) and x.sort().range() == z3.RealSort()):
            return True
    return False


def slim(hyps, goal):
    """Drop hypotheses about doubles when the goal is pure bit-vector/array (weakening the hypotheses is sound); such VCs can
    go to z3's QF_AUFBV tactic."""
    if has_real(goal):
        return hyps, False
    return [h for h in hyps if not has_real(h)], True
