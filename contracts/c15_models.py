"""C15 helpers: library models for the regular expressions of fmt/cif.py on structured strings, a few CPython models
(float of integer text, float.is_integer, hasattr, itertools.groupby) and the interpreter subclass that adds the str/dict
operations the stock engine lacks for lines that start with a rendered number or with symbolic text.

Everything here models a DEPENDENCY (CPython `re`, `float`, `hasattr`, `itertools.groupby`, `str.strip`, dict lookup), never
chmpy code.  Each regex rule is keyed on the exact pattern text found in the real source: an edited pattern has no rule
(-> the obligation is undecided and the run-time stand-ins decide).  The rules are cross-checked against the real `re`
module on an exhaustive small-alphabet corpus (obligation C15/models/regex_rules_conform).

Atoms of an abstract string
  ("c", ch)            one concrete character
  ("num", Fmt, pad)    a rendered number: [blank padding] [-] digits [. digits]; pad in {"yes","no","maybe","stripped"}
  ("w", Sym, role)     symbolic text of the class WORD (role "first": one ASCII letter; "mid": any number of WORD characters;
                        "last": one WORD character).  WORD characters: printable ASCII 33..126 without ' " ; _
"""
import re as _re
from fractions import Fraction

import z3

from pyvc.strings import SStr, Lit, Fmt, Sym, I_valid, STR_METHODS
from pyvc.symex import Interp, ModelFn, BoundModel, FuncVal
from pyvc.values import PyRaise, Unsupported, is_sym, num_cmp, to_real, z
from pyvc.libmodels import MatchVal, _as_rx, MODELS

NUM_PAT = r"([-+]?(\d+([.,]\d*)?|[.,]\d+)([eE][-+]?\d+)?)(\(\d+\))?"
VAL_PAT = r"""('.*?'|".*?"|;.*?;|\S+)"""
QUOTE_PATS = {q + r"\s*([^" + q + r"]*)\s*" + q: (q, True) for q in ("'", '"', ";")}          # pattern text -> (delimiter, leading \s* present)
QUOTE_PATS.update({q + r"([^" + q + r"]*)" + q: (q, False) for q in ("'", '"', ";")})
TWO53 = 2 ** 53
WORD_CHARS = "".join(chr(c) for c in range(33, 127) if chr(c) not in "'\";_")
LETTERS = "abcdefghijklmnopqrstuvwxyzABCDEFGHIJKLMNOPQRSTUVWXYZ"


# ------------------------------------------------------------------------------------------------ symbolic words
def _union_chars(chars):
    return z3.Union(*[z3.Re(z3.StringVal(c)) for c in chars])


def word(name):
    """(segments, constraints) of a symbolic string w = f.mid.l with f one ASCII letter, mid in WORD*, l one WORD character.
    The class is carried by the segments (attribute c15_role) and used structurally; no string-theory constraint is needed
    (the only facts the solver sees are the lengths: 1, len >= 0, 1)."""
    f, m, l = z3.String(name + "_f"), z3.String(name + "_m"), z3.String(name + "_l")
    ln = z3.Int(name + "_len")
    segs = [Sym(f, "noblank+", 1), Sym(m, "noblank+", ln), Sym(l, "noblank+", 1)]
    for sg, role in zip(segs, ("first", "mid", "last")):
        sg.c15_role = role
    return segs, [ln >= 0]


def _is_word(seg):
    return isinstance(seg, Sym) and getattr(seg, "c15_role", None) is not None


# ------------------------------------------------------------------------------------------------ atoms
def _pad_status(I, f):
    if getattr(f, "_stripped", False):
        return "stripped"
    p = f.p
    if p["align"] not in (None, ">") or p["fill"] != " " or p["zero"] or p["sign"] != "-":
        raise Unsupported(f"format spec {f.spec!r}: only right-aligned blank-padded numbers are modelled")
    w = p["width"]
    if not w:
        return "no"
    nat = f.natural_len_cached()
    if I_valid(I, num_cmp("<", nat, w)):
        return "yes"
    if I_valid(I, num_cmp(">=", nat, w)):
        return "no"
    return "maybe"


def atoms(I, s):
    if isinstance(s, str):
        return [("c", ch) for ch in s]
    out = []
    for seg in s.segs:
        if isinstance(seg, Lit):
            out.extend(("c", ch) for ch in seg.text)
        elif isinstance(seg, Fmt):
            out.append(("num", seg, _pad_status(I, seg)))
        elif _is_word(seg):
            out.append(("w", seg, seg.c15_role))
        else:
            raise Unsupported(f"regex rule: segment {seg!r} of unknown character class")
    return out


def _is_space(a):
    return a[0] == "c" and a[1].isspace()


def _text(ats):
    """Atoms -> str | SStr (rendered numbers are kept as they are)."""
    if not ats:
        return ""
    return SStr.concat([a[1] for a in ats])


# ------------------------------------------------------------------------------------------------ VALUES_REGEX.findall
def values_findall(I, s):
    """re.findall(VALUES_REGEX, s) = the group of each successive match, scanning left to right: at ' " or ; the lazy quoted form
    (up to the next identical delimiter on the same line) if there is one, otherwise the maximal run of non-blank characters."""
    ats = atoms(I, s)
    n = len(ats)
    toks = []
    i = 0
    while i < n:
        a = ats[i]
        if _is_space(a):
            i += 1
            continue
        if a[0] == "c" and a[1] in "'\";":
            found = None
            for j in range(i + 1, n):
                b = ats[j]
                if b[0] == "c" and b[1] == "\n":
                    break
                if b[0] == "c" and b[1] == a[1]:
                    found = j
                    break
            if found is not None:
                toks.append(_text(ats[i:found + 1]))       # everything between the delimiters, padding included
                i = found + 1
                continue
        j = i
        parts = []
        while j < n and not _is_space(ats[j]):
            b = ats[j]
            if b[0] == "num" and b[2] in ("yes", "maybe"):
                if j == i:
                    parts.append(b[1].stripped())               # the padding is part of the gap before the token
                    j += 1
                    continue
                if b[2] == "yes":
                    break                                       # blank padding ends the run
                raise Unsupported("a number whose padding may be empty directly follows non-blank text")
            parts.append(b[1])
            j += 1
        toks.append(SStr.concat(parts))
        i = j
    return toks


# ------------------------------------------------------------------------------------------------ NUM_ERR_REGEX.match
class NumMatch(MatchVal):
    def __init__(self, groups, end):
        super().__init__(groups)
        self.end = end


class _Opaque:
    """A regex group the model does not spell out (inner groups of a rendered number); any use is outside the subset."""

    def __init__(self, what):
        self.what = what

    def __repr__(self):
        return f"<opaque {self.what}>"


def num_match(I, s):
    """re.match(NUM_ERR_REGEX, s) on an abstract string -> NumMatch | None.  The pattern is sign? (digits ([.,] digits*)? | [.,] digits+)
    ([eE] sign? digits+)? ( '(' digits+ ')' )? ; every repetition is greedy and what follows it starts with a character the repetition
    cannot take, so the first match found by the backtracking engine is the greedy one."""
    ats = atoms(I, s)
    units = []          # (kind, atom index, inside-a-number?)
    for ai, a in enumerate(ats):
        if a[0] == "c":
            units.append(("digits" if a[1].isdecimal() else a[1], ai, False))
        elif a[0] == "num":
            if a[2] == "maybe":
                raise Unsupported("number match on a field whose padding may be empty")
            if a[2] == "yes":
                units.append((" ", ai, False))
            f = a[1]
            nonneg = I_valid(I, num_cmp(">=", f.value if f.kind == "f" else f.scaled, 0)) if getattr(I, "pc", None) is not None else False
            ex = ([] if nonneg else ["optsign"]) + ["digits"] + (["point", "digits"] if f.kind == "f" and f.prec > 0 else [])
            units.extend((k, ai, True) for k in ex)
        else:
            units.append(("letter" if a[2] == "first" else "wordchars", ai, False))
    n = len(units)

    def kind(p):
        return units[p][0] if p < n else None

    def no_unknown(p, what):
        if kind(p) in ("optsign", "wordchars"):
            raise Unsupported(f"{what} followed by text of unknown first character")
    pos = 0
    if kind(pos) in ("-", "+", "optsign"):
        pos += 1
    m_start = pos
    g3 = None
    if kind(pos) == "digits":
        while kind(pos) == "digits":
            pos += 1
        no_unknown(pos, "digits")
        if kind(pos) in (".", ",", "point"):
            f_start = pos
            pos += 1
            while kind(pos) == "digits":
                pos += 1
            no_unknown(pos, "digits")
            g3 = (f_start, pos)
    elif kind(pos) in (".", ",", "point") and kind(pos + 1) == "digits":
        pos += 1
        while kind(pos) == "digits":
            pos += 1
        no_unknown(pos, "digits")
    else:
        if kind(pos) in ("wordchars",):
            raise Unsupported("number match on text of unknown first character")
        return None
    g2 = (m_start, pos)
    g4 = None
    if kind(pos) in ("e", "E"):
        q = pos + 1
        if kind(q) in ("-", "+", "optsign"):
            q += 1
        if kind(q) == "digits":
            while kind(q) == "digits":
                q += 1
            no_unknown(q, "exponent")
            g4 = (pos, q)
            pos = q
        else:
            no_unknown(q, "exponent mark")
    g1 = (0, pos)
    g5 = None
    if kind(pos) == "(" and kind(pos + 1) == "digits":
        q = pos + 1
        while kind(q) == "digits":
            q += 1
        no_unknown(q, "uncertainty")
        if kind(q) == ")":
            g5 = (pos, q + 1)
            pos = q + 1

    def text(span, inner=False):
        if span is None:
            return None
        lo, hi = span
        if lo == hi:
            return ""
        # group boundaries must fall on atom boundaries where rendered numbers are involved
        if (units[lo][2] and lo > 0 and units[lo - 1][1] == units[lo][1]) or (hi < n and units[hi - 1][2] and units[hi][1] == units[hi - 1][1]):
            if inner:
                return _Opaque("inner group of a rendered number")
            raise Unsupported("group boundary inside a rendered number")
        return _text(ats[units[lo][1]:units[hi - 1][1] + 1])
    groups = {0: text((0, pos)), 1: text(g1), 2: text(g2, True), 3: text(g3, True), 4: text(g4), 5: text(g5)}
    if pos == n:
        end = len(s) if isinstance(s, str) else s.length()
    else:
        w = groups[0]
        end = len(w) if isinstance(w, str) else w.length()
    return NumMatch(groups, end)


# ------------------------------------------------------------------------------------------------ QUOTE_REGEX.match
def quote_match(I, s, q, skip_ws=True):
    """re.match(q \\s* ([^q]*) \\s* q, s): s starts with q and has another q; group = text after the leading white space (if the pattern
    has \\s*) up to the next q."""
    ats = atoms(I, s)
    if not ats or not (ats[0][0] == "c" and ats[0][1] == q):
        if ats and ats[0][0] == "w" and ats[0][2] != "first":
            raise Unsupported("quote match on text of unknown first character")
        return None
    i = 1
    while skip_ws and i < len(ats) and _is_space(ats[i]):
        i += 1
    if skip_ws and i < len(ats) and ats[i][0] == "num" and ats[i][2] in ("yes", "maybe"):
        raise Unsupported("quote match: padded number after the delimiter")
    j = i
    while j < len(ats) and not (ats[j][0] == "c" and ats[j][1] == q):
        j += 1
    if j == len(ats):
        return None             # no closing delimiter (white space is never the delimiter, so backtracking cannot find one either)
    return NumMatch({0: _text(ats[:j + 1]), 1: _text(ats[i:j])}, None)


# ------------------------------------------------------------------------------------------------ models
def _facts(I):
    """Side table: facts about terms introduced by the float model (keyed by z3 term id; the terms stay alive on the path)."""
    if not hasattr(I, "_c15_facts"):
        I._c15_facts = {}
    return I._c15_facts


def make_models():
    def m_match(I, pat, s, flags=0):
        rx = _as_rx(pat, flags)
        if isinstance(s, SStr):
            c = s.concrete_or_self()
            if isinstance(c, str):
                s = c
        if not isinstance(s, (str, SStr)):
            raise PyRaise("TypeError", "expected string or bytes-like object")
        if isinstance(s, str):
            m = rx.rx.match(s)
            if m is None:
                return None
            return NumMatch({0: m.group(0), **{i + 1: g for i, g in enumerate(m.groups())}}, m.end())
        if rx.pattern == NUM_PAT and rx.flags == 0:
            I.used_models.add("re.NUM_ERR_REGEX(structural rule)")
            return num_match(I, s)
        if rx.pattern in QUOTE_PATS and rx.flags == 0:
            I.used_models.add("re.QUOTE_REGEX(structural rule)")
            return quote_match(I, s, *QUOTE_PATS[rx.pattern])
        raise Unsupported(f"re.match of pattern {rx.pattern!r} on a symbolic string")

    def m_findall(I, pat, s, flags=0):
        rx = _as_rx(pat, flags)
        if isinstance(s, SStr):
            c = s.concrete_or_self()
            if isinstance(c, str):
                s = c
        if isinstance(s, str):
            return rx.rx.findall(s)
        if rx.pattern == VAL_PAT and rx.flags == 0:
            I.used_models.add("re.VALUES_REGEX(structural rule)")
            return values_findall(I, s)
        raise Unsupported(f"re.findall of pattern {rx.pattern!r} on a symbolic string")

    def m_span(I, m, g=0):
        if g != 0:
            raise Unsupported("span of a sub-group")
        if isinstance(m, NumMatch) and m.end is not None:
            return (0, m.end)
        w = m.groups[0]         # re.match anchors at 0
        return (0, len(w) if isinstance(w, str) else w.length())

    def m_end(I, m, g=0):
        return m_span(I, m, g)[1]

    def m_start(I, m, g=0):
        return m_span(I, m, g)[0]

    def m_float(I, v=0):
        """float(text).  Rendered integer: exact iff |n| <= 2**53 (CPython: nearest binary64; every integer up to 2**53 is representable,
        beyond that the nearest double is an integer within |n|*2**-53).  Rendered fixed-point number: its decimal value (floats are reals)."""
        from pyvc.strings import parse_float, _single_fmt
        from pyvc.values import NDArr
        if isinstance(v, _Opaque):
            raise Unsupported("float() of an opaque regex group")
        if isinstance(v, SStr):
            f = _single_fmt(v)
            if f is not None and f.kind == "d":
                I.used_models.add("cpython.float-of-integer-text(exact up to 2**53)")
                n = z(f.scaled)
                if I.decide(z3.And(n <= TWO53, n >= -TWO53)):
                    return z3.ToReal(n)
                r = I.fresh("real", "flt")
                a = z3.ToReal(z3.If(n >= 0, n, -n)) / TWO53
                I.assume(z3.And(r - z3.ToReal(n) <= a, z3.ToReal(n) - r <= a))
                _facts(I)[r.get_id()] = ("integral", None)
                return r
            if f is not None and f.kind == "f":
                I.used_models.add("cpython.format-parse")
                r = to_real(f.parsed_value())
                if is_sym(r):
                    _facts(I)[r.get_id()] = ("scaled", (f.scaled, f.prec))
                return r
        if isinstance(v, (str, SStr)):
            return parse_float(I, v)
        if isinstance(v, NDArr) and v.data.size == 1:
            v = v.flat()[0]
        return to_real(v)

    def m_is_integer(I, v):
        if not is_sym(v):
            return Fraction(v).denominator == 1
        if z3.is_int(v) or z3.is_app_of(v, z3.Z3_OP_TO_REAL):
            return True
        I.used_models.add("float.is_integer")
        fact = _facts(I).get(v.get_id())
        if fact and fact[0] == "integral":
            return True
        if fact and fact[0] == "scaled":
            k, p = fact[1]
            return I.decide(z(k) % (10 ** p) == 0)      # a fork: the two outcomes have different result TYPES
        return I.decide(z3.IsInt(v))

    def m_int(I, v=0, base=None):
        if is_sym(v) and z3.is_real(v):
            fact = _facts(I).get(v.get_id())
            if fact and fact[0] == "scaled":
                k, p = fact[1]
                if any(z3.eq(z(c), z(k) % (10 ** p) == 0) for c in I.pc if is_sym(c)) or I_valid(I, z(k) % (10 ** p) == 0):
                    return z(k) / (10 ** p)         # the decimal is an integer on this path: int() of it is the exact quotient
            s = z3.simplify(v)
            if z3.is_app_of(s, z3.Z3_OP_TO_REAL):
                return s.arg(0)
            return z3.If(v >= 0, z3.ToInt(v), -z3.ToInt(-v))
        return MODELS["builtins.int"].fn(I, v) if base is None else MODELS["builtins.int"].fn(I, v, base)

    def m_groupby(I, it, key=None):
        """itertools.groupby consumed in order (each group is exhausted before the next one is requested, as Cif.to_string does)."""
        items = I.iterate(it)
        out = []
        for x in items:
            k = I.call(key, [x]) if key is not None else x
            if isinstance(k, SStr):
                k = k.concrete()
            if is_sym(k):
                raise Unsupported("groupby on a symbolic key")
            if out and out[-1][0] == k:
                out[-1][1].append(x)
            else:
                out.append((k, [x]))
        return out

    def m_hasattr(I, o, a):
        if isinstance(o, (list, tuple, dict, set)):
            return hasattr(o, a)
        if isinstance(o, (str, SStr)) or (is_sym(o) and z3.is_string(o)):
            return hasattr("", a)
        if isinstance(o, bool):
            return hasattr(True, a)
        if isinstance(o, int) or (is_sym(o) and z3.is_int(o)):
            return hasattr(0, a)
        if isinstance(o, Fraction) or (is_sym(o) and z3.is_real(o)):
            return hasattr(0.0, a)
        if o is None:
            return hasattr(None, a)
        raise Unsupported("hasattr on " + type(o).__name__)

    mods = {}
    for name, fn in (("re.match", m_match), ("re.findall", m_findall), ("builtins.float", m_float), ("scalar.is_integer", m_is_integer),
                     ("builtins.int", m_int), ("itertools.groupby", m_groupby), ("MatchVal.span", m_span), ("NumMatch.span", m_span),
                     ("MatchVal.end", m_end), ("NumMatch.end", m_end), ("MatchVal.start", m_start), ("NumMatch.start", m_start)):
        mods[name] = ModelFn(name, fn)
    mods["RegexVal.match"] = ModelFn("RegexVal.match", lambda I, rx, s: m_match(I, rx, s))
    mods["RegexVal.findall"] = ModelFn("RegexVal.findall", lambda I, rx, s: m_findall(I, rx, s))
    mods["NumMatch.groups"] = MODELS["MatchVal.groups"]
    mods["NumMatch.group"] = MODELS["MatchVal.group"]
    mods["_c15.hasattr"] = ModelFn("builtins.hasattr", m_hasattr)
    return mods


# ------------------------------------------------------------------------------------------------ interpreter subclass
def _strip_model(I, s, chars=None):
    """str.strip() for a line that starts with a rendered number: the number loses its left padding (numbers are right-aligned:
    no blanks on their right), literal ends are stripped as usual."""
    if chars is not None:
        raise Unsupported("strip(chars) on a structured string")
    _pad_status(I, s.segs[0])       # validates the format spec
    segs = list(s.segs[1:])
    while segs and isinstance(segs[-1], Lit):
        t = segs[-1].text.rstrip()
        if t:
            segs[-1] = Lit(t)
            break
        segs.pop()
    if segs and not isinstance(segs[-1], (Lit, Fmt)) and not _is_word(segs[-1]):
        raise Unsupported("strip: right end of unknown class")
    return SStr.concat([s.segs[0].stripped()] + segs)


def _ws_split(I, s, first_only=False):
    """str.split() by character class: maximal runs of non-blank atoms (a rendered number may be glued to literal text, e.g. '1.23(4)').
    first_only: str.split(None, 1) = [first token, remainder without its leading white space]."""
    if first_only:
        ats = atoms(I, s)
        i = 0
        while i < len(ats) and _is_space(ats[i]):
            i += 1
        if i < len(ats) and ats[i][0] == "num" and ats[i][2] in ("yes", "maybe"):
            raise Unsupported("split(None, 1) of a line starting with a padded number")
        j = i
        while j < len(ats) and not _is_space(ats[j]):
            if ats[j][0] == "num" and ats[j][2] in ("yes", "maybe"):
                break
            j += 1
        k = j
        while k < len(ats) and _is_space(ats[k]):
            k += 1
        if k < len(ats) and ats[k][0] == "num" and ats[k][2] in ("yes", "maybe"):
            if ats[k][2] == "maybe" and k == j:
                raise Unsupported("a number whose padding may be empty directly follows non-blank text")
            rest = [ats[k][1].stripped()] + [a[1] for a in ats[k + 1:]]
        else:
            rest = [a[1] for a in ats[k:]]
        out = [SStr.concat([a[1] for a in ats[i:j]])] if j > i else []
        if rest:
            out.append(SStr.concat(rest))
        return out
    toks, cur = [], []
    for a in atoms(I, s):
        if _is_space(a):
            if cur:
                toks.append(cur)
                cur = []
            continue
        if a[0] == "num" and a[2] in ("yes", "maybe"):
            if cur and a[2] == "maybe":
                raise Unsupported("a number whose padding may be empty directly follows non-blank text")
            if cur:
                toks.append(cur)
            cur = [a[1].stripped()]
            continue
        cur.append(a[1])
    if cur:
        toks.append(cur)
    return [SStr.concat(t) for t in toks]


def _same_text(a, b):
    """Structural identity of two structured strings (same segment objects / same literal text)."""
    if len(a.segs) != len(b.segs):
        return False
    for x, y in zip(a.segs, b.segs):
        if isinstance(x, Lit) and isinstance(y, Lit):
            if x.text != y.text:
                return False
        elif x is not y:
            return False
    return True


_NUMCHARS = set("0123456789.-+")


def _cannot_equal(item, key):
    """Sound structural refutation of item == key for a concrete key (None: cannot tell)."""
    minlen = sum(len(g.text) if isinstance(g, Lit) else (1 if isinstance(g, Fmt) or getattr(g, "c15_role", "mid") != "mid" else 0) for g in item.segs)
    if len(key) < minlen:
        return True
    pos = 0
    for seg in item.segs:
        if isinstance(seg, Lit):
            if key[pos:pos + len(seg.text)] != seg.text:
                return True
            pos += len(seg.text)
        elif isinstance(seg, Fmt):
            return True if any(ch not in _NUMCHARS for ch in key[pos:]) or pos >= len(key) else None
        elif _is_word(seg):
            if seg.c15_role == "first":
                if pos >= len(key) or key[pos] not in LETTERS:
                    return True
                pos += 1
            else:
                return True if any(ch not in WORD_CHARS for ch in key[pos:]) else None
        else:
            return None
    return True if pos != len(key) else None


def _contains_lit(I, s, item):
    """item in s, decided structurally when no character of item can occur in symbolic text (None: cannot tell)."""
    if any(isinstance(seg, Lit) and item in seg.text for seg in s.segs):
        return True
    for seg in s.segs:
        if isinstance(seg, Fmt):
            pad = _pad_status(I, seg)
            if item == "." and seg.kind == "f" and seg.prec > 0:
                return True
            if item in (".", "+") and len(item) == 1:
                continue                # an integer rendering has no point; no '+' with sign option '-'
            if any(ch in _NUMCHARS for ch in item):
                return None
            if " " in item and pad == "maybe":
                return None
            if item.strip(" ") == "" and pad == "yes" and len(item) == 1:
                return True
            if " " in item and pad == "yes":
                return None
        elif _is_word(seg):
            if any(ch in WORD_CHARS for ch in item):
                return None
        elif not isinstance(seg, Lit):
            return None
    return False


def _may_start(segs, prefix):
    """Could the text begin with `prefix`?  (False = certainly not; symbolic words range over their character classes.)"""
    if not prefix:
        return True
    if not segs:
        return False
    g = segs[0]
    if isinstance(g, Lit):
        k = min(len(g.text), len(prefix))
        if g.text[:k] != prefix[:k]:
            return False
        return True if k == len(prefix) else _may_start(segs[1:], prefix[k:])
    if _is_word(g):
        if g.c15_role == "first":
            return prefix[0] in LETTERS and _may_start(segs[1:], prefix[1:])
        if g.c15_role == "last":
            return prefix[0] in WORD_CHARS and _may_start(segs[1:], prefix[1:])
        # mid: any number of WORD characters
        k = 0
        while True:
            if _may_start(segs[1:], prefix[k:]):
                return True
            if k < len(prefix) and prefix[k] in WORD_CHARS:
                k += 1
                continue
            return False
    return True         # rendered numbers, unknown text: cannot tell


class CifInterp(Interp):
    """Stock interpreter plus: dict membership / lookup with structured-string keys (by structural identity, and by character class
    against literal keys), strip() of a line starting with a rendered number, startswith() on symbolic words."""

    def contains(self, container, item):
        if isinstance(container, SStr) and not isinstance(container.concrete_or_self(), str):
            it = item.concrete_or_self() if isinstance(item, SStr) else item
            if isinstance(it, str) and it:
                r = _contains_lit(self, container, it)
                if r is not None:
                    return r
        if isinstance(container, dict) and isinstance(item, SStr) and not isinstance(item.concrete_or_self(), str):
            undecided = False
            for k in container:
                if isinstance(k, SStr):
                    if k is item or _same_text(k, item):
                        return True
                    # two symbolic names that are not the same text are DISTINCT: they stem from distinct keys of the input dict
                elif isinstance(k, str):
                    if _cannot_equal(item, k) is not True:
                        undecided = True
            if not undecided:
                return False
        return super().contains(container, item)

    def compare(self, op, l, r):
        import ast as _ast
        if isinstance(op, (_ast.Eq, _ast.NotEq)):
            for a, b in ((l, r), (r, l)):
                if isinstance(a, SStr) and not isinstance(a.concrete_or_self(), str):
                    bc = b.concrete_or_self() if isinstance(b, SStr) else b
                    if isinstance(bc, str) and bc == "":
                        e = num_cmp("==", a.length(), 0)
                        return e if isinstance(op, _ast.Eq) else (z3.Not(e) if is_sym(e) else not e)
                    if isinstance(bc, str) and _cannot_equal(a, bc) is True:
                        return isinstance(op, _ast.NotEq)
                    if isinstance(bc, SStr) and _same_text(a, bc):
                        return isinstance(op, _ast.Eq)
        return super().compare(op, l, r)

    def subscript(self, base, idx):
        if isinstance(base, dict) and isinstance(idx, SStr) and not isinstance(idx.concrete_or_self(), str):
            for k in base:
                if isinstance(k, SStr) and (k is idx or _same_text(k, idx)):
                    return base[k]
            if all(isinstance(k, str) and _cannot_equal(idx, k) is True for k in base if not isinstance(k, SStr)) and \
                    not any(isinstance(k, SStr) for k in base):
                raise PyRaise("KeyError", repr(idx))
        return super().subscript(base, idx)

    def store(self, base, idx, v):
        if isinstance(base, dict) and isinstance(idx, SStr) and not isinstance(idx.concrete_or_self(), str):
            for k in list(base):
                if isinstance(k, SStr) and (k is idx or _same_text(k, idx)):
                    base[k] = v
                    return
                if not isinstance(k, SStr) and _cannot_equal(idx, k) is not True:
                    raise Unsupported("store under a symbolic key that may equal an existing literal key")
            base[idx] = v
            return
        return super().store(base, idx, v)

    def getattr(self, base, attr):
        if isinstance(base, SStr) and base.segs and not isinstance(base.concrete_or_self(), str):
            if attr == "split":
                def sp(I, s, sep=None, maxsplit=-1):
                    if sep is None and maxsplit == -1:
                        try:
                            return STR_METHODS["split"](I, s)
                        except Unsupported:
                            return _ws_split(I, s)
                    if sep is None and maxsplit == 1:
                        return _ws_split(I, s, first_only=True)
                    return STR_METHODS["split"](I, s, sep, maxsplit)
                return BoundModel("str.split", sp, base)
            if attr == "strip" and isinstance(base.segs[0], Fmt) and len(base.segs) > 1:
                return BoundModel("str.strip(line starting with a rendered number)", _strip_model, base)
            if attr == "startswith" and _is_word(base.segs[0]) and base.segs[0].c15_role == "first":
                def sw(I, s, prefix):
                    ps = prefix if isinstance(prefix, tuple) else (prefix,)
                    if all(isinstance(p, str) and p and not _may_start(list(s.segs), p) for p in ps):
                        return False
                    return STR_METHODS["startswith"](I, s, prefix)
                return BoundModel("str.startswith(symbolic word)", sw, base)
        return super().getattr(base, attr)


def make_interp(ctx, **kw):
    from pyvc import source
    models = make_models()
    models.update(kw.pop("models", {}))
    I = CifInterp(models=models, **kw)
    ctx._interps = getattr(ctx, "_interps", [])
    ctx._interps.append(I)
    mod = source.load_module("chmpy.fmt.cif")
    # `hasattr` is a special form of the engine that knows objects only; is_scalar applies it to lists and strings.  The REAL body of
    # is_scalar is executed, with the name `hasattr` bound to a model of the builtin.
    if "is_scalar" in mod.functions:
        I.module_globals[("chmpy.fmt.cif", "is_scalar")] = FuncVal(mod, mod.functions["is_scalar"], closure={"hasattr": models["_c15.hasattr"]})
    return I


# ------------------------------------------------------------------------------------------------ conformance of the rules with `re`
class _Dummy:
    pc = []
    used_models = set()


def conformance(alphabet, maxlen):
    """Compare the three structural rules with the real `re` module on every string over `alphabet` up to `maxlen` characters
    (as all-literal abstract strings, digits merged into runs by the rule itself).  Returns (count, mismatches)."""
    import itertools
    I = _Dummy()
    num, val = _re.compile(NUM_PAT), _re.compile(VAL_PAT)
    quotes = {qs: _re.compile(p) for p, qs in QUOTE_PATS.items()}
    bad = []
    cnt = 0
    for L in range(0, maxlen + 1):
        for t in itertools.product(alphabet, repeat=L):
            s = "".join(t)
            cnt += 1
            a = SStr([Lit(s)]) if s else SStr([])
            m = num.match(s)
            r = num_match(I, a)
            exp = None if m is None else (m.end(), m.groups())
            got = None if r is None else (r.end, tuple(r.groups[i] for i in range(1, 6)))
            if exp != got:
                bad.append({"rule": "NUM_ERR_REGEX.match", "string": s, "re": repr(exp), "rule_says": repr(got)})
            if val.findall(s) != values_findall(I, a):
                bad.append({"rule": "VALUES_REGEX.findall", "string": s, "re": val.findall(s), "rule_says": values_findall(I, a)})
            for (q, ws), rx in quotes.items():
                m = rx.match(s)
                r = quote_match(I, a, q, ws)
                if (None if m is None else m.groups()[0]) != (None if r is None else r.groups[1]):
                    bad.append({"rule": f"QUOTE_REGEX[{q},{ws}].match", "string": s, "re": None if m is None else m.groups()[0],
                                "rule_says": None if r is None else r.groups[1]})
            if len(bad) > 5:
                return cnt, bad
    return cnt, bad
