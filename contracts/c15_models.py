"""C15 helpers: library models for the three regular expressions of fmt/cif.py on structured strings, and the
interpreter subclass that routes the few str operations the stock engine cannot do on a line that *starts* with a formatted number.

Everything here is a model of a DEPENDENCY (CPython `re`, `float`, `hasattr`, `itertools.groupby`, `str.strip`), never of chmpy code.
Each regex rule is keyed on the exact pattern text read from the real source: an edited pattern has no rule (-> undecided, and the
run-time stand-ins decide).  The rules are cross-checked against the real `re` module on an exhaustive small-alphabet corpus (G).

Atoms of an abstract string
  ("c", ch)            one concrete character
  ("num", Fmt, pad)    a rendered number: [blank padding] [-] digits [. digits]; pad in {"yes","no","maybe","stripped"}
  ("word", Sym)        unknown text of a registered class (see WORDS): non-empty, no blank, no quote character, no ';',
                        first character none of  _ # ; ' "  and not spelled like a number
"""
import re as _re
from fractions import Fraction

import z3

from pyvc.strings import SStr, Lit, Fmt, Sym, I_valid, STR_METHODS
from pyvc.symex import Interp, ModelFn, BoundModel, FuncVal
from pyvc.values import PyRaise, Unsupported, is_sym, num_binop, num_cmp, simp, to_real, z
from pyvc.libmodels import MatchVal, RegexVal, _as_rx, _wrap_match

NUM_PAT = r"([-+]?(\d+([.,]\d*)?|[.,]\d+)([eE][-+]?\d+)?)(\(\d+\))?"
VAL_PAT = r"""('.*?'|".*?"|;.*?;|\S+)"""
TWO53 = 2 ** 53


# ------------------------------------------------------------------------------------------------ atoms
def _pad_status(I, f):
    if getattr(f, "_stripped", False):
        return "stripped"
    p = f.p
    if p["align"] not in (None, ">") or p["fill"] != " " or p["zero"] or p["sign"] != "-":
        raise Unsupported(f"format spec {f.spec!r}: only right-aligned blank-padded numbers are modelled")
    w = p["width"]
    if not w:
        return "no"
    nat = f.natural_len_cached()
    if I_valid(I, num_cmp("<", nat, w)):
        return "yes"
    if I_valid(I, num_cmp(">=", nat, w)):
        return "no"
    return "maybe"


def atoms(I, s):
    out = []
    if isinstance(s, str):
        return [("c", ch) for ch in s]
    for seg in s.segs:
        if isinstance(seg, Lit):
            out.extend(("c", ch) for ch in seg.text)
        elif isinstance(seg, Fmt):
            out.append(("num", seg, _pad_status(I, seg)))
        elif isinstance(seg, Sym) and seg.lang == "noblank+" and getattr(seg, "c15_word", False):
            out.append(("word", seg))
        else:
            raise Unsupported(f"regex rule: segment {seg!r} of unknown character class")
    return out


def _is_space(a):
    return a[0] == "c" and a[1].isspace()


def _join(I, ats):
    """Atoms -> str | SStr.  A padded number is kept whole (the caller strips where the padding is outside the token)."""
    parts = []
    for a in ats:
        if a[0] == "c":
            parts.append(a[1])
        else:
            parts.append(a[1])
    if not parts:
        return ""
    return SStr.concat(parts)


# ------------------------------------------------------------------------------------------------ VALUES_REGEX.findall
def values_findall(I, s):
    """re.findall(r'''('.*?'|".*?"|;.*?;|\\S+)''', s): scan left to right; at a quote or ';' try the lazy quoted form (up to the next
    identical delimiter, not across a newline), else the maximal run of non-blank characters."""
    ats = atoms(I, s)
    n = len(ats)
    toks = []
    i = 0
    while i < n:
        a = ats[i]
        if _is_space(a):
            i += 1
            continue
        if a[0] == "num" and a[2] in ("yes", "maybe", "no") and a[2] != "no":
            # possible blank padding belongs to the gap; the token starts at the sign/first digit
            pass
        if a[0] == "c" and a[1] in "'\";":
            j = i + 1
            found = None
            while j < n:
                b = ats[j]
                if b[0] == "c" and b[1] == "\n":
                    break
                if b[0] == "c" and b[1] == a[1]:
                    found = j
                    break
                if b[0] == "num" and b[2] in ("yes", "maybe") and False:
                    pass
                j += 1
            if found is not None:
                toks.append(_token(I, ats[i:found + 1], quoted=True))
                i = found + 1
                continue
        # \S+
        j = i
        while j < n and not _is_space(ats[j]):
            if j > i and ats[j][0] == "num" and ats[j][2] != "no" and ats[j][2] != "stripped":
                if ats[j][2] == "yes":
                    break               # blank padding ends the run
                raise Unsupported("a number whose padding may be empty directly follows non-blank text")
            j += 1
        toks.append(_token(I, ats[i:j], quoted=False))
        i = j
    return toks


def _token(I, ats, quoted):
    parts = []
    for k, a in enumerate(ats):
        if a[0] == "c":
            parts.append(a[1])
        elif a[0] == "num":
            if k == 0 and not quoted:
                parts.append(a[1] if a[2] in ("no", "stripped") else a[1].stripped())
            elif a[2] in ("no", "stripped"):
                parts.append(a[1])
            else:
                if quoted:
                    parts.append(a[1])      # padding inside quotes is part of the token
                else:
                    raise Unsupported("padded number inside a token")
        else:
            parts.append(a[1])
    return SStr.concat(parts)


# ------------------------------------------------------------------------------------------------ NUM_ERR_REGEX.match
class NumMatch(MatchVal):
    def __init__(self, groups, end):
        super().__init__(groups)
        self.end = end


def _expand_num(I, a):
    """Units of a rendered number: optional sign, digit run, [point, digit run]."""
    f, pad = a[1], a[2]
    if pad in ("yes", "maybe"):
        return None
    u = [("optsign", a), ("digits", a)]
    if f.kind == "f" and f.prec > 0:
        u += [("point", a), ("digits", a)]
    return u


def num_match(I, s):
    """re.match(NUM_ERR_REGEX, s) on an abstract string -> NumMatch | None | 'partial-unknown'."""
    ats = atoms(I, s)
    units = []          # (kind, atom index)
    for ai, a in enumerate(ats):
        if a[0] == "c":
            ch = a[1]
            kind = "digits" if ch.isdigit() and ch.isascii() else ch
            if ch.isdigit() and not ch.isascii():
                kind = "digits"         # \d is Unicode-aware in str patterns
            units.append((kind, ai, None))
        elif a[0] == "num":
            ex = _expand_num(I, a)
            if ex is None:
                if a[2] == "yes":
                    units.append((" ", ai, None))        # starts with a blank: nothing after it matters if it is first
                    ex = [("optsign", a), ("digits", a)] + ([("point", a), ("digits", a)] if a[1].kind == "f" and a[1].prec > 0 else [])
                    units.extend((k, ai, "sub") for k, _ in ex)
                    continue
                raise Unsupported("number match on a field whose padding may be empty")
            units.extend((k, ai, "sub") for k, _ in ex)
        else:
            units.append(("word", ai, None))
    n = len(units)
    pos = 0

    def kind(p):
        return units[p][0] if p < n else None
    if kind(0) == "word":
        return "word"
    # [-+]?
    if kind(pos) in ("-", "+", "optsign"):
        pos += 1
    elif kind(pos) == "optsign":
        pos += 1
    m_start = pos
    if kind(pos) == "digits":
        while kind(pos) == "digits":
            pos += 1
        # a rendered number directly after digits would put an optional sign inside the run
        if kind(pos) in (".", ",", "point"):
            f_start = pos
            pos += 1
            while kind(pos) == "digits":
                pos += 1
            g3 = (f_start, pos)
        else:
            g3 = None
    elif kind(pos) in (".", ",", "point") and kind(pos + 1) == "digits":
        pos += 1
        while kind(pos) == "digits":
            pos += 1
        g3 = None
    else:
        return None
    if kind(pos) == "optsign" or kind(pos) == "word":
        raise Unsupported("number immediately followed by text of unknown first character")
    g2 = (m_start, pos)
    g4 = None
    if kind(pos) in ("e", "E"):
        q = pos + 1
        if kind(q) in ("-", "+", "optsign"):
            q += 1
        if kind(q) == "digits":
            while kind(q) == "digits":
                q += 1
            if kind(q) in ("optsign", "word"):
                raise Unsupported("exponent followed by text of unknown first character")
            g4 = (pos, q)
            pos = q
    g1 = (0, pos)
    g5 = None
    if kind(pos) == "(" and kind(pos + 1) == "digits":
        q = pos + 1
        while kind(q) == "digits":
            q += 1
        if kind(q) in ("optsign", "word"):
            raise Unsupported("uncertainty followed by text of unknown first character")
        if kind(q) == ")":
            g5 = (pos, q + 1)
            pos = q + 1
    # units -> text: group boundaries must fall on atom boundaries for rendered numbers
    def text(span):
        if span is None:
            return None
        lo, hi = span
        first_ai = units[lo][1] if lo < n else len(ats)
        last_ai = units[hi - 1][1]
        for (p, q2) in ((lo, "start"), (hi, "end")):
            pass
        if lo < n and units[lo][2] == "sub" and lo > 0 and units[lo - 1][1] == units[lo][1]:
            raise Unsupported("group starts inside a rendered number")
        if hi < n and units[hi][2] == "sub" and units[hi - 1][1] == units[hi][1]:
            raise Unsupported("group ends inside a rendered number")
        return _join(I, ats[first_ai:last_ai + 1])
    groups = {0: text((0, pos)), 1: text(g1), 2: None, 3: None, 4: text(g4), 5: text(g5)}
    try:
        groups[2] = text(g2)
    except Unsupported:
        groups[2] = None if False else _Opaque("group 2")
    try:
        groups[3] = text(g3)
    except Unsupported:
        groups[3] = _Opaque("group 3")
    whole = groups[0]
    end = len(whole) if isinstance(whole, str) else whole.length()
    if pos == n:
        end = len(s) if isinstance(s, str) else s.length()
    return NumMatch(groups, end)


class _Opaque:
    """A regex group the model does not spell out (inner groups of a rendered number); any use is outside the subset."""

    def __init__(self, what):
        self.what = what

    def __repr__(self):
        return f"<opaque {self.what}>"


# ------------------------------------------------------------------------------------------------ models
def _facts(I):
    """Side table: facts about terms introduced by the float model (keyed by z3 term id; terms are kept alive by the path)."""
    if not hasattr(I, "_c15_facts"):
        I._c15_facts = {}
    return I._c15_facts


def make_models(word_partial=True):
    def m_match(I, pat, s, flags=0):
        rx = _as_rx(pat, flags)
        if isinstance(s, SStr):
            c = s.concrete_or_self()
            if isinstance(c, str):
                s = c
        if not isinstance(s, (str, SStr)):
            raise PyRaise("TypeError", "expected string or bytes-like object")
        if isinstance(s, str):
            m = rx.rx.match(s)
            if m is None:
                return None
            return NumMatch({0: m.group(0), **{i + 1: g for i, g in enumerate(m.groups())}}, m.end())
        if rx.pattern == NUM_PAT and rx.flags == 0:
            I.used_models.add("re.NUM_ERR_REGEX-on-rendered-numbers")
            r = num_match(I, s)
            if r == "word":
                # text that is (by its stated class) not spelled like a number: the match, if any, stops before the end
                I.used_models.add("re.NUM_ERR_REGEX-on-non-numeric-word")
                b = I.fresh("bool", "numprefix")
                if I.decide(b):
                    e = I.fresh("int", "numend")
                    I.assume(z3.And(e >= 1, e < z(s.length())))
                    return NumMatch({0: _Opaque("prefix"), 1: _Opaque("prefix"), 2: None, 3: None, 4: None, 5: None}, e)
                return None
            return r
        raise Unsupported(f"re.match of pattern {rx.pattern!r} on a symbolic string")

    def m_findall(I, pat, s, flags=0):
        rx = _as_rx(pat, flags)
        if isinstance(s, SStr):
            c = s.concrete_or_self()
            if isinstance(c, str):
                s = c
        if isinstance(s, str):
            return rx.rx.findall(s)
        if rx.pattern == VAL_PAT and rx.flags == 0:
            I.used_models.add("re.VALUES_REGEX-tokeniser")
            return values_findall(I, s)
        raise Unsupported(f"re.findall of pattern {rx.pattern!r} on a symbolic string")

    def m_span(I, m, g=0):
        if g != 0:
            raise Unsupported("span of a sub-group")
        if isinstance(m, NumMatch):
            return (0, m.end)
        w = m.groups[0]
        return (0, len(w) if isinstance(w, str) else w.length())

    def m_float(I, v=0):
        """float(text).  Rendered integer: exact iff |n| <= 2**53 (CPython: nearest binary64; every integer up to 2**53 is representable,
        beyond that the nearest double is an integer within |n|*2**-53).  Rendered fixed-point number: its decimal value (floats are reals)."""
        from pyvc.strings import parse_float, _single_fmt
        from pyvc.values import NDArr
        if isinstance(v, _Opaque):
            raise Unsupported("float() of an opaque regex group")
        if isinstance(v, SStr):
            f = _single_fmt(v)
            if f is not None and f.kind == "d":
                I.used_models.add("cpython.float-of-integer-text(exact up to 2**53)")
                n = z(f.scaled)
                if I.decide(z3.And(n <= TWO53, n >= -TWO53)):
                    return z3.ToReal(n)
                r = I.fresh("real", "flt")
                a = z3.ToReal(z3.If(n >= 0, n, -n)) / TWO53
                I.assume(z3.And(r - z3.ToReal(n) <= a, z3.ToReal(n) - r <= a))
                _facts(I)[r.get_id()] = ("integral", None)
                return r
            if f is not None and f.kind == "f":
                I.used_models.add("cpython.format-parse")
                r = to_real(f.parsed_value())
                if is_sym(r):
                    _facts(I)[r.get_id()] = ("scaled", (f.scaled, f.prec))
                return r
        if isinstance(v, (str, SStr)):
            return parse_float(I, v)
        if isinstance(v, NDArr) and v.data.size == 1:
            v = v.flat()[0]
        return to_real(v)

    def m_is_integer(I, v):
        if not is_sym(v):
            return Fraction(v).denominator == 1
        if z3.is_int(v):
            return True
        if z3.is_app_of(v, z3.Z3_OP_TO_REAL):
            return True
        I.used_models.add("float.is_integer")
        fact = _facts(I).get(v.get_id())
        if fact and fact[0] == "integral":
            return True
        if fact and fact[0] == "scaled":
            k, p = fact[1]
            return I.decide(z(k) % (10 ** p) == 0)      # fork: the two outcomes have different result TYPES
        return I.decide(z3.IsInt(v))

    def m_int(I, v=0, base=None):
        from pyvc.libmodels import MODELS
        if is_sym(v) and z3.is_real(v):
            s = z3.simplify(v)
            if z3.is_app_of(s, z3.Z3_OP_TO_REAL):
                return s.arg(0)
            return z3.If(v >= 0, z3.ToInt(v), -z3.ToInt(-v))
        return MODELS["builtins.int"].fn(I, v) if base is None else MODELS["builtins.int"].fn(I, v, base)

    def m_groupby(I, it, key=None):
        """itertools.groupby consumed in order (each group exhausted before the next is requested, as Cif.to_string does)."""
        items = I.iterate(it)
        out = []
        for x in items:
            k = I.call(key, [x]) if key is not None else x
            if isinstance(k, SStr):
                k = k.concrete()
            if is_sym(k):
                raise Unsupported("groupby on a symbolic key")
            if out and out[-1][0] == k:
                out[-1][1].append(x)
            else:
                out.append((k, [x]))
        return out

    def m_hasattr(I, o, a):
        if isinstance(o, (list, tuple, dict, set)):
            return hasattr(o, a)
        if isinstance(o, (str, SStr)) or (is_sym(o) and z3.is_string(o)):
            return hasattr("", a)
        if isinstance(o, bool):
            return hasattr(True, a)
        if isinstance(o, int) or (is_sym(o) and z3.is_int(o)):
            return hasattr(0, a)
        if isinstance(o, Fraction) or (is_sym(o) and z3.is_real(o)):
            return hasattr(0.0, a)
        if o is None:
            return hasattr(None, a)
        raise Unsupported("hasattr on " + type(o).__name__)

    mods = {}
    for name, fn in (("re.match", m_match), ("re.findall", m_findall), ("builtins.float", m_float), ("scalar.is_integer", m_is_integer),
                     ("builtins.int", m_int), ("itertools.groupby", m_groupby), ("MatchVal.span", m_span), ("NumMatch.span", m_span)):
        mods[name] = ModelFn(name, fn)
    mods["RegexVal.match"] = ModelFn("RegexVal.match", lambda I, rx, s: m_match(I, rx, s))
    mods["RegexVal.findall"] = ModelFn("RegexVal.findall", lambda I, rx, s: m_findall(I, rx, s))
    from pyvc.libmodels import MODELS
    mods["NumMatch.groups"] = MODELS["MatchVal.groups"]
    mods["NumMatch.group"] = MODELS["MatchVal.group"]
    mods["_c15.hasattr"] = ModelFn("builtins.hasattr", m_hasattr)
    return mods


# ------------------------------------------------------------------------------------------------ interpreter subclass
def _strip_model(I, s, chars=None):
    """str.strip() for a line that starts with a rendered number: the number loses its left padding (numbers are right-aligned:
    no blanks on their right), literal ends are stripped as usual."""
    if isinstance(s, SStr) and chars is None and s.segs and isinstance(s.segs[0], Fmt) and len(s.segs) > 1:
        _pad_status(I, s.segs[0])       # validates the format spec
        rest = SStr(list(s.segs[1:]))
        last = rest.segs[-1]
        if isinstance(last, Lit):
            t = last.text.rstrip()
            segs = rest.segs[:-1] + ([Lit(t)] if t else [])
            while segs and isinstance(segs[-1], Lit) and not segs[-1].text.strip():
                segs.pop()
            if not all(isinstance(x, (Lit, Fmt)) or (isinstance(x, Sym) and x.lang == "noblank+") for x in segs[-1:]):
                raise Unsupported("strip: right end of unknown class")
        elif isinstance(last, Fmt) or (isinstance(last, Sym) and last.lang == "noblank+"):
            segs = rest.segs
        else:
            raise Unsupported("strip: right end of unknown class")
        return SStr.concat([s.segs[0].stripped()] + list(segs))
    return STR_METHODS["strip"](I, s) if chars is None else STR_METHODS["strip"](I, s, chars)


_NUMCHARS = set("0123456789.-+")


class CifInterp(Interp):
    """Stock interpreter + (a) membership of a rendered-number token in a dict of literal keys, (b) strip() of a line starting with a number."""

    def contains(self, container, item):
        if isinstance(container, dict) and isinstance(item, SStr) and not isinstance(item.concrete_or_self(), str) \
                and len(item.segs) == 1 and isinstance(item.segs[0], Fmt) and all(isinstance(k, str) for k in container):
            if all(any(ch not in _NUMCHARS for ch in k) or k == "" for k in container):
                return False            # a rendered number consists of digits, sign and point only
        return super().contains(container, item)

    def getattr(self, base, attr):
        if attr == "strip" and isinstance(base, SStr) and base.segs and isinstance(base.segs[0], Fmt) and len(base.segs) > 1:
            return BoundModel("str.strip(line starting with a rendered number)", _strip_model, base)
        return super().getattr(base, attr)


def make_interp(ctx, **kw):
    from pyvc import source
    models = make_models()
    models.update(kw.pop("models", {}))
    I = CifInterp(models=models, **kw)
    ctx._interps = getattr(ctx, "_interps", [])
    ctx._interps.append(I)
    mod = source.load_module("chmpy.fmt.cif")
    # `hasattr` is a special form of the engine that knows objects only; is_scalar applies it to lists and strings.  The REAL body of
    # is_scalar is executed, with the name `hasattr` bound to a model of the builtin.
    I.module_globals[("chmpy.fmt.cif", "is_scalar")] = FuncVal(mod, mod.functions["is_scalar"], closure={"hasattr": models["_c15.hasattr"]})
    return I


def word(name, first_len=None):
    """A symbolic string of the class 'plain word' (see module doc)."""
    s = Sym(z3.String(name), "noblank+")
    s.c15_word = True
    return s
