"""C12 — unit-cell geometry is self-consistent however the cell was specified (chmpy/crystal/unit_cell.py)."""
import ast
import time
from fractions import Fraction

import numpy as np
import z3

from pyvc.api import Contract, Interp, NDArr, Obj, cert, conj, farr, real_matrix, reals, shell, source
from pyvc.libmodels import ufun, _PI
from pyvc.values import to_real, z

MOD = "chmpy.crystal.unit_cell"

a, b, c = reals("len", 3)
al, be, ga = z3.Real("alpha"), z3.Real("beta"), z3.Real("gamma")
COS, SIN, ACOS = ufun("cos"), ufun("sin"), ufun("arccos")
ca, cb, cg = COS(al), COS(be), COS(ga)
sa, sb, sg = SIN(al), SIN(be), SIN(ga)
RAD = 1 - ca * ca - cb * cb - cg * cg + 2 * ca * cb * cg

# the statement's domain: positive lengths, angles strictly inside (0, pi) (sines positive), positive volume
PRE = [a > 0, b > 0, c > 0, sa > 0, sb > 0, sg > 0, RAD > 0,
       ca * ca + sa * sa == 1, cb * cb + sb * sb == 1, cg * cg + sg * sg == 1]


def unclip(term):
    """x for a term of the shape clip(x, -1, 1) = If(x < -1, -1, If(x > 1, 1, x)) as built by the numpy.clip model."""
    if z3.is_app_of(term, z3.Z3_OP_ITE):
        inner = term.arg(2)
        if z3.is_app_of(inner, z3.Z3_OP_ITE):
            return inner.arg(2)
    return None


def native_cells(seed, n=40):
    rng = np.random.default_rng(seed)
    out = []
    while len(out) < n:
        L = rng.uniform(1, 100, 3)
        A = rng.uniform(0.2, np.pi - 0.2, 3)
        ca_, cb_, cg_ = np.cos(A)
        if 1 - ca_ ** 2 - cb_ ** 2 - cg_ ** 2 + 2 * ca_ * cb_ * cg_ > 0.02:
            out.append((L, A))
    return out


def native_clause_failures(seed):
    """The same clauses, evaluated natively on generic cells (witness search for refuted obligations and bounded stand-in)."""
    from chmpy.crystal.unit_cell import UnitCell
    fails = {}
    n = 0
    for L, A in native_cells(seed):
        uc = UnitCell.from_lengths_and_angles(L, A)
        uc2 = UnitCell(uc.direct.copy())
        D, V = uc.direct, uc.inverse
        rows = {}
        rows["inverse"] = np.allclose(D @ V, np.eye(3), atol=1e-9) and np.allclose(V @ D, np.eye(3), atol=1e-9)
        rows["row_norms"] = np.allclose(np.linalg.norm(D, axis=1), L, rtol=1e-10)
        dots = [D[1] @ D[2], D[2] @ D[0], D[0] @ D[1]]
        rows["row_angles"] = np.allclose(dots, [L[1] * L[2] * np.cos(A[0]), L[2] * L[0] * np.cos(A[1]), L[0] * L[1] * np.cos(A[2])], rtol=1e-9, atol=1e-9)
        rows["volume"] = np.isclose(abs(np.linalg.det(D)), uc.volume(), rtol=1e-10)
        x = np.array([[0.3, -1.7, 2.2]])
        rows["roundtrip"] = np.allclose(uc.to_fractional(uc.to_cartesian(x)), x, atol=1e-9) and np.allclose(uc.to_cartesian(uc.to_fractional(x)), x, atol=1e-9) and \
            np.allclose(uc.to_fractional(uc.to_cartesian(x[0])), x[0], atol=1e-9) and np.allclose(uc.to_fractional(list(uc.to_cartesian(x[0]))), x[0], atol=1e-9) and \
            np.allclose(uc.to_fractional(x[0]), uc.to_fractional(x)[0], atol=1e-12) and np.allclose(uc.to_cartesian(x[0]), uc.to_cartesian(x)[0], atol=1e-12)
        star = [np.linalg.norm(V[:, i]) for i in range(3)]
        rows["star_lengths"] = np.allclose([uc.a_star, uc.b_star, uc.c_star], star, rtol=1e-9)
        cosang = lambda u, v: np.arccos(np.clip(u @ v / np.linalg.norm(u) / np.linalg.norm(v), -1, 1))
        rows["star_angles"] = np.allclose([uc.alpha_star, uc.beta_star, uc.gamma_star],
                                          [cosang(V[:, 1], V[:, 2]), cosang(V[:, 0], V[:, 2]), cosang(V[:, 0], V[:, 1])], atol=1e-8)
        rows["reciprocal"] = np.allclose(uc.reciprocal_lattice, V.T)
        rows["routes_agree"] = (np.allclose(uc2.lengths, L, rtol=1e-9) and np.allclose(uc2.angles, A, atol=1e-8) and np.allclose(uc2.direct, D)
                                and np.allclose(uc2.inverse, V, atol=1e-9) and np.isclose(uc2.volume(), uc.volume(), rtol=1e-9))
        rows["parameters"] = np.allclose(uc.parameters, list(L) + list(np.degrees(A)), rtol=1e-9)
        # the same cell given by vectors in another orientation (rigid rotation Q, an axis permutation of the Cartesian frame, a mirror image)
        q = np.random.default_rng(int(abs(L[0]) * 1e6) % (2 ** 31)).normal(size=4)
        q /= np.linalg.norm(q)
        w_, x_, y_, z_ = q
        Q = np.array([[1 - 2 * (y_ * y_ + z_ * z_), 2 * (x_ * y_ - z_ * w_), 2 * (x_ * z_ + y_ * w_)],
                      [2 * (x_ * y_ + z_ * w_), 1 - 2 * (x_ * x_ + z_ * z_), 2 * (y_ * z_ - x_ * w_)],
                      [2 * (x_ * z_ - y_ * w_), 2 * (y_ * z_ + x_ * w_), 1 - 2 * (x_ * x_ + y_ * y_)]])
        for Qk in (Q, Q[:, [1, 2, 0]], Q @ np.diag([1.0, 1.0, -1.0])):      # the last one is a mirror image: a left-handed set of lattice vectors (negative determinant)
            uc3 = UnitCell(D @ Qk)
            V3 = uc3.inverse
            star3 = [np.linalg.norm(V3[:, i]) for i in range(3)]
            ok3 = (np.allclose(uc3.lengths, L, rtol=1e-9) and np.allclose(uc3.angles, A, atol=1e-8) and np.isclose(uc3.volume(), uc.volume(), rtol=1e-9)
                   and np.allclose(uc3.direct @ V3, np.eye(3), atol=1e-9)
                   and np.allclose([uc3.a_star, uc3.b_star, uc3.c_star], star3, rtol=1e-9) and np.allclose(star3, star, rtol=1e-9)
                   and np.allclose([uc3.alpha_star, uc3.beta_star, uc3.gamma_star], [cosang(V3[:, 1], V3[:, 2]), cosang(V3[:, 0], V3[:, 2]), cosang(V3[:, 0], V3[:, 1])], atol=1e-8)
                   and np.allclose([np.linalg.norm(uc3.v_a_star), np.linalg.norm(uc3.v_b_star), np.linalg.norm(uc3.v_c_star)], star3, rtol=1e-9)
                   and np.allclose(uc3.to_fractional(uc3.to_cartesian(x)), x, atol=1e-9) and np.allclose(uc3.parameters, list(L) + list(np.degrees(A)), rtol=1e-8))
            rows["rotated_cell"] = rows.get("rotated_cell", True) and bool(ok3)
        # an EXISTING cell given new parameters (set_lengths_and_angles on a cell first built from integer-typed vectors, and on one of two cells built from the same
        # vector array): it becomes the cell with those parameters, and the other cell is not disturbed
        shared = np.diag([3, 4, 5])
        e1, e2 = UnitCell(shared), UnitCell(shared)
        keep2 = (np.array(e2.direct, dtype=float, copy=True), np.array(e2.inverse, dtype=float, copy=True))
        e1.set_lengths_and_angles(L, A)
        rows["reset_existing_cell"] = bool(np.allclose(np.asarray(e1.direct, dtype=float), D, rtol=1e-12, atol=1e-12) and np.allclose(np.asarray(e1.inverse, dtype=float), V, rtol=1e-9, atol=1e-12)
                                           and np.isclose(e1.volume(), uc.volume(), rtol=1e-12) and np.allclose(np.asarray(e2.direct, dtype=float), keep2[0])
                                           and np.allclose(np.asarray(e2.inverse, dtype=float), keep2[1]) and np.array_equal(shared, np.diag([3, 4, 5])))
        n += 1
        for k, ok in rows.items():
            if not ok and k not in fails:
                fails[k] = {"lengths": L.tolist(), "angles_rad": A.tolist()}
    return fails, n


def build(ctx):
    ctx.level = "proof"
    ctx.explanation = ("P: VCs from the real source of unit_cell.py executed on symbolic lengths and angles (cos/sin as uninterpreted functions "
                       "with cos^2+sin^2=1; sqrt by its defining equation), discharged by z3 NRA / cvc5 or by checked algebraic certificates. "
                       "F: _set_cell_type only assigns classification attributes. B: the same clauses evaluated natively on seeded generic cells.")
    ctx.assumptions += ["floats are reals", "cos^2+sin^2=1; arccos(cos(x)) = x on [0, pi]; sqrt(x)^2 = x for x >= 0 (real analysis)",
                        "numpy.linalg.inv returns the two-sided inverse of a non-singular matrix",
                        "domain: lengths > 0, angles strictly inside (0, pi), positive volume radicand"]
    mod = source.load_module(MOD)
    F = lambda n: ctx.fn(MOD, "UnitCell." + n)
    # ---- frame: _set_cell_type writes classification attributes only --------------------------------
    f_sct = F("_set_cell_type")
    allowed = {"cell_type_index", "cell_type", "unique_parameters", "unique_parameters_deg"}
    written = set()
    bad_nodes = []
    for node in ast.walk(f_sct.node):
        if isinstance(node, (ast.Assign, ast.AugAssign, ast.AnnAssign)):
            tg = node.targets if isinstance(node, ast.Assign) else [node.target]
            for t in tg:
                for el in (t.elts if isinstance(t, ast.Tuple) else [t]):
                    if isinstance(el, ast.Attribute) and isinstance(el.value, ast.Name) and el.value.id == "self":
                        written.add(el.attr)
                    elif not isinstance(el, ast.Name):
                        bad_nodes.append(ast.unparse(el))
        if isinstance(node, ast.Call) and isinstance(node.func, ast.Name) and node.func.id in ("setattr", "delattr"):
            bad_nodes.append(ast.unparse(node))
    ctx.ground("unit_cell.UnitCell._set_cell_type/assigns", written <= allowed and not bad_nodes, tag="F",
               clause="_set_cell_type assigns only cell_type_index, cell_type, unique_parameters, unique_parameters_deg (so it cannot disturb the geometry)",
               detail={"written": sorted(written), "other_stores": bad_nodes}, witness={"written": sorted(written - allowed), "other": bad_nodes}, fn=f_sct)

    skip = Contract(requires=None, ensures=None, result=lambda I2, self_: None)
    I = ctx.interp(contracts={MOD + ".UnitCell._set_cell_type": skip})
    UC = I.class_of(mod, "UnitCell")

    fails_native, n_native = native_clause_failures(ctx.seed)

    def replay_for(key):
        def replay(m):
            w = fails_native.get(key)
            return {"native_inputs": w, "reproduced": w is not None, "observed": f"clause '{key}' fails natively on this cell" if w else
                    f"clause '{key}' holds natively on {n_native} generic cells"}
        return replay

    # ---- route A: set_lengths_and_angles on symbolic parameters ----------------------------------------
    f_sla = F("set_lengths_and_angles")
    F("volume"), F("to_cartesian"), F("to_fractional"), F("reciprocal_lattice"), F("__init__"), F("set_vectors")
    for n in ("a_star", "b_star", "c_star", "alpha_star", "beta_star", "gamma_star", "a", "b", "c", "alpha", "beta", "gamma", "v_a_star", "v_b_star",
              "v_c_star", "from_lengths_and_angles", "cubic", "triclinic", "monoclinic", "tetragonal", "hexagonal", "rhombohedral", "orthorhombic"):
        try:
            F(n)
        except KeyError:       # (an accessor no longer written as a def of its own, e.g. generated by a property factory: it is reached through the functions that read it)
            ctx.notes.append(f"C12: UnitCell.{n} is not a function definition of its own in this tree")
    xs = reals("x", 3)

    def routeA(I2, _a, kw):
        uc = Obj(UC, {})
        I2.call(I2.getattr(uc, "set_lengths_and_angles"), [[a, b, c], [al, be, ga]])
        out = {"uc": uc, "D": uc.fields["direct"], "V": uc.fields["inverse"], "vol": I2.call(I2.getattr(uc, "volume"), [])}
        out["cart"] = I2.call(I2.getattr(uc, "to_cartesian"), [farr([xs])])
        out["frac_of_cart"] = I2.call(I2.getattr(uc, "to_fractional"), [out["cart"]])
        out["cart_of_frac"] = I2.call(I2.getattr(uc, "to_cartesian"), [I2.call(I2.getattr(uc, "to_fractional"), [farr([xs])])])
        out["frac_1d"] = I2.call(I2.getattr(uc, "to_fractional"), [farr(xs)])          # a single point given as a (3,) vector
        out["frac_2d"] = I2.call(I2.getattr(uc, "to_fractional"), [farr([xs])])
        out["cart_1d"] = I2.call(I2.getattr(uc, "to_cartesian"), [farr(xs)])
        out["recip"] = I2.getattr(uc, "reciprocal_lattice")
        for nm in ("a_star", "b_star", "c_star", "alpha_star", "beta_star", "gamma_star"):
            out[nm] = I2.getattr(uc, nm)
        out["vstar"] = [I2.getattr(uc, nm) for nm in ("v_a_star", "v_b_star", "v_c_star")]
        out["lengths"] = [I2.getattr(uc, nm) for nm in ("a", "b", "c")]
        out["angles"] = [I2.getattr(uc, nm) for nm in ("alpha", "beta", "gamma")]
        return out

    def ob_routeA():
        res = I.explore(routeA, pre=PRE)
        assert len(res) == 1 and res[0].kind == "return", [(r.kind, r.value) for r in res]
        r = res[0]
        o = r.value
        D, V = o["D"].data, o["V"].data
        H = r.pc
        lab = "unit_cell.UnitCell.set_lengths_and_angles/ensures/"
        eye = lambda i, j: 1 if i == j else 0
        ctx.prove(lab + "direct_times_inverse", H, conj([sum(D[i, k] * V[k, j] for k in range(3)) == eye(i, j) for i in range(3) for j in range(3)]),
                  clause="direct . inverse == identity", algebra=True, replay=replay_for("inverse"), fn=f_sla)
        ctx.prove(lab + "inverse_times_direct", H, conj([sum(V[i, k] * D[k, j] for k in range(3)) == eye(i, j) for i in range(3) for j in range(3)]),
                  clause="inverse . direct == identity", algebra=True, replay=replay_for("inverse"), fn=f_sla)
        L = [a, b, c]
        ctx.prove(lab + "row_norms", H, conj([sum(D[i, k] * D[i, k] for k in range(3)) == L[i] * L[i] for i in range(3)]),
                  clause="|lattice vector i| == length i", algebra=True, replay=replay_for("row_norms"), fn=f_sla)
        dot = lambda i, j: sum(D[i, k] * D[j, k] for k in range(3))
        ctx.prove(lab + "row_angles", H, conj([dot(1, 2) == b * c * ca, dot(2, 0) == c * a * cb, dot(0, 1) == a * b * cg]),
                  clause="b.c = |b||c|cos(alpha), c.a = |c||a|cos(beta), a.b = |a||b|cos(gamma)", algebra=True, replay=replay_for("row_angles"), fn=f_sla)
        from pyvc.libmodels import det3
        ctx.prove("unit_cell.UnitCell.volume/ensures/determinant", H, z3.And(det3(D.tolist()) == o["vol"], o["vol"] > 0),
                  clause="volume() == det(direct) > 0", algebra=True, replay=replay_for("volume"), fn=F("volume"))
        ctx.prove("unit_cell.UnitCell.to_fractional/ensures/inverse_of_to_cartesian", H,
                  conj([o["frac_of_cart"].data[0, i] == xs[i] for i in range(3)] + [o["cart_of_frac"].data[0, i] == xs[i] for i in range(3)]),
                  clause="to_fractional(to_cartesian(x)) == x and to_cartesian(to_fractional(x)) == x", algebra=True, replay=replay_for("roundtrip"), fn=F("to_fractional"))
        ctx.prove("unit_cell.UnitCell.to_cartesian/ensures/spec", H, conj([o["cart"].data[0, i] == sum(xs[k] * D[k, i] for k in range(3)) for i in range(3)]),
                  clause="to_cartesian(x) == x . direct", algebra=True, replay=replay_for("roundtrip"), fn=F("to_cartesian"))
        ctx.prove("unit_cell.UnitCell.reciprocal_lattice/ensures/transpose", H, conj([o["recip"].data[i, j] == V[j, i] for i in range(3) for j in range(3)]),
                  clause="reciprocal_lattice == inverse^T", algebra=True, replay=replay_for("reciprocal"), fn=F("reciprocal_lattice"))
        ctx.prove("unit_cell.UnitCell.lengths_angles/ensures/reported", H,
                  conj([o["lengths"][i] == L[i] for i in range(3)] + [o["angles"][i] == [al, be, ga][i] for i in range(3)]),
                  clause="a,b,c,alpha,beta,gamma report the parameters the cell was built from", fn=f_sla)
        # a single point given as a (3,) vector is converted like a one-row array
        f1, f2, c1, c2 = o["frac_1d"], o["frac_2d"], o["cart_1d"], o["cart"]
        shp = isinstance(f1, NDArr) and isinstance(c1, NDArr) and tuple(f1.shape) == (3,) and tuple(c1.shape) == (3,)
        ctx.prove("unit_cell.UnitCell.to_fractional/ensures/single_point", H, conj([z3.BoolVal(bool(shp))] + ([z(f1.data[k]) == z(f2.data[0, k]) for k in range(3)] +
                  [z(c1.data[k]) == z(c2.data[0, k]) for k in range(3)] if shp else [])),
                  clause="to_fractional / to_cartesian of a (3,) vector equal row 0 of the result for the (1,3) array holding it", algebra=False, replay=replay_for("roundtrip"), fn=F("to_fractional"))
        # reciprocal lengths: x* = |column of inverse|
        col2 = lambda j: sum(V[k, j] * V[k, j] for k in range(3))
        for j, nm in enumerate(("a_star", "b_star", "c_star")):
            ctx.prove(f"unit_cell.UnitCell.{nm}/ensures/column_norm", H, z3.And(o[nm] * o[nm] == col2(j), o[nm] > 0),
                      clause=f"{nm} == |inverse[:, {j}]|", algebra=True, replay=replay_for("star_lengths"), fn=F(nm))
            ctx.prove(f"unit_cell.UnitCell.v_{nm}/ensures/column", H, conj([o["vstar"][j].data[k] == V[k, j] for k in range(3)]),
                      clause="reciprocal vector is the column of inverse", fn=F("v_" + nm))
        # reciprocal angles: the argument of arccos is the cosine between the reciprocal vectors
        cdot = lambda i, j: sum(V[k, i] * V[k, j] for k in range(3))
        pairs = {"alpha_star": (1, 2, "b_star", "c_star"), "beta_star": (0, 2, "a_star", "c_star"), "gamma_star": (0, 1, "a_star", "b_star")}
        for nm, (i, j, n1, n2) in pairs.items():
            term = o[nm]
            if not (z3.is_app(term) and term.decl().name() == "py_arccos"):
                ctx.undecided(f"unit_cell.UnitCell.{nm}/ensures/cosine", f"result is not arccos(...): {term.decl().name()}")
                continue
            arg = term.arg(0)
            ctx.prove(f"unit_cell.UnitCell.{nm}/ensures/cosine", H, arg * o[n1] * o[n2] == cdot(i, j),
                      clause=f"cos({nm}) |{n1}||{n2}| == reciprocal vector {i} . reciprocal vector {j}", algebra=True, replay=replay_for("star_angles"), fn=F(nm))
        ctx.safety("unit_cell.UnitCell.set_lengths_and_angles", res, fn=f_sla)
        return r, o
    rA = ctx.attempt("unit_cell.UnitCell.set_lengths_and_angles/ensures", ob_routeA)

    # ---- route B: set_vectors on a general non-singular matrix ---------------------------------------------
    Dm = real_matrix("D", 3, 3)
    f_sv = F("set_vectors")
    from pyvc.libmodels import det3
    preB = [det3(Dm) != 0] + [sum(Dm[i][k] * Dm[i][k] for k in range(3)) > 0 for i in range(3)]

    def routeB(I2, _a, kw):
        uc = I2.instantiate(UC, [farr(Dm)], {})
        return uc

    def ob_routeB():
        res = I.explore(routeB, pre=preB)
        assert len(res) == 1 and res[0].kind == "return", [(r.kind, r.value) for r in res]
        r = res[0]
        uc = r.value
        H = r.pc
        lab = "unit_cell.UnitCell.set_vectors/ensures/"
        L = uc.fields["lengths"]
        A = uc.fields["angles"]
        V = uc.fields["inverse"].data
        D = uc.fields["direct"].data
        ctx.prove(lab + "direct_is_argument", H, conj([D[i, j] == Dm[i][j] for i in range(3) for j in range(3)]), clause="direct == the given vectors", fn=f_sv)
        ctx.prove(lab + "lengths", H, conj([z3.And(L[i] * L[i] == sum(Dm[i][k] * Dm[i][k] for k in range(3)), L[i] > 0) for i in range(3)]),
                  clause="lengths[i] == |row i|", algebra=True, replay=replay_for("routes_agree"), fn=f_sv)
        dot = lambda i, j: sum(Dm[i][k] * Dm[j][k] for k in range(3))
        pairs = [(1, 2), (2, 0), (0, 1)]
        for k, (i, j) in enumerate(pairs):
            t = A[k]
            ok = z3.is_app(t) and t.decl().name() == "py_arccos"
            if not ok:
                ctx.undecided(lab + f"angle{k}", "angle is not arccos(...)")
                continue
            x = unclip(t.arg(0))    # angle = arccos(clip(x, -1, 1))
            if x is None:
                ctx.prove(lab + f"angle{k}", H, z3.BoolVal(False), clause="angle is arccos(clip(cosine, -1, 1))", replay=replay_for("routes_agree"), fn=f_sv)
                continue
            ctx.prove(lab + f"angle{k}", H, x * (L[i] * L[j]) == dot(i, j), clause=f"angles[{k}] == arccos(clip(row{i}.row{j} / (|row{i}||row{j}|), -1, 1))  (alpha: b,c; beta: c,a; gamma: a,b)",
                      algebra=True, replay=replay_for("routes_agree"), fn=f_sv)
        eye = lambda i, j: 1 if i == j else 0
        ctx.prove(lab + "inverse", H, conj([sum(Dm[i][k] * V[k, j] for k in range(3)) == eye(i, j) for i in range(3) for j in range(3)]),
                  clause="direct . inverse == identity (from the inv contract)", algebra=True, replay=replay_for("inverse"), fn=f_sv)
        ctx.safety("unit_cell.UnitCell.set_vectors", res, fn=f_sv)
    ctx.attempt("unit_cell.UnitCell.set_vectors/ensures", ob_routeB)

    # ---- both routes give the same geometry: UnitCell(direct of route A) recovers route A's parameters -------------
    def ob_agree():
        def thunk(I2, _a, kw):
            ucA = Obj(UC, {})
            I2.call(I2.getattr(ucA, "set_lengths_and_angles"), [[a, b, c], [al, be, ga]])
            ucB = I2.instantiate(UC, [ucA.fields["direct"]], {})
            return ucA, ucB, I2.call(I2.getattr(ucA, "volume"), []), I2.call(I2.getattr(ucB, "volume"), [])
        res = I.explore(thunk, pre=PRE)
        assert len(res) == 1 and res[0].kind == "return"
        r = res[0]
        ucA, ucB, volA, volB = r.value
        H = r.pc
        LB, AB = ucB.fields["lengths"], ucB.fields["angles"]
        lab = "unit_cell.UnitCell/ensures/routes_agree/"
        ctx.prove(lab + "lengths", H, conj([LB[i] == [a, b, c][i] for i in range(3)]), clause="UnitCell(direct_A).lengths == lengths_A",
                  algebra=True, replay=replay_for("routes_agree"), fn=f_sv)
        for k, cosk in enumerate((ca, cb, cg)):
            t = AB[k]
            x = unclip(t.arg(0)) if (z3.is_app(t) and t.decl().name() == "py_arccos") else None
            if x is None:
                ctx.prove(lab + f"angle{k}", H, z3.BoolVal(False), clause="angle is arccos(clip(cosine, -1, 1))", replay=replay_for("routes_agree"), fn=f_sv)
                continue
            ctx.prove(lab + f"angle{k}", H + [LB[i] == [a, b, c][i] for i in range(3)], x == cosk, clause="UnitCell(direct_A).angles[k] == arccos(clip(cos(angle_A[k]))) (== angle_A[k] on [0,pi], assumed)",
                      algebra=True, replay=replay_for("routes_agree"), fn=f_sv)
            ctx.prove(lab + f"angle{k}/in_clip_range", [cosk * cosk + (sa, sb, sg)[k] * (sa, sb, sg)[k] == 1], z3.And(cosk >= -1, cosk <= 1),
                      clause="the clip is the identity on a cosine", fn=f_sv)
        # the inverses agree by uniqueness of the two-sided inverse (lemma below) applied to direct_times_inverse (route A) and the inv contract (route B)
    ctx.attempt("unit_cell.UnitCell/ensures/routes_agree", ob_agree)

    X, Y, Dd = real_matrix("X", 3, 3), real_matrix("Y", 3, 3), real_matrix("M", 3, 3)
    hy = [sum(X[i][k] * Dd[k][j] for k in range(3)) - (1 if i == j else 0) for i in range(3) for j in range(3)] + \
         [sum(Dd[i][k] * Y[k][j] for k in range(3)) - (1 if i == j else 0) for i in range(3) for j in range(3)]
    r = ctx.prove_identity("lemma/inverse_unique", [X[i][j] - Y[i][j] for i in range(3) for j in range(3)], hy,
                           clause="X.M = 1 and M.Y = 1 imply X = Y: the inverse computed by route B equals route A's closed form")
    r.tag = "L"
    # G: UnitCell.parameters under every pattern of coincident lengths / angles (5 x 5 set partitions): the reported values are the cell's own
    from chmpy.crystal.unit_cell import UnitCell as _UC
    parts = [(0, 1, 2), (0, 0, 1), (0, 1, 0), (0, 1, 1), (0, 0, 0)]
    badp = []
    for pl in parts:
        for pa in parts:
            Lv = [[5.1, 6.7, 8.3][k] for k in pl]
            Av = [[1.35, 1.52, 1.71][k] for k in pa]
            ca_, cb_, cg_ = np.cos(Av)
            if 1 - ca_ ** 2 - cb_ ** 2 - cg_ ** 2 + 2 * ca_ * cb_ * cg_ <= 0.01:
                continue
            got = np.asarray(_UC.from_lengths_and_angles(Lv, Av).parameters, dtype=float)
            want = np.array(Lv + list(np.degrees(Av)))
            if not np.allclose(got, want, rtol=0, atol=1e-9):
                badp.append({"lengths": Lv, "angles_rad": Av, "parameters": got.tolist(), "expected": want.tolist()})
    ctx.ground("unit_cell.UnitCell.parameters/equality_patterns", not badp, clause="for every pattern of equal / distinct lengths and of equal / distinct angles, parameters reports (a, b, c, alpha, beta, gamma in degrees) of the cell",
               detail=badp[:3], witness=badp[:2], fn=F("parameters"))
    constructors(ctx, I, UC)
    nfail = [{"input": w, "observed": f"clause '{k}' violated", "clause": k, "key": k} for k, w in fails_native.items()]
    # F: the scalar reciprocal quantities are computed from orientation-free data (lengths, angles, volume): what is proved for the standard orientation
    #     (route A) then holds for the same cell in any orientation (route B proves lengths and angles are those of the given vectors)
    orient_free = {"a", "b", "c", "alpha", "beta", "gamma", "lengths", "angles", "volume", "a_star", "b_star", "c_star"}
    for nm in ("a_star", "b_star", "c_star", "alpha_star", "beta_star", "gamma_star"):
        reads = {n_.attr for n_ in ast.walk(F(nm).node) if isinstance(n_, ast.Attribute) and isinstance(n_.value, ast.Name) and n_.value.id == "self"}

        def fb(nm=nm):
            w = fails_native.get("rotated_cell")
            return None if w is None else {"input": dict(w, orientation="rigidly rotated lattice vectors"), "observed": "reciprocal geometry of the rotated cell differs from the cell's own inverse matrix"}
        ctx.pattern(f"unit_cell.UnitCell.{nm}/reads/orientation_free", reads <= orient_free, fallback=fb, fn=F(nm), detail={"reads": sorted(reads)},
                    clause=f"{nm} is computed from lengths, angles and volume only (no entry of a matrix that depends on the orientation of the lattice vectors)")
    ctx.add_bounded("unit_cell.UnitCell/bounded/native_clauses", "seeded generic cells: lengths 1..100, angles 0.2..pi-0.2, radicand > 0.02; 10 clauses each + the same cell given by rigidly "
                    "rotated / axis-permuted lattice vectors (lengths, angles, volume, inverse, reciprocal lengths and angles, parameters)",
                    n_native * 11, n_native, nfail, rule="distinct random cells")


def constructors(ctx, I, UC):
    """Each named constructor reaches the setters with the lengths/angles its name promises, in radians."""
    p, q, r3, th = z3.Real("p"), z3.Real("q"), z3.Real("r"), z3.Real("theta")
    half_pi = _PI / 2
    deg = lambda x: x * _PI / 180

    def run(name, args, kwargs, pre):
        def thunk(I2, _a, kw):
            return I2.call(I2.getattr(UC, name), list(args), dict(kwargs))
        return I.explore(thunk, pre=pre)

    def replay_ctor(name, nat_args, nat_kwargs, exp_len, exp_ang):
        def replay(m):
            from chmpy.crystal.unit_cell import UnitCell
            uc = getattr(UnitCell, name)(*nat_args, **nat_kwargs)
            bad = not (np.allclose(uc.lengths, exp_len) and np.allclose(uc.angles, exp_ang))
            return {"native_inputs": {"constructor": name, "args": list(nat_args), "kwargs": nat_kwargs}, "reproduced": bad,
                    "observed": {"lengths": [float(x) for x in uc.lengths], "angles": [float(x) for x in uc.angles], "expected_lengths": exp_len, "expected_angles": exp_ang}}
        return replay
    cases = [
        ("triclinic", (p, q, r3, th, th + 0.1, th + 0.2), {}, [p, q, r3], [th, th + 0.1, th + 0.2],
         ((3.0, 4.0, 5.0, 1.2, 1.3, 1.4), {}, [3, 4, 5], [1.2, 1.3, 1.4])),
        ("triclinic", (p, q, r3, th, th + 1, th + 2), {"unit": "degrees"}, [p, q, r3], [deg(th), deg(th + 1), deg(th + 2)],
         ((3.0, 4.0, 5.0, 70.0, 80.0, 95.0), {"unit": "degrees"}, [3, 4, 5], list(np.radians([70, 80, 95])))),
        ("monoclinic", (p, q, r3, th), {}, [p, q, r3], [half_pi, th, half_pi], ((3.0, 4.0, 5.0, 1.9), {}, [3, 4, 5], [np.pi / 2, 1.9, np.pi / 2])),
        ("monoclinic", (p, q, r3, th), {"unit": "degrees"}, [p, q, r3], [deg(90), deg(th), deg(90)],
         ((3.0, 4.0, 5.0, 101.0), {"unit": "degrees"}, [3, 4, 5], [np.pi / 2, np.radians(101), np.pi / 2])),
        ("tetragonal", (p, r3), {}, [p, p, r3], [half_pi] * 3, ((3.0, 5.0), {}, [3, 3, 5], [np.pi / 2] * 3)),
        ("tetragonal", (p, r3), {"unit": "degrees"}, [p, p, r3], [deg(90)] * 3, ((3.0, 5.0), {"unit": "degrees"}, [3, 3, 5], [np.pi / 2] * 3)),
        ("hexagonal", (p, r3), {}, [p, p, r3], [half_pi, half_pi, 2 * _PI / 3], ((3.0, 5.0), {}, [3, 3, 5], [np.pi / 2, np.pi / 2, 2 * np.pi / 3])),
        ("hexagonal", (p, r3), {"unit": "degrees"}, [p, p, r3], [half_pi, half_pi, 2 * _PI / 3],
         ((3.0, 5.0), {"unit": "degrees"}, [3, 3, 5], [np.pi / 2, np.pi / 2, 2 * np.pi / 3])),
        ("rhombohedral", (p, th), {}, [p, p, p], [th, th, th], ((3.0, 1.1), {}, [3, 3, 3], [1.1] * 3)),
        ("rhombohedral", (p, th), {"unit": "degrees"}, [p, p, p], [deg(th)] * 3, ((3.0, 63.0), {"unit": "degrees"}, [3, 3, 3], [np.radians(63)] * 3)),
        ("from_lengths_and_angles", ([p, q, r3], [th, th + 0.1, th + 0.2]), {}, [p, q, r3], [th, th + 0.1, th + 0.2],
         (([3.0, 4.0, 5.0], [1.2, 1.3, 1.4]), {}, [3, 4, 5], [1.2, 1.3, 1.4])),
        ("from_lengths_and_angles", ([p, q, r3], [th, th + 1, th + 2]), {"unit": "degrees"}, [p, q, r3], [deg(th), deg(th + 1), deg(th + 2)],
         (([3.0, 4.0, 5.0], [70.0, 80.0, 95.0]), {"unit": "degrees"}, [3, 4, 5], list(np.radians([70, 80, 95])))),
    ]
    pre = [p > 0, q > 0, r3 > 0, th > 0]
    for name, args, kwargs, exp_len, exp_ang, nat in cases:
        tag = f"unit_cell.UnitCell.{name}/{'degrees' if kwargs.get('unit') == 'degrees' else 'radians'}/ensures/parameters"

        def ob(name=name, args=args, kwargs=kwargs, exp_len=exp_len, exp_ang=exp_ang, nat=nat, tag=tag):
            res = run(name, args, kwargs, pre)
            rep = replay_ctor(name, *nat)
            for k, r in enumerate(res):
                sfx = f"/path{k}" if len(res) > 1 else ""
                if r.kind != "return":
                    ctx.prove(tag + sfx, r.pc, z3.BoolVal(False), clause="constructor returns normally on valid parameters", replay=rep,
                              fn=ctx.fn(MOD, "UnitCell." + name))
                    continue
                uc = r.value
                L = list(uc.fields["lengths"]) if not isinstance(uc.fields["lengths"], NDArr) else uc.fields["lengths"].flat()
                A = list(uc.fields["angles"]) if not isinstance(uc.fields["angles"], NDArr) else uc.fields["angles"].flat()
                ctx.prove(tag + sfx, r.pc, conj([z(to_real(L[i])) == z(to_real(exp_len[i])) for i in range(3)] + [z(to_real(A[i])) == z(to_real(exp_ang[i])) for i in range(3)]),
                          clause=f"{name}{'(unit=degrees)' if kwargs else ''}: the cell's lengths and angles (radians) are the ones the constructor's name promises",
                          replay=rep, fn=ctx.fn(MOD, "UnitCell." + name))
        ctx.attempt(tag, ob)
    # cubic / orthorhombic go through set_vectors with a diagonal matrix
    for name, args, diag, nat in (("cubic", (p,), [p, p, p], ((4.0,), [4, 4, 4])), ("orthorhombic", (p, q, r3), [p, q, r3], ((3.0, 4.0, 5.0), [3, 4, 5]))):
        tag = f"unit_cell.UnitCell.{name}/ensures/diagonal"

        def ob2(name=name, args=args, diag=diag, nat=nat, tag=tag):
            res = run(name, args, {}, pre)

            def rep(m):
                from chmpy.crystal.unit_cell import UnitCell
                uc = getattr(UnitCell, name)(*nat[0])
                bad = not (np.allclose(uc.direct, np.diag(nat[1])) and np.allclose(uc.lengths, nat[1]) and np.allclose(uc.angles, [np.pi / 2] * 3))
                return {"native_inputs": {"constructor": name, "args": list(nat[0])}, "reproduced": bad, "observed": {"direct": uc.direct.tolist()}}
            for k, r in enumerate(res):
                uc = r.value
                D = uc.fields["direct"].data
                L = uc.fields["lengths"]
                goal = [D[i, j] == (diag[i] if i == j else 0) for i in range(3) for j in range(3)] + [L[i] == diag[i] for i in range(3)]
                # right angles: arccos(clip(0))
                for t in uc.fields["angles"]:
                    goal.append(t.arg(0) == 0 if (z3.is_app(t) and t.decl().name() == "py_arccos") else z3.BoolVal(False))
                ctx.prove(tag, r.pc, conj(goal), clause=f"{name}: direct == diag(lengths), lengths as given, all cosines zero", replay=rep,
                          fn=ctx.fn(MOD, "UnitCell." + name))
        ctx.attempt(tag, ob2)
