"""C04 — unit-cell molecules partition the cell into whole, symmetry-related molecules (crystal/crystal.py)."""
import ast
import contextlib
import io
import time
from fractions import Fraction

import numpy as np
import z3

from pyvc import frames
from pyvc.api import Contract, Interp, NDArr, Obj, conj, farr, iarr, real_matrix, reals, shell, source
from pyvc.symex import Frame, ModelFn as _MF
from pyvc.values import PyRaise, Unsupported, z, to_real, num_cmp

from contracts.gen_crystals import MOLS, molecular_crystal

CR = "chmpy.crystal.crystal"


# ------------------------------------------------------------------------------------------------------- run-time contract
def molecule_contract(c, info):
    """All clauses of the statement evaluated on one generated crystal; returns a failure dict or None."""
    from chmpy import Element
    uc = c.unit_cell_atoms()
    n_uc = len(uc["frac_pos"])
    mols = c.unit_cell_molecules()
    D = c.unit_cell.direct
    nops = len(c.space_group.symmetry_operations)
    kinds = info["molecules"]
    problems = []
    # partition
    owner = np.concatenate([m.properties["unit_cell_atoms"] for m in mols]) if mols else np.array([], dtype=int)
    if sorted(owner.tolist()) != list(range(n_uc)):
        problems.append({"partition": {"atoms_assigned": int(len(owner)), "distinct": int(len(set(owner.tolist()))), "unit_cell_atoms": n_uc}})
    # number
    if len(mols) != len(kinds) * nops:
        problems.append({"count": len(mols), "expected": len(kinds) * nops})
    sizes = sorted(len(MOLS[k][0]) for k in kinds)
    ref_geom = {}
    start = 0
    for k in kinds:
        n = len(MOLS[k][0])
        idx = list(range(start, start + n))
        ideal = MOLS[k][1]        # the rigid molecule the asymmetric unit was built from (sites may be listed as symmetry images of it)
        ref_geom[tuple(idx)] = np.linalg.norm(ideal[:, None, :] - ideal[None, :, :], axis=2)
        start += n
    for mi, m in enumerate(mols):
        ua = np.asarray(m.properties["unit_cell_atoms"])
        aa = np.asarray(m.properties["asymmetric_unit_atoms"])
        fr = c.to_fractional(m.positions)
        # each atom is a lattice translate of its unit-cell site, with the site's element
        shift = fr - uc["frac_pos"][ua]
        if np.abs(shift - np.round(shift)).max() > 1e-6 or list(m.atomic_numbers) != list(uc["element"][ua]) or list(uc["asym_atom"][ua]) != list(aa):
            problems.append({"molecule": mi, "not_lattice_translates_or_wrong_bookkeeping": True})
            break
        # whole: internal geometry equals the asymmetric-unit parent's (atoms are sorted by asymmetric-unit index)
        key = tuple(int(v) for v in aa)
        if key not in ref_geom:
            problems.append({"molecule": mi, "asym_atoms": list(key), "not_a_parent_molecule": True})
            break
        dm = np.linalg.norm(m.positions[:, None, :] - m.positions[None, :, :], axis=2)
        if np.abs(dm - ref_geom[key]).max() > 1e-6:
            problems.append({"molecule": mi, "internal_geometry_differs_by": float(np.abs(dm - ref_geom[key]).max())})
            break
        # generator operations really map the parent site onto this atom (modulo the lattice)
        for a_, code, f_ in zip(aa, m.properties["generator_symop"], fr):
            from chmpy.crystal.symmetry_operation import SymmetryOperation
            img = SymmetryOperation.from_integer_code(int(code)).apply(c.asymmetric_unit.positions[a_][None, :])[0]
            dlt = f_ - img
            if np.abs(dlt - np.round(dlt)).max() > 1e-6:
                problems.append({"molecule": mi, "generator_symop_does_not_map_parent_to_atom": int(code)})
                break
        com = c.to_fractional(m.center_of_mass)
        if com.min() < -1e-9 or com.max() >= 1 + 1e-9:
            problems.append({"molecule": mi, "centre_of_mass_outside_cell": com.tolist()})
            break
    # symmetry-unique molecules
    if not problems:
        uniq = c.symmetry_unique_molecules()
        cover = np.concatenate([u.properties["asymmetric_unit_atoms"] for u in uniq])
        if sorted(cover.tolist()) != list(range(len(c.asymmetric_unit))):
            problems.append({"unique_cover": sorted(cover.tolist())})
        for mi, m in enumerate(c.unit_cell_molecules()):
            lab = m.properties.get("asym_mol_idx")
            if lab is None or not (0 <= lab < len(uniq)) or list(uniq[lab].properties["asymmetric_unit_atoms"]) != list(m.properties["asymmetric_unit_atoms"]):
                problems.append({"molecule": mi, "asym_mol_idx": lab})
                break
    if problems:
        return {"input": info, "observed": problems[:3], "clause": "unit-cell molecules partition the cell, are whole lattice translates with the parent's geometry, "
                "have their centre of mass in the cell, number Z' x |G|; unique molecules cover the asymmetric unit once and label every unit-cell molecule", "key": "molecules"}
    return None


def build(ctx):
    ctx.level = "other"
    ctx.explanation = ("P: the unwrapping loop of unit_cell_molecules on symbolic instances (3 unit-cell atoms, symbolic integer edge cells, both predecessor orientations): for every "
                       "stored edge (i<j, cell) of the component shift_j - shift_i == cell, i.e. bonded atoms sit at their bonding image after unwrapping; every array handed to "
                       "Molecule.from_arrays is indexed by the same node order; the recentring translation is an integer lattice vector that puts the centre of mass in [0,1) "
                       "(for centres above -7 cells, a stated precondition); unit_cell_connectivity itself executed on symbolic two-atom instances with an exact model of the KD-tree query (stored edges are exactly the "
                       "bonded pairs i<j with the length and cell of the bonding image, also under a caller-supplied radius override); Molecule.translated returns a fresh shifted copy; "
                       "symmetry_unique_molecules compares atom lists with a shape-safe equality. The graph-theoretic content (partition, wholeness, count) needs scipy's "
                       "csgraph and KD-tree and is a bounded stand-in on generated molecular crystals (B).")
    ctx.assumptions += ["scipy csgraph.connected_components / breadth_first_order (each node of the component once, predecessor earlier in the order), cKDTree exactness",
                        "floats are reals; molecules do not bond to their own periodic image; contacts clearly longer than the bonding threshold (statement)",
                        "centre of mass above -7 cells before recentring (np.fmod(x + 7, 1) is used)"]
    mod = source.load_module(CR)
    f_ucm = ctx.fn(CR, "Crystal.unit_cell_molecules")
    f_ucc = ctx.fn(CR, "Crystal.unit_cell_connectivity")
    f_sum = ctx.fn(CR, "Crystal.symmetry_unique_molecules")

    # ----------------------------------------------------------------- F: syntactic conventions in unit_cell_connectivity
    src = ast.unparse(f_ucc.node)
    checks = {
        "in-cell edges keyed (i, j) with i < j and cell (0,0,0)": "if not i < j:\n            continue" in src and "uc_edges.append((i, j, d, (0, 0, 0)))" in src,
        "neighbour atoms reduced modulo n_uc": "uc_idx = neighbour_atom % n_uc" in src,
        "neighbour edges keyed (uc_atom, uc_idx) with uc_atom < uc_idx": "if not uc_atom < uc_idx:\n            continue" in src and "uc_edges.append((uc_atom, uc_idx, d, tuple(cell)))" in src,
        "cell of a neighbour edge is the neighbour's slab cell": "cell = cells[neighbour_atom]" in src and "cells = slab['cell'][n_uc:]" in src,
        "neighbour block starts after the reference cell (cell (0,0,0) is first in the slab)": "neighbour_pos = slab['frac_pos'][n_uc:]" in src and "uc_pos = slab['frac_pos'][:n_uc]" in src,
        "bond criterion d > 1e-3 and d < r_i + r_j + tolerance (both loops)": src.count("d > 0.001 and d < covalent_radii[") == 2,
    }
    def conv_fallback():
        r_ = fixed_native_cases()
        return None if not r_["reproduced"] else {"input": r_["native_inputs"], "observed": r_["observed"]}
    for lab_, (k, ok) in zip(("incell_edges", "modulo_n_uc", "neighbour_edges", "edge_cell", "neighbour_block", "bond_criterion"), checks.items()):
        ctx.pattern("crystal.Crystal.unit_cell_connectivity/convention/" + lab_, ok, clause=k, fn=f_ucc, fallback=conv_fallback)
    # slab orders cells by |h|,|k|,|l| so that (0,0,0) is the first block: G over the fixed bounds used
    from chmpy.util.num import cartesian_product
    h = np.arange(-1, 2)
    cells = cartesian_product(h[np.argsort(np.abs(h))], h[np.argsort(np.abs(h))], h[np.argsort(np.abs(h))])
    ctx.ground("crystal.Crystal.slab/reference_cell_first", tuple(cells[0]) == (0, 0, 0) and len({tuple(x) for x in cells}) == 27,
               clause="for bounds ((-1,-1,-1),(1,1,1)) the first slab block is the reference cell and the 27 cells are distinct", detail=cells[:3].tolist())
    # symmetry_unique_molecules: shape-safe comparison
    cmp_nodes = [n for n in ast.walk(f_sum.node) if isinstance(n, ast.Compare) and "properties[ak]" in ast.unparse(n)]
    safe = not cmp_nodes and "np.array_equal(mol.properties[ak], asym_mol.properties[ak])" in ast.unparse(f_sum.node)

    def cocrystal_replay(m=None):
        rng = np.random.default_rng(4)
        c, info = molecular_crystal(rng, 19, "", ["water", "h2co"])
        try:
            c.symmetry_unique_molecules()
            return {"native_inputs": info, "reproduced": False, "observed": "labelling succeeded"}
        except Exception as e:  # noqa
            return {"native_inputs": info, "reproduced": True, "observed": repr(e)[:200]}
    def shapes_fallback():
        r_ = cocrystal_replay()
        return None if not r_["reproduced"] else {"input": r_["native_inputs"], "observed": r_["observed"]}
    ctx.pattern("crystal.Crystal.symmetry_unique_molecules/labelling.shapes", safe,
                clause="atom lists of two molecules are compared with a shape-safe equality (numpy == raises or broadcasts for lists of different length)",
                detail=[ast.unparse(n) for n in cmp_nodes], fn=f_sum, fallback=shapes_fallback)

    translated_copy(ctx)
    unwrap_instances(ctx, mod)
    connectivity_instances(ctx, mod, lambda m=None: fixed_native_cases())
    bounded(ctx)


def fixed_native_cases():
    rng = np.random.default_rng(11)
    for setting, kinds, sc in (((14, "b1"), ["water_hho"], False), ((19, ""), ["water", "h2co_hhoc"], True), ((2, ""), ["methanol"], True), ((61, ""), ["h2co_hhoc"], False),
                               ((14, "b1"), ["water_hho", "hcn"], True), ((148, "R"), ["h2co_hhoc"], True)):
        c, info = molecular_crystal(rng, setting[0], setting[1], kinds, scatter=sc)
        if c is None:
            continue
        try:
            f = molecule_contract(c, info)
        except Exception as e:  # noqa
            f = {"input": info, "observed": repr(e)[:200]}
        if f:
            return {"native_inputs": f["input"], "reproduced": True, "observed": f["observed"]}
    return {"native_inputs": "six generated molecular crystals", "reproduced": False, "observed": "all clauses hold natively"}


def unwrap_instances(ctx, mod):
    f_ucm = ctx.fn(CR, "Crystal.unit_cell_molecules")
    UF = real_matrix("f", 3, 3)
    D = real_matrix("D", 3, 3)
    V = real_matrix("V", 3, 3)
    cA = [z3.Int(f"ca{i}") for i in range(3)]
    cB = [z3.Int(f"cb{i}") for i in range(3)]
    com = reals("com", 3)

    class Graph:
        def __init__(self, n, edges):
            self.n, self.edges = n, edges

    def csr(g):
        from scipy.sparse import dok_matrix
        m = dok_matrix((g.n, g.n))
        for i, j in g.edges:
            m[i, j] = 1.0
        return m

    def conn(I2, csgraph=None, directed=False, return_labels=True, **k):
        from scipy.sparse import csgraph as cg
        n, lab = cg.connected_components(csgraph=csr(csgraph), directed=False, return_labels=True)
        return int(n), iarr([int(x) for x in lab])

    def bfs(I2, csgraph=None, i_start=0, directed=False, **k):
        from scipy.sparse import csgraph as cg
        order, pred = cg.breadth_first_order(csgraph=csr(csgraph), i_start=int(i_start), directed=False)
        return iarr([int(x) for x in order]), iarr([int(x) for x in pred])
    captured = {}

    def from_arrays(I2, cls_, **kw):
        captured.update(kw)
        mcls = I2.class_of(source.load_module("chmpy.core.molecule"), "Molecule")
        return Obj(mcls, {"positions": kw["positions"], "elements": kw["elements"], "properties": dict(kw)})

    def translate(I2, self_, t):
        captured["translation"] = t
        return None
    models = {"scipy.sparse.csgraph.connected_components": _MF("scipy.csgraph.connected_components", conn),
              "scipy.sparse.csgraph.breadth_first_order": _MF("scipy.csgraph.breadth_first_order", bfs)}

    def run_instance(tag, edges, cells):
        g = Graph(3, edges)
        edge_cells = {e: tuple(c) for e, c in zip(edges, cells)}
        contracts = {CR + ".Crystal.unit_cell_connectivity": Contract(result=lambda I2, self_, **kw: (g, edge_cells)),
                     "chmpy.core.molecule.Molecule.from_arrays": Contract(result=from_arrays),
                     "chmpy.core.molecule.Molecule.center_of_mass": Contract(result=lambda I2, self_: farr(com)),
                     "chmpy.core.molecule.Molecule.translate": Contract(result=translate)}
        I = ctx.interp(contracts=contracts, models=models)
        for k_, v_ in models.items():
            I.models[k_] = v_
        CRcls = I.class_of(mod, "Crystal")

        def thunk(I2, a, kw):
            uc = shell(I2, "chmpy.crystal.unit_cell", "UnitCell", direct=farr(D), inverse=farr(V))
            asym = shell(I2, "chmpy.crystal.asymmetric_unit", "AsymmetricUnit", labels=NDArr(np.array(["A1", "B1", "C1"], dtype=object), "o"))
            ucd = {"frac_pos": farr(UF), "element": iarr([z3.Int(f"el{i}") for i in range(3)]), "asym_atom": iarr([2, 0, 1]), "symop": iarr([111, 222, 333])}
            cr = Obj(CRcls, {"unit_cell": uc, "asymmetric_unit": asym, "_unit_cell_atom_dict": ucd})
            captured.clear()
            mols = I2.call(I2.getattr(cr, "unit_cell_molecules"), [])
            return mols, dict(captured)
        res = I.explore(thunk, pre=[c_ > -7 for c_ in [sum(com[k] * V[k][i] for k in range(3)) for i in range(3)]])
        for k, r in enumerate(res):
            sfx = f"/path{k}" if len(res) > 1 else ""
            lab = f"crystal.Crystal.unit_cell_molecules/ensures/{tag}"
            if r.kind != "return":
                ctx.prove(lab + "/returns" + sfx, r.pc, z3.BoolVal(False), clause=f"returns normally (raised {r.value.exc_type})", fn=f_ucm)
                continue
            mols, cap = r.value
            goals = [z3.BoolVal(len(mols) == 1)]
            nodes = [int(v) for v in cap["unit_cell_atoms"].flat()]
            asym = [int(v) for v in cap["asymmetric_unit_atoms"].flat()]
            goals.append(z3.BoolVal(sorted(nodes) == [0, 1, 2] and asym == sorted(asym) and asym == [[2, 0, 1][n_] for n_ in nodes]))
            pos = cap["positions"].data
            # recover shifts from positions: pos_row == (f_node + shift_node) . D ; obligation stated on the fractional offsets via V? use direct comparison
            # expected shifts from the edge semantics: for every stored edge (i<j, cell): shift_j - shift_i == cell, root shift 0
            exp = {0: [0, 0, 0]}
            todo = list(edge_cells.items())
            while todo:
                progressed = False
                for (i, j), cell in list(todo):
                    if i in exp and j not in exp:
                        exp[j] = [exp[i][c_] + cell[c_] for c_ in range(3)]
                    elif j in exp and i not in exp:
                        exp[i] = [exp[j][c_] - cell[c_] for c_ in range(3)]
                    else:
                        continue
                    todo.remove(((i, j), cell))
                    progressed = True
                if not progressed:
                    break
            for row, node in enumerate(nodes):
                for c_ in range(3):
                    want = sum((UF[node][kk] + z3.ToReal(z(exp[node][kk]))) * D[kk][c_] for kk in range(3))
                    goals.append(z(pos[row, c_]) == want)
                goals.append(z(cap["elements"].data[row]) == z3.Int(f"el{node}"))
                goals.append(z3.BoolVal(int(cap["generator_symop"].data[row]) == [111, 222, 333][node]))
                goals.append(z3.BoolVal(str(cap["asymmetric_unit_labels"].data[row]) == ["A1", "B1", "C1"][asym[row]]))
            ctx.prove(lab + "/unwrapped_and_bookkept" + sfx, r.pc, conj(goals),
                      clause="one molecule; atom rows sorted by asymmetric-unit index; row positions == (frac_site + shift_site) . D with shift_j - shift_i == cell for every stored edge (i<j, cell) "
                             "(bonded atoms at their bonding image); element, unit-cell index, label and generator of every row belong to the same site",
                      fn=f_ucm, replay=native_replay)
            # recentring: translation == (new - old) . D with integer new - old and new in [0,1)
            t = cap["translation"].flat()
            fo = [sum(com[kk] * V[kk][i] for kk in range(3)) for i in range(3)]
            ks = [z3.Int(f"shiftk{i}") for i in range(3)]
            hy = r.pc + [sum(V[i][kk] * D[kk][j] for kk in range(3)) == (1 if i == j else 0) for i in range(3) for j in range(3)]
            from pyvc.libmodels import MODELS
            new = [fo[i] + 7 - z3.ToReal(z3.If(fo[i] + 7 >= 0, z3.ToInt(fo[i] + 7), -z3.ToInt(-(fo[i] + 7)))) for i in range(3)]
            ctx.prove(lab + "/recentre/lattice_vector" + sfx, r.pc, conj([z(t[j]) == sum((new[i] - fo[i]) * D[i][j] for i in range(3)) for j in range(3)]),
                      clause="the recentring translation is (wrap(c) - c) . D with c the fractional centre of mass", fn=f_ucm, replay=native_replay)
            ctx.prove(lab + "/recentre/integer_and_in_cell" + sfx, r.pc, conj([z3.And(z3.IsInt(new[i] - fo[i]), new[i] >= 0, new[i] < 1) for i in range(3)]),
                      clause="wrap(c) - c is an integer vector (atoms stay lattice translates of their sites) and wrap(c) lies in [0,1) for c > -7", fn=f_ucm, replay=native_replay)

    def native_replay(m=None):
        rng = np.random.default_rng(11)
        for setting, kinds, sc in (((14, "b1"), ["water_hho"], False), ((19, ""), ["water", "h2co_hhoc"], True), ((2, ""), ["methanol"], True), ((61, ""), ["h2co_hhoc"], False),
                                   ((14, "b1"), ["water_hho", "hcn"], True), ((148, "R"), ["h2co_hhoc"], True)):
            c, info = molecular_crystal(rng, setting[0], setting[1], kinds, scatter=sc)
            if c is None:
                continue
            try:
                f = molecule_contract(c, info)
            except Exception as e:  # noqa
                f = {"input": info, "observed": repr(e)[:200]}
            if f:
                return {"native_inputs": f["input"], "reproduced": True, "observed": f["observed"]}
        return {"native_inputs": "six generated molecular crystals", "reproduced": False, "observed": "all clauses hold natively"}
    # instance 1: star 0-1, 0-2 (both successors larger than their predecessor);  instance 2: path 0-2-1 (predecessor 2 > successor 1)
    ctx.attempt("crystal.Crystal.unit_cell_molecules/ensures/star", lambda: run_instance("star", [(0, 1), (0, 2)], [cA, cB]), replay=native_replay, fn=f_ucm)
    ctx.attempt("crystal.Crystal.unit_cell_molecules/ensures/path_reversed", lambda: run_instance("path_reversed", [(0, 2), (1, 2)], [cA, cB]), replay=native_replay, fn=f_ucm)


def translated_copy(ctx):
    """Molecule.translated (used to place unit-cell molecules in other cells): the result is shifted, the receiver — which may be a memoised unit-cell
    molecule — is not, and the two share no array."""
    MM = "chmpy.core.molecule"
    f_tr = ctx.fn(MM, "Molecule.translated")
    I = ctx.interp()
    mmod = source.load_module(MM)
    Mcls = I.class_of(mmod, "Molecule")
    P0 = real_matrix("p", 2, 3)
    t = reals("t", 3)

    def replay(m=None):
        from chmpy.core.molecule import Molecule
        from chmpy import Element
        mol = Molecule([Element["O"], Element["H"]], np.array([[0.0, 0.0, 0.0], [0.96, 0.0, 0.0]]))
        before = mol.positions.copy()
        out = mol.translated(np.array([1.0, 2.0, 3.0]))
        bad = (not np.array_equal(mol.positions, before)) or (not np.allclose(out.positions, before + [1.0, 2.0, 3.0])) or np.shares_memory(out.positions, mol.positions)
        return {"native_inputs": {"molecule": "OH", "translation": [1.0, 2.0, 3.0]}, "reproduced": bool(bad), "observed": {"receiver_after": mol.positions.tolist(), "result": out.positions.tolist()}}

    def ob():
        def thunk(I2, a, kw):
            mol = Obj(Mcls, {"positions": farr(P0), "elements": [None, None], "properties": {}, "bonds": None, "labels": None})
            out = I2.call(I2.getattr(mol, "translated"), [farr(t)])
            return mol, out
        res = I.explore(thunk)
        for k, r_ in enumerate(res):
            sfx = "" if len(res) == 1 else f"/path{k}"
            if r_.kind != "return":
                ctx.prove("molecule.Molecule.translated/ensures/fresh_shifted_copy" + sfx, r_.pc, z3.BoolVal(False), clause="returns normally", fn=f_tr, replay=replay)
                continue
            mol, out = r_.value
            a0, a1 = mol.fields["positions"], out.fields["positions"]
            goals = [z3.BoolVal(out is not mol and a1 is not a0 and a1.data is not a0.data)]
            goals += [z(a0.data[i, j]) == P0[i][j] for i in range(2) for j in range(3)]
            goals += [z(a1.data[i, j]) == P0[i][j] + t[j] for i in range(2) for j in range(3)]
            ctx.prove("molecule.Molecule.translated/ensures/fresh_shifted_copy" + sfx, r_.pc, conj(goals), fn=f_tr, replay=replay,
                      clause="the result is a distinct molecule with positions + t in its own array; the receiver's positions are unchanged")
    ctx.attempt("molecule.Molecule.translated/ensures/fresh_shifted_copy", ob, replay=replay, fn=f_tr)


def connectivity_instances(ctx, mod, native_replay):
    """unit_cell_connectivity executed on symbolic instances with two unit-cell atoms.  The slab is a modular contract (reference cell first,
    then one block of n_uc rows per neighbouring cell, `cell` giving the block's cell index); the KD-tree query is modelled exactly
    (every pair within max_distance, any distances); covalent radii are arbitrary positive reals.
    Ensures: the stored edges are exactly {(0,1)} when atom 0 is bonded to atom 1 in the reference cell or to an image of atom 1 in a
    listed neighbour cell (bonded: 1e-3 < d < r0 + r1 + tol), keyed i<j, with the bond length and the cell of THAT image; nothing else is stored."""
    f_ucc = ctx.fn(CR, "Crystal.unit_cell_connectivity")
    r = {8: z3.Real("r_O"), 1: z3.Real("r_H")}
    tol = z3.Real("tol")

    class _Tree:
        pass

    class _Dok:
        pass

    def kdtree_model(I2, pts, *a, **k):
        t = _Tree()
        t.pts = pts
        return t

    def run(tag, nblocks, far_hyp, override=False):
        r_lib = dict(r)
        if override:
            # the caller overrides the radius of oxygen (keyword covalent_radii): the library value is another, unrelated positive number
            r_lib[8] = z3.Real("r_O_library")
        cells = [[z3.Int(f"c{b}_{i}") for i in range(3)] for b in range(nblocks)]
        nrow = 2 + 2 * nblocks
        FP = real_matrix("fp", nrow, 3)
        dist = {}

        def dvar(a_, b_):
            key = (min(a_, b_), max(a_, b_))
            if key not in dist:
                dist[key] = z3.Real(f"d_{key[0]}_{key[1]}")
            return dist[key]

        def sdm(I2, tree, other, max_distance=None, **k):
            """exact model: the stored pairs are exactly those with distance <= max_distance; rows of `other` are slab rows offset by 2 when it is the
            neighbour tree.  Diagonal pairs of a tree with itself have distance 0 and may or may not be stored."""
            same = other is tree
            n1, n2 = tree.pts.shape[0], other.pts.shape[0]
            items = []
            for i in range(n1):
                for j in range(n2):
                    if same and i == j:
                        if I2.decide(z3.Bool(f"diag_stored_{i}")):
                            items.append(((i, j), 0))
                        continue
                    d = dvar(i, j) if same else dvar(i, 2 + j)
                    if I2.decide(I2.truth(num_cmp("<=", d, max_distance))):
                        items.append(((i, j), d))
            dk = _Dok()
            dk.pairs = items
            return dk

        def slab(I2, self_, bounds=None, **k):
            cellrows = [[0, 0, 0], [0, 0, 0]] + [list(c) for c in cells for _ in range(2)]
            return {"n_uc": 2, "frac_pos": farr(FP), "element": iarr([8, 1] * (1 + nblocks)), "cell": iarr(cellrows)}

        def elem(I2, *a_):
            n_ = a_[-1]
            ecls = I2.class_of(source.load_module("chmpy.core.element"), "Element")
            return Obj(ecls, {"cov": r_lib[int(n_)], "atomic_number": int(n_)})
        tag_cart = {}

        def to_cart(I2, self_, coords):
            return coords          # distances are the model's d variables: the Cartesian values themselves are never inspected
        models = {"scipy.spatial.cKDTree": _MF("scipy.cKDTree", kdtree_model), "_Tree.sparse_distance_matrix": _MF("scipy.cKDTree.sparse_distance_matrix(exact: pairs with d <= max_distance)", sdm),
                  "_Dok.items": _MF("dok.items", lambda I2, d: list(d.pairs)),
                  "_Dok.keys": _MF("dok.keys", lambda I2, d: [k_ for k_, _v in d.pairs]),
                  "_Dok.values": _MF("dok.values", lambda I2, d: [v_ for _k, v_ in d.pairs]),
                  "scipy.sparse.dok_matrix": _MF("scipy.sparse.dok_matrix(as a dictionary of keys)", lambda I2, shape, **k: {})}
        contracts = {CR + ".Crystal.slab": Contract(result=slab), CR + ".Crystal.to_cartesian": Contract(result=to_cart),
                     "chmpy.crystal.unit_cell.UnitCell.to_cartesian": Contract(result=to_cart),
                     "chmpy.core.element.Element.from_atomic_number": Contract(result=elem)}
        I = ctx.interp(contracts=contracts, models=models)
        for k_, v_ in models.items():
            I.models[k_] = v_
        CRcls = I.class_of(mod, "Crystal")

        def thunk(I2, a, kw):
            uc = shell(I2, "chmpy.crystal.unit_cell", "UnitCell")
            cr = Obj(CRcls, {"unit_cell": uc})
            kw_ = {"tolerance": tol}
            if override:
                kw_["covalent_radii"] = {8: r[8]}
            out = I2.call(I2.getattr(cr, "unit_cell_connectivity"), [], kw_)
            return out, cr
        dpos = [z3.Real(f"d_{a_}_{b_}") >= 0 for a_ in range(nrow) for b_ in range(a_ + 1, nrow)]
        # statement's hypothesis: no atom is bonded to its own periodic image
        own = [z3.Real(f"d_{a_}_{2 + 2 * b + a_}") >= 2 * r[(8, 1)[a_]] + tol for a_ in range(2) for b in range(nblocks)]
        pre = [tol >= 0, r[8] > 0, r[1] > 0] + ([r_lib[8] > 0] if override else []) + dpos + own + far_hyp(lambda a_, b_: z3.Real(f"d_{min(a_, b_)}_{max(a_, b_)}"), r, tol)
        res = I.explore(thunk, pre=pre)
        lab = f"crystal.Crystal.unit_cell_connectivity/ensures/{tag}"
        if not res:
            return ctx.undecided(lab, "no path")
        thr = r[8] + r[1] + tol
        bonded = lambda d: z3.And(d > z3.Q(1, 1000), d < thr)
        d01 = z3.Real("d_0_1")
        dn = [z3.Real(f"d_0_{2 + 2 * b + 1}") for b in range(nblocks)]          # atom 0 -- image of atom 1 in block b
        for k, rr in enumerate(res):
            sfx = f"/path{k}"
            if rr.kind != "return":
                ctx.prove(lab + "/returns" + sfx, rr.pc, z3.BoolVal(False), clause=f"returns normally (raised {getattr(rr.value, 'exc_type', '?')})", fn=f_ucc, replay=native_replay)
                continue
            (graph, props), cr = rr.value
            keys = list(props.keys())
            goals = [z3.BoolVal(all(tuple(int(x) for x in kk) == (0, 1) for kk in keys)), z3.BoolVal([tuple(int(x) for x in kk) for kk in graph.keys()] == [tuple(int(x) for x in kk) for kk in keys]),
                     z3.BoolVal("_uc_graph" in cr.fields)]
            any_bond = z3.Or([bonded(d01)] + [bonded(d_) for d_ in dn])
            goals.append(any_bond if keys else z3.Not(any_bond))
            if keys:
                cell = props[keys[0]]
                length = graph[keys[0]]
                # the LAST bonded image in slab order is the one stored (a later store under the same key replaces an earlier one); under the statement's
                # hypothesis (one bonding image per pair) it is THE image
                cases = []
                for b in reversed(range(nblocks)):
                    later = [z3.Not(bonded(dn[b2])) for b2 in range(b + 1, nblocks)]
                    cases.append(z3.Implies(z3.And([bonded(dn[b])] + later), z3.And([z(cell[i]) == cells[b][i] for i in range(3)] + [z(length) == dn[b]])))
                cases.append(z3.Implies(z3.And([z3.Not(bonded(d_)) for d_ in dn]), z3.And([z(cell[i]) == 0 for i in range(3)] + [z(length) == d01])))
                goals += cases
            ctx.prove(lab + "/edges" + sfx, rr.pc, conj(goals),
                      clause="stored keys are (0,1) only (i<j; self-images and the mirrored pair are skipped), present iff atom 0 is bonded (1e-3 < d < r0+r1+tol) to atom 1 or to one of its "
                             "listed images; the stored cell and length are those of the bonding image; the same keys in the sparse matrix; the result is memoised",
                      fn=f_ucc, replay=native_replay)
        ctx.safety(f"crystal.Crystal.unit_cell_connectivity/{tag}", res, fn=f_ucc, replay=native_replay)

    # A: one neighbouring block, every pair may or may not be in range (skip logic in full generality)
    ctx.attempt("crystal.Crystal.unit_cell_connectivity/ensures/one_block", lambda: run("one_block", 1, lambda d, r_, t_: []), replay=native_replay, fn=f_ucc)
    # A': the same with the radius of one element overridden by the caller (covalent_radii=...): bonding AND the neighbour search use the overridden radius
    ctx.attempt("crystal.Crystal.unit_cell_connectivity/ensures/one_block_radius_override", lambda: run("one_block_radius_override", 1, lambda d, r_, t_: [], override=True),
                replay=native_replay, fn=f_ucc)
    # B: two neighbouring blocks; only the pairs (0, image of 1) may be in range (the others are beyond 2 max(r) + tol by hypothesis): the stored cell is the block's own
    def far(d, r_, t_):
        big = 2 * z3.If(r_[8] >= r_[1], r_[8], r_[1]) + t_
        keep = {(0, 1), (0, 3), (0, 5)}
        return [d(a_, b_) > big for a_ in range(6) for b_ in range(a_ + 1, 6) if (a_, b_) not in keep and a_ < 2]
    ctx.attempt("crystal.Crystal.unit_cell_connectivity/ensures/two_blocks", lambda: run("two_blocks", 2, far), replay=native_replay, fn=f_ucc)


def bounded(ctx):
    import chmpy.crystal.space_group as sgm
    rng = np.random.default_rng(ctx.seed + 4)
    settings = sorted((int(k), row.choice) for k, rows in sgm.SG_FROM_NUMBER.items() for row in rows)
    if ctx.tier == "quick":
        must = [(1, ""), (2, ""), (14, "b1"), (19, ""), (61, ""), (148, "R"), (167, "H"), (88, "1"), (205, "")]
        must = [s for s in must if s in settings]
        todo = must + [settings[int(i)] for i in rng.choice(len(settings), size=31, replace=False)]
    else:
        todo = settings
    kinds_all = list(MOLS)
    fails, evals, distinct = [], 0, set()
    with contextlib.redirect_stdout(io.StringIO()):
        # fixed cases (every seed): two equal molecules with repeated labels, iodine molecules (largest bonding threshold), reversed atom orders across a face
        for number, choice, kinds, kw in ((14, "b1", ["water", "water"], {"dup_labels": True}), (19, "", ["i2", "ch3i"], {}), (33, "", ["i2"], {"scatter": True}),
                                         (2, "", ["water_hho", "h2co_hhoc"], {"scatter": True, "dup_labels": True}), (61, "", ["methanol", "methanol"], {"dup_labels": True})):
            try:
                c, info = molecular_crystal(rng, number, choice, kinds, **kw)
                f = molecule_contract(c, info) if c is not None else None
            except Exception as e:  # noqa
                f = {"input": {"setting": f"{number}:{choice}", "molecules": kinds}, "observed": {"exception": repr(e)[:300]}, "clause": "molecule queries run", "key": "exception"}
            evals += 1
            distinct.add((number, choice, tuple(kinds), "fixed"))
            if f and len(fails) < 3:
                fails.append(f)
        for number, choice in todo:
            nm = int(rng.integers(1, 3))
            kinds = [kinds_all[int(i)] for i in rng.choice(len(kinds_all), size=nm, replace=bool(rng.integers(0, 2)))]
            if len(sgm.SpaceGroup(number, choice=choice).symmetry_operations) >= 96 and ctx.tier == "quick":
                kinds = kinds[:1]
            try:
                c, info = molecular_crystal(rng, number, choice, kinds, scatter=bool(rng.integers(0, 2)), dup_labels=bool(rng.integers(0, 2)))
                if c is None:
                    continue
                f = molecule_contract(c, info)
            except Exception as e:  # noqa
                f = {"input": {"setting": f"{number}:{choice}", "molecules": kinds}, "observed": {"exception": repr(e)[:300]}, "clause": "molecule queries run", "key": "exception"}
            evals += 1
            distinct.add((number, choice, tuple(kinds)))
            if f and len(fails) < 3:
                fails.append(f)
    # non-default bond tolerance must reach the connectivity search: N2O4 (N-N 1.78 A) is one molecule only with bond_tolerance >= 0.42
    from chmpy.crystal import Crystal, UnitCell, SpaceGroup, AsymmetricUnit
    from chmpy import Element
    n2o4 = np.array([[0.0, 0.0, 0.0], [1.78, 0.0, 0.0], [-0.55, 1.05, 0.0], [-0.55, -1.05, 0.0], [2.33, 1.05, 0.0], [2.33, -1.05, 0.0]])
    cell = UnitCell.from_lengths_and_angles([11.0, 12.0, 13.0], [np.pi / 2] * 3)
    cr = Crystal(cell, SpaceGroup(14), AsymmetricUnit([Element[x] for x in "NNOOOO"], cell.to_fractional(n2o4 + [3.0, 3.5, 4.0])))
    evals += 1
    try:
        nm = len(cr.unit_cell_molecules(bond_tolerance=0.6))
        nu = len(cr.symmetry_unique_molecules(bond_tolerance=0.6))
        okt = nm == 4 and nu == 1
        obs = {"unit_cell_molecules": nm, "expected": 4, "unique": nu}
    except Exception as e:  # noqa
        okt, obs = False, {"exception": repr(e)[:200]}
    if not okt and len(fails) < 3:
        fails.append({"input": {"structure": "N2O4 (N-N 1.78 A) in P2_1/c", "bond_tolerance": 0.6}, "observed": obs,
                      "clause": "the caller's bond tolerance decides what is bonded: number of molecules = Z' x |G|", "key": "bond_tolerance"})
    ctx.add_bounded("crystal.Crystal.unit_cell_molecules/bounded/generated_molecular_crystals",
                    f"{len(todo)} settings ({'seeded sample' if ctx.tier == 'quick' else 'all 530'}) x 1-2 rigid molecules (equal or different, 3-6 atoms) randomly oriented, "
                    "placed anywhere within [-0.6, 1.6] cells, every intermolecular contact > 2.9 A", evals, len(distinct), fails,
                    rule="distinct (setting, molecule kinds)")
