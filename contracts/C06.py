"""C06 — isosurfaces are closed, consistently oriented meshes on the requested level.

Anchors: chmpy/mc/_mc.py (wrapper), chmpy/mc/_mc_lewiner.pyx + lookup_tables.py (compiled Lewiner mesher), chmpy/surface.py,
chmpy/interpolate/density.py (bounding boxes), core/molecule.py, crystal/crystal.py, util/color.py (user-level wrappers).

  P  marching_cubes wrapper, promolecule_density_isosurface, stockholder_weight_isosurface, both bb(), the two user-level
     wrappers: obligations generated from the real source by the symbolic executor (kernel, densities, smoothing, trimesh as contracts)
  G  the Lewiner case tables over the complete domain 256 configurations x every selectable tiling (728 rows); the dispatcher text
  B  the statement itself on the real (compiled) functions: see c06_native.py
"""
import ast
import importlib
import time
from fractions import Fraction

import numpy as np
import z3

from pyvc.api import Contract, NDArr, Obj, conj, shell, source
from pyvc.symex import FuncVal, ModelFn
from pyvc.values import obj_array, to_real

from contracts import c06_native as N
from contracts import c06_tables as TB
from contracts.c06_models import BASE_MODELS, NT, Interp06, make_arange, sym_matrix, sym_vector, tetra

MC = "chmpy.mc._mc"
SURF = "chmpy.surface"
DENS = "chmpy.interpolate.density"
FIELD = z3.Function("field", z3.RealSort(), z3.RealSort(), z3.RealSort(), z3.RealSort())
FAST = dict(timeout_ms=20000, cvc5_timeout_s=20)


def new_interp(ctx, models=None, contracts=None):
    m = dict(BASE_MODELS)
    m.update(models or {})
    I = Interp06(models=m, contracts=contracts or {})
    ctx._interps = getattr(ctx, "_interps", [])
    ctx._interps.append(I)
    return I


def cover(ctx, ident, pc):
    """Vacuity guard: the hypotheses of a path must be satisfiable (otherwise every obligation on it is trivially 'proved')."""
    sv = z3.Solver()
    sv.set("timeout", 5000)
    for c in pc:
        sv.add(c if z3.is_expr(c) else z3.BoolVal(bool(c)))
    res = sv.check()
    if res == z3.sat:
        ctx.notes.append(f"cover: hypotheses of {ident} are satisfiable")
    else:
        ctx.undecided(ident + "/cover", f"path condition is {res}: obligations on this path would be vacuous", clause="the hypotheses of the path are satisfiable")


def cells_equal(a, b):
    if not (isinstance(a, NDArr) and isinstance(b, NDArr)) or a.shape != b.shape:
        return z3.BoolVal(False)
    return conj([to_real(x) == to_real(y) if not (z3.is_expr(x) and z3.is_int(x) and z3.is_expr(y) and z3.is_int(y)) else x == y for x, y in zip(a.flat(), b.flat())])


class RandomPoint(dict):
    """Sampler for prove_identity with no hypotheses: any rational point is on the variety; unknown names get seeded small rationals."""

    def __init__(self, k):
        super().__init__()
        self.k = k

    def __missing__(self, name):
        import hashlib
        h = int(hashlib.sha256(f"{self.k}:{name}".encode()).hexdigest()[:8], 16)
        v = Fraction((h % 19) - 9, 1 + (h // 19) % 5)
        self[name] = v
        return v


def any_point(k):
    return RandomPoint(k)


def same_scalar(a, b):
    try:
        return z3.simplify(to_real(a) == to_real(b)) if (z3.is_expr(a) or z3.is_expr(b)) else z3.BoolVal(to_real(a) == to_real(b))
    except Exception:  # noqa
        return z3.BoolVal(False)


# ======================================================================================================================
def build(ctx):
    ctx.level = "other"
    thorough = ctx.tier == "thorough"
    ctx.assumptions += [
        "floats are reals in the P obligations (float32 rounding of grids, volumes and vertices is only seen by the bounded run-time contracts)",
        "the compiled kernel _mc_lewiner.marching_cubes(volume, level, luts, step, classic) returns (vertices (V,3) in (x,y,z) = (axis 2, axis 1, axis 0) index order, "
        "flat faces (3F,), normals (V,3), values (V,)) — its mesh properties are only checked at run time (B); Cython/gcc semantics of the .pyx; the .so was built from the .c on disk",
        "numpy.arange(a, b, s) with s > 0 has ceil((b - a) / s) knots a + i s; numpy.meshgrid default 'xy' indexing; numpy.c_ / ravel / reshape are row-major; numpy.fliplr reverses columns; "
        "numpy.array_equal is cell-wise equality; numpy.r_[seq] concatenates; numpy.min/max over an axis",
        "PromoleculeDensity.rho / StockholderWeight.weights evaluate one scalar field point by point (C05); trimesh.Trimesh stores its arguments; "
        "trimesh filter_humphrey keeps the face list and the vertex count (checked only at run time)",
        "Lewiner, Lopes, Vieira, Tavares (2003): the case tables with the face/interior tests give a closed manifold when neighbouring cells resolve a shared ambiguous face alike "
        "(the table-side conditions are G obligations here; the agreement of the tests is only checked at run time)",
    ]
    ctx.explanation = (
        "P (real source of mc/_mc.py::marching_cubes, kernel as an assumed contract): a level outside [min, max] of the volume raises ValueError and nothing else does for a 3-d volume; "
        "the kernel receives the volume and the requested level unchanged (level None -> mid-range); output vertex (and normal) columns are the kernel's (x,y,z) reversed into array-axis order and "
        "scaled by spacing per axis; 'descent' reverses every triangle, 'ascent' keeps it, another direction raises; hence (L, exact polynomial identity) the oriented triple product of any four "
        "output vertices is -s0 s1 s2 times the kernel's, so the two directions are mirror orientations.  "
        "P (surface.py, both functions, mesher/densities/smoothing by contract): the grid handed to the mesher samples the field at origin + (i, j, k) * sep with array axes (y, x, z); the mesher "
        "gets the requested isovalue, spacing (sep, sep, sep) and 'descent'; a vertex with array-index coordinates t is returned at exactly the Cartesian position origin + (t1, t0, t2) * sep of that "
        "lattice; faces are passed through; the swap is an odd permutation so orientation is mirrored (index-order inward -> Cartesian outward); with smoothing the same dataflow around smooth_laplacian.  "
        "P: PromoleculeDensity.bb / StockholderWeight.bb contain every (own) atom with margin vdW + 3.8 and are tight.  P: Molecule.promolecule_density_isosurface and "
        "Crystal.stockholder_weight_isosurfaces pass atoms / environments, isovalue and separation through and build the trimesh from the returned vertices and faces.  "
        "G (complete: 256 configurations x every selectable tiling, 728 rows of the real lookup tables): entries are edge ids, every used cube edge straddles the level, interior triangle edges are "
        "matched in opposite directions, cube-face segments join exactly the straddling edges of the face with one fixed orientation, single-corner normals point to the greater side; the dispatcher "
        "text selects exactly these tables with matching triangle counts.  "
        "B ONLY (compiled Lewiner kernel, trimesh smoothing, limits): closedness / manifoldness / consistent orientation of the meshes actually produced, vertices at the crossing points, orientation "
        "sign per gradient direction, volume convergence, and for promolecule / Hirshfeld surfaces: closed, outward, in the Cartesian frame, enclosing every atom of the molecule and no neighbour, "
        "vertices converging to the isovalue over separations 1.0, 0.5, 0.2.  Convergence is a limit: three spacings with a monotonicity/order requirement are a test, not a proof.  "
        "The bounded domain is partitioned so that each known defect class has its own obligation: generic levels (smooth_fields, sign_configurations) vs. levels equal to a sample value "
        "(mc.marching_cubes/bounded/level_equal_to_a_sample: the kernel leaves a hole next to a node lying exactly on the level — the port dropped Lewiner's |v| < eps -> eps clamp), "
        "generic isovalues vs. isovalues equal to a sampled density (surface/bounded/isovalue_equal_to_a_sample: smooth_laplacian's Trimesh(process=True) merges the coincident vertices and returns "
        "triangles with a repeated index), and the colour path of the user-level wrappers (user_level/*: matplotlib.cm.get_cmap no longer exists)."
    )

    ctx.trusted.update([
        "contract:chmpy.mc._mc.marching_cubes as seen by surface.py [vertices (V,3) = array-index coordinates * spacing per axis (P for the wrapper + B for the kernel), faces (F,3), normals, values]",
        "contract:chmpy.mc._mc._get_lookup_tables [opaque table provider]",
        "contract:chmpy.surface.smooth_laplacian [opaque: some (V,3) vertices and (F,3) faces; mesh properties only B]",
        "contract:PromoleculeDensity.rho / StockholderWeight.weights [one scalar field evaluated point by point (C05)]",
        "contract:PromoleculeDensity.bb / StockholderWeight.bb as seen by surface.py [some lower and upper corner; their own bodies are verified separately]",
        "contract:PromoleculeDensity.d_norm / StockholderWeight.d_norm [opaque per-vertex arrays]",
        "contract:PromoleculeDensity.__init__, StockholderWeight.from_arrays, Crystal.molecule_environments, property_to_color, promolecule_density_isosurface / "
        "stockholder_weight_isosurface as seen by the user-level wrappers [opaque records of their arguments]",
        "model:numpy.c_ (column stacking)", "scipy.sparse.csgraph.connected_components, numpy (spec functions of the run-time contracts)",
    ])

    # ---------------------------------------------------------------- bounded run-time contracts first (their failures serve as replay witnesses)
    t0 = time.time()
    outs = natives(ctx, thorough)
    ctx.notes.append(f"native stand-ins {time.time() - t0:.1f}s")

    def replay_for(*keys):
        def replay(m):
            for k in keys:
                for name, o in outs.items():
                    if k in o.by_key:
                        w = o.by_key[k]
                        return {"native_inputs": w["input"], "reproduced": True, "observed": w["observed"], "clause": w["clause"], "stand_in": name}
            return {"native_inputs": None, "reproduced": False,
                    "observed": f"clauses {keys} hold natively on the bounded domains of this run ({sum(o.cases for o in outs.values())} cases)"}
        return replay

    # ---------------------------------------------------------------- G: tables and dispatcher text
    t0 = time.time()
    T = TB.table_obligations(ctx)
    TB.dispatcher_obligations(ctx, T)
    TB.skew_note(ctx)
    imports_obligation(ctx)
    ctx.notes.append(f"table obligations {time.time() - t0:.1f}s")

    # ---------------------------------------------------------------- P: wrappers
    t0 = time.time()
    wrapper_obligations(ctx, replay_for, thorough)
    surface_obligations(ctx, replay_for, thorough)
    bb_obligations(ctx, replay_for, thorough)
    user_level_obligations(ctx, replay_for)
    ctx.notes.append(f"VC generation {time.time() - t0:.1f}s")


# ======================================================================================================================
# B
# ======================================================================================================================
def natives(ctx, thorough):
    seed = ctx.seed
    outs = {}

    def guard(name, thunk):
        """A stand-in whose own harness raises is undecided (never a violation, never a crash of the whole check)."""
        try:
            return thunk()
        except Exception as e:  # noqa
            import traceback
            ctx.undecided(f"{name}/harness", f"run-time stand-in harness raised {e!r} at {traceback.format_exc().strip().splitlines()[-3].strip()[:120]}",
                          clause="the bounded stand-in runs to completion")
            return N.Outcome()
    spacings = [(1.0, 1.0, 1.0), (0.5, 1.0, 2.0), (1.3, 0.7, 0.9), (0.2, 0.2, 0.2)]
    pads = [(1, (0, 0, 0)), (1, (1, 0, 2)), (2, (0, 1, 0)), (1, (2, 3, 0))]
    n_mag = 24 if thorough else 8
    o = outs["configs"] = guard("bounded/configs", lambda: N.run_configs(seed, n_mag, spacings, pads))
    ctx.add_bounded("mc.marching_cubes/bounded/sign_configurations",
                    f"all 255 non-empty sign configurations of an interior 2x2x2 block embedded in 4^3..6x7x4 grids (boundary below the level) x {n_mag} magnitude patterns "
                    "(unit, two alternating 0.15/3.0, log-uniform e^+-2.5) x both gradient directions, 4 spacings (isotropic and anisotropic) and 4 grid shapes in rotation",
                    o.evaluations, o.cases, o.as_list(), rule="distinct (configuration, magnitude pattern) volumes; each meshed in both directions; "
                    f"{o.stats.get('configs_with_more_than_one_tiling')} configurations produced more than one tiling (ambiguity sub-cases reached), {o.stats.get('aux_vertices')} auxiliary vertices",
                    samples=[{"id": "C06/mc.marching_cubes/bounded/sign_configurations", "tag": "B", "clause": "closed oriented 2-manifold, valid indices, vertices at crossing points of straddling grid edges "
                              "(auxiliary vertices inside straddling cells), signed volume < 0 for 'descent' and > 0 for 'ascent', ascent == reversed descent", "verdict": "held" if not o.by_key else "failed",
                              "backend": "runtime-contract", "worst_crossing_error_index_units": float(o.stats.get("worst_crossing_error", 0.0))}])
    nb, mx = (1000, 40) if thorough else (200, 24)
    o = outs["blobs"] = guard("bounded/blobs", lambda: N.run_blobs(seed, nb, mx))
    ctx.add_bounded("mc.marching_cubes/bounded/smooth_fields",
                    f"{nb} seeded sums of 1-5 rotated anisotropic Gaussians (each >= 1.6 cells wide, some negative) on grids 9..{mx} per axis (independent), spacings log-uniform in [0.3, 2.2] per axis "
                    "(every 7th isotropic 1), level uniform in the lower 15-60% between the largest boundary value and the maximum and not equal to any sample, both gradient directions",
                    o.evaluations, o.cases, o.as_list(), rule="distinct seeded fields; per field both directions; orientation per connected component against the gradient of the sampled field "
                    f"(worst area-weighted mean cosine {o.stats.get('worst_component_mean_cosine', 1.0):.3f} over {o.stats.get('components')} components; statistic only: "
                    f"{o.stats.get('faces_against_gradient')} of {o.stats.get('faces_compared_with_gradient')} single faces oppose the interpolant's gradient, cf. tunnels of the interior test)")
    ne = 300 if thorough else 60
    o = outs["blobs_exact"] = guard("bounded/blobs_exact", lambda: N.run_blobs(seed, ne, mx, exact=True))
    ctx.add_bounded("mc.marching_cubes/bounded/level_equal_to_a_sample",
                    f"degenerate levels: the same generator ({ne} seeded fields, own stream) with the level set to the interior float32 sample nearest to the drawn level, plus one recorded 5x5x5 witness volume "
                    "(c06_native.degenerate_witness_volume); both gradient directions", o.evaluations, o.cases, o.as_list(),
                    rule="distinct volumes whose level equals one of their samples (vertices coincide with grid nodes)")
    o = outs["no_degenerate"] = guard("bounded/no_degenerate", lambda: N.run_no_degenerate(seed))
    ctx.add_bounded("mc.marching_cubes/bounded/degenerate_faces_removed", "6 seeded integer-valued quadratic fields whose level passes exactly through grid nodes, allow_degenerate=False: valid indices, "
                    "per-vertex arrays, triangles within one cell, same enclosed volume as with the zero-area triangles kept", o.evaluations, o.cases, o.as_list(), rule="distinct (field, level, spacing)")
    o = outs["volume"] = guard("bounded/volume", lambda: N.run_volume_convergence(seed, 24 if thorough else 8))
    ctx.add_bounded("mc.marching_cubes/bounded/volume_convergence",
                    f"{24 if thorough else 8} seeded rotated ellipsoids (semi-axes 0.55..1.0) as fields 1 - |M x| on three nested anisotropic grids (about 10, 20, 40 points per axis), alternating directions",
                    o.evaluations, o.cases, o.as_list(), rule=f"distinct ellipsoids; worst final relative volume error {o.stats.get('worst_final_relative_volume_error'):.4f}, "
                    f"worst error ratio finest/coarsest {o.stats.get('worst_error_ratio_4n_over_n'):.3f}")
    o = outs["errors"] = guard("bounded/errors", lambda: N.run_wrapper_errors(seed))
    ctx.add_bounded("mc.marching_cubes/bounded/argument_errors", "level above / below the data range, unknown gradient direction, 2-d volume, 2-component spacing on a seeded 5x6x7 volume",
                    o.evaluations, o.cases, o.as_list(), rule="distinct invalid calls")
    seps = [1.0, 0.5, 0.2]
    o = outs["promolecule"] = guard("bounded/promolecule", lambda: N.run_promolecule(seed, seps, 20 if thorough else 6, True))
    ctx.add_bounded("surface.promolecule_density_isosurface/bounded/molecules",
                    f"water.xyz, acetic acid (acetic_acid.cif), {20 if thorough else 6} generated molecules (1-6 heavy atoms C/N/O/S/F + 0-4 H); isovalue 0.002; separations 1.0, 0.5, 0.2; "
                    "smoothing None and the default 'laplacian'; props=True", o.evaluations, o.cases, o.as_list(),
                    rule="distinct molecules (each at 3 separations x 2 smoothing modes); residuals " + str(o.stats.get("residuals"))[:600])
    o = outs["hirshfeld"] = guard("bounded/hirshfeld", lambda: N.run_hirshfeld(seed, seps, ["acetic_acid.cif", "iceII.cif"], 12.0, True, max_molecules=8 if thorough else 2))
    ctx.add_bounded("surface.stockholder_weight_isosurface/bounded/crystals",
                    "molecules of acetic_acid.cif and iceII.cif in their crystal environments (Crystal.molecule_environments(radius=12)), isovalue 0.5, separations 1.0, 0.5, 0.2, smoothing None and 'laplacian'",
                    o.evaluations, o.cases, o.as_list(), rule="distinct (crystal, molecule) pairs; residuals " + str(o.stats.get("residuals"))[:600])
    o = outs["exact_level"] = guard("bounded/exact_level", lambda: N.run_exact_level(seed, [1.0, 0.5, 0.2] if thorough else [1.0, 0.5], 8 if thorough else 3))
    ctx.add_bounded("surface/bounded/isovalue_equal_to_a_sample",
                    f"water.xyz, {8 if thorough else 3} generated molecules (promolecule, nominal 0.002) and acetic acid in its crystal (Hirshfeld, nominal 0.5); the isovalue is the sampled float32 field value "
                    "nearest to the nominal one on the grid surface.py builds (mesher vertices then coincide with a grid node); separations " + ("1.0, 0.5, 0.2" if thorough else "1.0, 0.5") + "; smoothing None and 'laplacian'",
                    o.evaluations, o.cases, o.as_list(), rule="distinct molecules")
    o = outs["user_level"] = guard("bounded/user_level", lambda: N.run_user_level(seed, 1.0 if not thorough else 0.5))
    o2 = guard("bounded/colour_map", lambda: N.colour_map_contract(seed))
    for k, v in o2.by_key.items():
        o.by_key.setdefault(k, v)
    o.evaluations += o2.evaluations
    o.cases += o2.cases
    ctx.add_bounded("user_level/bounded/coloured_surfaces",
                    "Molecule.promolecule_density_isosurface, Crystal.promolecule_density_isosurfaces, Crystal.stockholder_weight_isosurfaces, Crystal.hirshfeld_surfaces(color='d_e') on acetic_acid.cif "
                    f"(separation {1.0 if not thorough else 0.5}), and util.color.property_to_color on seeded arrays for every default colour map",
                    o.evaluations, o.cases, o.as_list(), rule="distinct user-level calls")
    atom_kind_isovalue_standin(ctx)
    return outs


def atom_kind_isovalue_standin(ctx):
    """The requested isovalue must reach every kind of Hirshfeld surface (added after a seeded change dropped it for kind='atom'):
    a lower stockholder weight level encloses strictly more volume."""
    import contextlib
    import io
    from chmpy.crystal import Crystal
    from chmpy.tests import TEST_FILES
    fails, evals = [], 0
    with contextlib.redirect_stdout(io.StringIO()):
        c = Crystal.load(str(TEST_FILES["acetic_acid.cif"]))
    for kind in ("atom", "mol"):
        try:
            lo = c.stockholder_weight_isosurfaces(kind=kind, isovalue=0.35, separation=0.6, radius=6.0)
            hi = c.stockholder_weight_isosurfaces(kind=kind, isovalue=0.5, separation=0.6, radius=6.0)
            evals += len(lo)
            for k, (a, b) in enumerate(zip(lo, hi)):
                va, vb = abs(float(a.volume)), abs(float(b.volume))
                if not (va > vb * 1.02):
                    fails.append({"input": {"structure": "acetic_acid.cif", "kind": kind, "surface": k, "isovalues": [0.35, 0.5], "separation": 0.6},
                                  "observed": {"volume_at_0.35": va, "volume_at_0.5": vb},
                                  "clause": "the surface is built on the requested isovalue: the 0.35 weight surface encloses more volume than the 0.5 one", "key": f"isovalue-{kind}"})
                    break
        except Exception as e:  # noqa
            fails.append({"input": {"structure": "acetic_acid.cif", "kind": kind}, "observed": {"exception": repr(e)[:200]}, "clause": "Hirshfeld surfaces are produced", "key": f"isovalue-{kind}-exc"})
    ctx.add_bounded("crystal.crystal.Crystal.stockholder_weight_isosurfaces/bounded/isovalue_reaches_every_kind", "acetic acid, kind in {atom, mol}, isovalues 0.35 vs 0.5 at separation 0.6",
                    evals, evals, fails[:3], rule="surfaces compared")


# ======================================================================================================================
# G: third-party names imported by the functions under contract exist
# ======================================================================================================================
def imports_obligation(ctx):
    fns = [("chmpy.util.color", "property_to_color"), (SURF, "smooth_laplacian"), ("chmpy.core.molecule", "Molecule.promolecule_density_isosurface"),
           ("chmpy.crystal.crystal", "Crystal.stockholder_weight_isosurfaces"), ("chmpy.crystal.crystal", "Crystal.promolecule_density_isosurfaces")]
    missing, n = [], 0
    for modname, name in fns:
        try:
            f = ctx.fn(modname, name)
        except Exception as e:  # noqa
            missing.append({"function": f"{modname}.{name}", "error": repr(e)})
            continue
        guarded = set()
        for node in ast.walk(f.node):
            if isinstance(node, ast.Try):
                for sub in ast.walk(node):
                    if isinstance(sub, (ast.Import, ast.ImportFrom)):
                        guarded.add(id(sub))
        for node in ast.walk(f.node):
            if isinstance(node, ast.ImportFrom) and node.level == 0 and node.module and not node.module.startswith("chmpy") and id(node) not in guarded:
                for a in node.names:
                    n += 1
                    try:
                        mod = importlib.import_module(node.module)
                        ok = hasattr(mod, a.name)
                        if not ok:
                            try:
                                importlib.import_module(node.module + "." + a.name)
                                ok = True
                            except ImportError:
                                ok = False
                    except ImportError:
                        ok = False
                    if not ok:
                        missing.append({"function": f.qualname, "line": node.lineno, "statement": f"from {node.module} import {a.name}", "installed": _version(node.module)})
    ctx.ground("user_level/imports_resolve", not missing, fn=None,
               clause="every unguarded `from <third-party module> import <name>` executed by the colouring / smoothing / user-level surface functions resolves in the installed library "
                      "(otherwise every call of the function raises ImportError)", detail={"import_statements": n, "missing": missing[:3]}, witness=missing[0] if missing else None)


def _version(module):
    try:
        top = importlib.import_module(module.split(".")[0])
        return f"{module.split('.')[0]} {getattr(top, '__version__', '?')}"
    except Exception:  # noqa
        return "not installed"


# ======================================================================================================================
# P: mc/_mc.py::marching_cubes
# ======================================================================================================================
def wrapper_obligations(ctx, replay_for, thorough):
    f_mc = ctx.fn(MC, "marching_cubes")
    mcsrc = source.load_module(MC)
    lab = "mc._mc.marching_cubes/ensures/"
    V, F = 4, 4
    log = []

    def kernel(I, vol, level, luts, st=1, classic=0):
        nv = getattr(I, "_c06_nverts", V)
        kv = sym_matrix("kv", nv, 3)
        kf = sym_vector("kf", 3 * F, "int")
        kn = sym_matrix("kn", nv, 3)
        kval = sym_vector("kval", nv)
        log.append({"vol": vol, "level": level, "luts": luts, "st": st, "classic": classic, "out": (kv, kf, kn, kval)})
        return kv, kf, kn, kval

    models = {"chmpy.mc._mc_lewiner.marching_cubes": ModelFn("chmpy.mc._mc_lewiner.marching_cubes[C06: returns (vertices (V,3), flat faces (3F,), normals (V,3), values (V,)); mesh properties only B]", kernel)}
    contracts = {MC + "._get_lookup_tables": Contract(result=lambda I: "THE_LUTS")}
    I = new_interp(ctx, models, contracts)
    shapes = [(2, 2, 2)] + ([(2, 3, 2), (3, 2, 4)] if thorough else [(2, 3, 2)])
    lev = z3.Real("level")
    sp = tuple(z3.Real(f"s{i}") for i in range(3))

    def run(vol, level, kwargs, nverts=V):
        def thunk(I2, a, kw):
            del log[:]
            I2._c06_nverts = nverts
            out = I2.call(I2.lookup_global(mcsrc, "marching_cubes"), [vol, level], dict(kwargs))
            return out, list(log)
        return I.explore(thunk)

    rp_level = replay_for("level_above", "level_below", "raises")
    rp_map = replay_for("on_level", "promolecule_vertex_cell", "hirshfeld_vertex_cell")
    rp_orient = replay_for("orientation", "direction_flip", "orientation_components", "closed_manifold", "promolecule_outward", "hirshfeld_outward")

    for shp in shapes:
        sfx = "/shape" + "x".join(map(str, shp))
        cells = [z3.Real(f"d{i}_{j}_{k}") for i in range(shp[0]) for j in range(shp[1]) for k in range(shp[2])]
        vol = NDArr(obj_array(cells).reshape(shp), "f")
        inside = z3.And(z3.Or(*[lev >= c for c in cells]), z3.Or(*[lev <= c for c in cells]))      # min <= level <= max

        for gd in ("descent", "ascent"):
            def ob(gd=gd, vol=vol, cells=cells, inside=inside, sfx=sfx):
                res = run(vol, lev, {"spacing": sp, "gradient_direction": gd})
                gsfx = f"/{gd}{sfx}"
                rets = [r for r in res if r.kind == "return"]
                raises = [r for r in res if r.kind == "raise"]
                ctx.prove(lab + "outcomes" + gsfx, [], z3.BoolVal(len(rets) >= 1 and all(r.value.exc_type == "ValueError" for r in raises) and len(rets) + len(raises) == len(res)),
                          clause="on a 3-d volume with a valid direction and 3 spacings the wrapper either returns a mesh or raises ValueError", replay=rp_level, fn=f_mc)
                for k, r in enumerate(raises):
                    ctx.prove(lab + "raises_only_outside_range" + gsfx + (f"/path{k}" if len(raises) > 1 else ""), r.pc, z3.Not(inside),
                              clause="ValueError is raised only when the level is below the minimum or above the maximum of the volume", replay=rp_level, fn=f_mc)
                for k, r in enumerate(rets):
                    ps = gsfx + (f"/path{k}" if len(rets) > 1 else "")
                    cover(ctx, lab + "return_path" + ps, r.pc)
                    out, lg = r.value
                    ctx.prove(lab + "level_in_range" + ps, r.pc, inside, clause="a mesh is returned only for min(volume) <= level <= max(volume) (levels outside the data range raise)", replay=rp_level, fn=f_mc)
                    ok_shape = (isinstance(out, tuple) and len(out) == 4 and len(lg) == 1 and all(isinstance(x, NDArr) for x in out) and out[0].shape == (V, 3) and out[1].shape == (F, 3)
                                and out[2].shape == (V, 3) and out[3].shape == (V,))
                    ctx.prove(lab + "returns" + ps, [], z3.BoolVal(bool(ok_shape)), clause="returns (vertices (V,3), faces (F,3), normals (V,3), values (V,)) after exactly one kernel call", replay=rp_map, fn=f_mc)
                    if not ok_shape:
                        continue
                    e = lg[0]
                    kv, kf, kn, kval = e["out"]
                    ctx.prove(lab + "kernel_arguments" + ps, r.pc, z3.And(cells_equal(e["vol"], vol), same_scalar(e["level"], lev), z3.BoolVal(e["st"] == 1 and not e["classic"])), split=False,
                              clause="the kernel is run on the volume as given, at the requested level, step 1, Lewiner (not classic) mode", replay=rp_map, fn=f_mc)
                    ov, of, on, oval = out
                    ctx.prove(lab + "vertex_axis_order_and_spacing" + ps, r.pc, conj([to_real(ov.data[v, c]) == kv.data[v, 2 - c] * sp[c] for v in range(V) for c in range(3)]), split=False,
                              clause="vertex coordinate c is the kernel's coordinate 2 - c (kernel (x,y,z) -> array axes (0,1,2)) times spacing[c]", replay=rp_map, fn=f_mc)
                    ctx.prove(lab + "normal_axis_order" + ps, r.pc, conj([to_real(on.data[v, c]) == kn.data[v, 2 - c] for v in range(V) for c in range(3)]), split=False,
                              clause="normal components are reordered like the vertices", replay=rp_map, fn=f_mc)
                    ctx.prove(lab + "values_unchanged" + ps, r.pc, cells_equal(oval, kval), split=False, clause="values are the kernel's", replay=rp_map, fn=f_mc)
                    kff = kf.flat()          # `faces.shape = -1, 3` reshapes the kernel's array in place
                    want = (lambda t, j: kff[3 * t + (2 - j)]) if gd == "descent" else (lambda t, j: kff[3 * t + j])
                    ctx.prove(lab + "winding" + ps, r.pc, conj([of.data[t, j] == want(t, j) for t in range(F) for j in range(3)]), split=False,
                              clause=("'descent': every kernel triangle (a,b,c) is returned reversed (c,b,a)" if gd == "descent" else "'ascent': every kernel triangle is returned as it is"),
                              replay=rp_orient, fn=f_mc)
                ctx.safety("mc._mc.marching_cubes" + gsfx, res, replay=rp_map, fn=f_mc)
            ctx.attempt(lab + gd + sfx, ob, fn=f_mc)

    # ---- level None -> mid-range
    def ob_none():
        cells = [z3.Real(f"d{i}_{j}_{k}") for i in range(2) for j in range(2) for k in range(2)]
        vol = NDArr(obj_array(cells).reshape((2, 2, 2)), "f")
        res = run(vol, None, {})
        ok = len(res) == 1 and res[0].kind == "return" and len(res[0].value[1]) == 1
        ctx.prove(lab + "default_level/returns", [], z3.BoolVal(ok), clause="level=None: no range error, one kernel call", replay=rp_level, fn=f_mc)
        if ok:
            lv = res[0].value[1][0]["level"]
            goal = z3.Or(*[z3.And(2 * to_real(lv) == a + b, z3.And(*[a <= x for x in cells]), z3.And(*[b >= x for x in cells])) for a in cells for b in cells])
            ctx.prove(lab + "default_level/mid_range", res[0].pc, goal, clause="level=None uses (min + max) / 2 of the volume", replay=rp_level, fn=f_mc, split=False)
    ctx.attempt(lab + "default_level", ob_none, fn=f_mc)

    # ---- argument validation (concrete outcomes of the real code on symbolic data)
    def ob_args():
        cells = [z3.Real(f"d{i}_{j}_{k}") for i in range(2) for j in range(2) for k in range(2)]
        vol = NDArr(obj_array(cells).reshape((2, 2, 2)), "f")
        for name, v, kw, clause in (
                ("bad_direction", vol, {"gradient_direction": "sideways"}, "a gradient direction other than 'descent'/'ascent' raises ValueError on every path"),
                ("bad_spacing", vol, {"spacing": (sp[0], sp[1])}, "a spacing that does not have 3 components raises ValueError"),
                ("bad_ndim", NDArr(obj_array(cells[:4]).reshape((2, 2)), "f"), {}, "a volume that is not 3-d raises ValueError"),
                ("too_small", NDArr(obj_array(cells[:4]).reshape((1, 2, 2)), "f"), {}, "a volume with an axis shorter than 2 raises ValueError"),
                ("bad_step", vol, {"step_size": 0}, "step_size < 1 raises ValueError")):
            res = run(v, lev, kw)
            ok = len(res) >= 1 and all(r.kind == "raise" and r.value.exc_type == "ValueError" for r in res)
            ctx.prove(lab + "rejects/" + name, [], z3.BoolVal(ok), clause=clause, replay=replay_for(name, "bad_direction"), fn=f_mc)
        res = run(vol, lev, {}, nverts=0)
        ok = len(res) >= 1 and all(r.kind == "raise" and r.value.exc_type in ("ValueError", "RuntimeError") for r in res) and any(r.value.exc_type == "RuntimeError" for r in res)
        ctx.prove(lab + "rejects/empty_mesh", [], z3.BoolVal(ok), clause="an empty kernel result raises RuntimeError (no surface at this level) instead of returning an empty mesh", replay=rp_level, fn=f_mc)
    ctx.attempt(lab + "rejects", ob_args, fn=f_mc)

    # ---- L: orientation under the wrapper's vertex map (exact polynomial identity, given vertex_axis_order_and_spacing)
    o = [[z3.Real(f"o{v}_{c}") for c in range(3)] for v in range(4)]
    k = [[z3.Real(f"k{v}_{c}") for c in range(3)] for v in range(4)]
    hyps = [o[v][c] - k[v][2 - c] * sp[c] for v in range(4) for c in range(3)]
    r = ctx.prove_identity("lemma/axis_reversal_mirrors_orientation", [tetra(o) + sp[0] * sp[1] * sp[2] * tetra(k)], hyps,
                           clause="if o[v][c] == k[v][2-c] * s[c] then (o1-o0).((o2-o0)x(o3-o0)) == - s0 s1 s2 (k1-k0).((k2-k0)x(k3-k0)): with positive spacings the wrapper's axis reversal mirrors "
                                  "every oriented tetrahedron (triangle + any fourth vertex); 'descent' reverses each triangle once more, 'ascent' does not: the two directions are opposite orientations",
                           sampler=None, replay=rp_orient, fn=f_mc)
    r.tag = "L"


# ======================================================================================================================
# P: surface.py
# ======================================================================================================================
def surface_obligations(ctx, replay_for, thorough):
    grids = [(3, 4, 2)] + ([(2, 3, 5)] if thorough else [])
    for kind in ("promolecule", "stockholder"):
        for grid in grids:
            for smoothing, props in ((None, False), (None, True), ("laplacian", True)):
                name = "promolecule_density_isosurface" if kind == "promolecule" else "stockholder_weight_isosurface"
                f = ctx.fn(SURF, name)
                sfx = f"/grid{grid[0]}x{grid[1]}x{grid[2]}/" + ("smoothed" if smoothing else "raw") + ("+props" if props else "")
                ctx.attempt(f"surface.{name}/ensures{sfx}", lambda kind=kind, grid=grid, smoothing=smoothing, props=props, f=f, sfx=sfx: one_surface(ctx, replay_for, kind, grid, smoothing, props, f, sfx), fn=f)


def one_surface(ctx, replay_for, kind, grid, smoothing, props, f, sfx):
    NX, NY, NZ = grid
    V, F = 4, 4
    name = f.node.name
    lab = f"surface.{name}/ensures/"
    l = [z3.Real(f"l{i}") for i in range(3)]
    u = [z3.Real(f"u{i}") for i in range(3)]
    sep, iso = z3.Real("sep"), z3.Real("iso")
    lengths = {(str(l[0]), str(u[0])): NX, (str(l[1]), str(u[1])): NY, (str(l[2]), str(u[2])): NZ}
    mclog, smlog, fieldlog = [], [], []

    def mc_result(I, volume, level=None, spacing=(1, 1, 1), gradient_direction="descent", **kw):
        out = (sym_matrix("mv", V, 3), sym_matrix("mf", F, 3, "int"), sym_matrix("mn", V, 3), sym_vector("mval", V))
        mclog.append({"volume": volume, "level": level, "spacing": spacing, "gd": gradient_direction, "kw": kw, "out": out})
        return out

    def field_result(I, self, pts):
        pts = pts if isinstance(pts, NDArr) else NDArr(obj_array(pts))
        fieldlog.append(pts)
        if pts.ndim != 2 or pts.shape[1] != 3:
            from pyvc.values import PyRaise
            raise PyRaise("ValueError", "points must be (N,3)")
        return NDArr(obj_array([FIELD(to_real(pts.data[n, 0]), to_real(pts.data[n, 1]), to_real(pts.data[n, 2])) for n in range(pts.shape[0])]), "f")

    def bb_result(I, self, *a, **k):
        return (NDArr(obj_array(list(l)), "f"), NDArr(obj_array(list(u)), "f"))

    def dnorm_p(I, self, verts):
        n = verts.shape[0]
        return (sym_vector("di", n), sym_vector("dni", n), sym_matrix("vec", n, 3))

    def dnorm_s(I, self, verts):
        n = verts.shape[0]
        return tuple(sym_vector(p, n) for p in ("di", "de", "dni", "dne", "dp", "ang"))

    def smooth_result(I, verts, faces, **kw):
        out = (sym_matrix("sm", verts.shape[0], 3), sym_matrix("sf", faces.shape[0], 3, "int"))
        smlog.append({"verts": verts, "faces": faces, "out": out})
        return out

    contracts = {MC + ".marching_cubes": Contract(result=mc_result), SURF + ".smooth_laplacian": Contract(result=smooth_result),
                 DENS + ".PromoleculeDensity.rho": Contract(result=field_result), DENS + ".PromoleculeDensity.bb": Contract(result=bb_result),
                 DENS + ".PromoleculeDensity.d_norm": Contract(result=dnorm_p),
                 DENS + ".StockholderWeight.weights": Contract(result=field_result), DENS + ".StockholderWeight.bb": Contract(result=bb_result),
                 DENS + ".StockholderWeight.d_norm": Contract(result=dnorm_s)}
    models = {"numpy.arange": ModelFn("numpy.arange[C06: n = ceil((stop - start)/step) knots start + i*step, n fixed per axis by the harness and assumed]", make_arange(lengths))}
    I = new_interp(ctx, models, contracts)
    pos = sym_matrix("p", 2, 3)
    if kind == "promolecule":
        obj = shell(I, DENS, "PromoleculeDensity", positions=pos)
    else:
        obj = shell(I, DENS, "StockholderWeight", dens_a=shell(I, DENS, "PromoleculeDensity", positions=pos), dens_b=shell(I, DENS, "PromoleculeDensity", positions=sym_matrix("q", 2, 3)))
    surfsrc = source.load_module(SURF)

    def thunk(I2, a, kw):
        del mclog[:], smlog[:], fieldlog[:]
        out = I2.call(I2.lookup_global(surfsrc, name), [a[0]], {"isovalue": iso, "sep": sep, "props": props, "smoothing": smoothing})
        return out, list(mclog), list(smlog)
    res = I.explore(thunk, [obj])
    k_ = "promolecule" if kind == "promolecule" else "hirshfeld"
    rp_map = replay_for(f"{k_}_vertex_cell", f"{k_}_on_level", f"{k_}_inside_box", f"{k_}_encloses_atoms", f"{k_}_raises")
    rp_orient = replay_for(f"{k_}_outward", f"{k_}_closed")
    rp_level = replay_for(f"{k_}_outward", f"{k_}_on_level", f"{k_}_level_convergence", f"{k_}_vertex_cell", f"{k_}_raises", f"{k_}_encloses_atoms")
    ok_paths = len(res) == 1 and res[0].kind == "return"
    ctx.prove(lab + "returns" + sfx, [], z3.BoolVal(ok_paths), clause="for a positive separation and a non-empty box the function returns (one path)", replay=rp_map, fn=f)
    if not ok_paths:
        return
    r = res[0]
    cover(ctx, lab + "path" + sfx, r.pc)
    out, mcl, sml = r.value
    ok_struct = isinstance(out, NT) and out.fields == ["vertices", "faces", "normals", "vertex_prop"] and len(mcl) == 1 and len(sml) == (1 if smoothing else 0)
    ctx.prove(lab + "structure" + sfx, [], z3.BoolVal(ok_struct), clause="returns IsosurfaceMesh(vertices, faces, normals, vertex_prop) after exactly one mesher call" + (" and one smoothing call" if smoothing else " and no smoothing"),
              replay=rp_map, fn=f)
    if not ok_struct:
        return
    e = mcl[0]
    vol = e["volume"]
    ok_vol = isinstance(vol, NDArr) and vol.shape == (NY, NX, NZ)
    ctx.prove(lab + "grid_shape" + sfx, [], z3.BoolVal(bool(ok_vol)), clause="the sampled volume has shape (ny, nx, nz) for nx, ny, nz knots along x, y, z", replay=rp_map, fn=f)
    if not ok_vol:
        return
    # ---- the volume samples the field on the lattice l + (i, j, k) * sep, array axes (y, x, z)
    ctx.prove(lab + "sampling" + sfx, r.pc, conj([to_real(vol.data[j, i, k]) == FIELD(l[0] + i * sep, l[1] + j * sep, l[2] + k * sep) for j in range(NY) for i in range(NX) for k in range(NZ)]), split=False,
              clause="volume[j, i, k] == field(l + (i, j, k) * sep): the grid starts at the lower corner of the bounding box, array axes are (y, x, z)", replay=rp_map, fn=f, **FAST)
    spc = e["spacing"]
    spc = spc.flat() if isinstance(spc, NDArr) else list(spc) if isinstance(spc, (tuple, list)) else [None]
    ok_sp = len(spc) == 3 and all(x is not None for x in spc)
    ctx.prove(lab + "mesher_arguments" + sfx, r.pc, z3.And(same_scalar(e["level"], iso), z3.BoolVal(e["gd"] == "descent" and not e["kw"] and ok_sp), *([to_real(x) == sep for x in spc] if ok_sp else [])),
              split=False, clause="the mesher is asked for the requested isovalue, spacing (sep, sep, sep) and gradient_direction 'descent'", replay=rp_level, fn=f)
    if not ok_sp:
        return
    mv, mf, mn, mval = e["out"]
    ov, of = out.vals["vertices"], out.vals["faces"]
    # lattice positions actually sampled (arguments of the field applications in the volume)
    try:
        def node(j, i, k):
            c = vol.data[j, i, k]
            assert z3.is_app(c) and c.decl().name() == "field" and c.num_args() == 3
            return [c.arg(0), c.arg(1), c.arg(2)]
        O = node(0, 0, 0)
        e0 = [a - b for a, b in zip(node(1, 0, 0), O)]
        e1 = [a - b for a, b in zip(node(0, 1, 0), O)]
        e2 = [a - b for a, b in zip(node(0, 0, 1), O)]
        nodes = {(j, i, k): node(j, i, k) for j in range(NY) for i in range(NX) for k in range(NZ)}
    except Exception:  # noqa
        ctx.prove(lab + "lattice_affine" + sfx, r.pc, z3.BoolVal(False), clause="every cell of the volume is the field at one lattice point", replay=rp_map, fn=f)
        return
    ctx.prove(lab + "lattice_affine" + sfx, r.pc, conj([nodes[(j, i, k)][c] == O[c] + j * e0[c] + i * e1[c] + k * e2[c] for (j, i, k) in nodes for c in range(3)]), split=False,
              clause="the sample positions form the affine lattice O + a0 e0 + a1 e1 + a2 e2 in the array indices (a0, a1, a2)", replay=rp_map, fn=f, **FAST)
    t = [[z3.Real(f"t{v}_{c}") for c in range(3)] for v in range(V)]
    mesher_contract = [mv.data[v, c] == t[v][c] * to_real(spc[c]) for v in range(V) for c in range(3)]

    def lattice_point(tv):
        return [O[c] + tv[0] * e0[c] + tv[1] * e1[c] + tv[2] * e2[c] for c in range(3)]

    if not smoothing:
        ok_arr = isinstance(ov, NDArr) and ov.shape == (V, 3) and isinstance(of, NDArr) and of.shape == (F, 3)
        ctx.prove(lab + "arrays" + sfx, [], z3.BoolVal(bool(ok_arr)), clause="vertices (V,3) and faces (F,3) for the mesher's V vertices and F faces", replay=rp_map, fn=f)
        if not ok_arr:
            return
        for v in range(V):
            lp = lattice_point(t[v])
            ctx.prove(lab + f"index_to_cartesian/v{v}" + sfx, list(r.pc) + mesher_contract, conj([to_real(ov.data[v, c]) == lp[c] for c in range(3)]), split=False, algebra=False,
                      clause="a mesher vertex with array-index coordinates (t0, t1, t2) (mesher contract: coordinates = t * spacing in array-axis order) is returned at the Cartesian point "
                             "O + t0 e0 + t1 e1 + t2 e2 of the sampled lattice, i.e. exactly where the field has the interpolated value", replay=rp_map, fn=f, **FAST)
        ctx.prove(lab + "faces_unchanged" + sfx, r.pc, cells_equal(of, mf), split=False, clause="the triangles are the mesher's, index for index", replay=rp_orient, fn=f)
        rr = ctx.prove_identity(lab + "orientation_mirrored" + sfx, [tetra([[to_real(ov.data[v, c]) for c in range(3)] for v in range(4)]) + tetra([[mv.data[v, c] for c in range(3)] for v in range(4)])], [],
                                clause="(v1-v0).((v2-v0)x(v3-v0)) of the returned vertices == - the same for the mesher's: the (y,x,z)->(x,y,z) swap is an odd permutation, so index-order inward "
                                       "triangles ('descent', object greater than exterior) become outward triangles in the Cartesian frame", sampler=any_point, replay=rp_orient, fn=f)
    else:
        s = sml[0]
        sv, sf = s["out"]
        if kind == "promolecule":
            # smoothing after the map: smooth(P mv + l)
            vin = s["verts"]
            ok_arr = isinstance(vin, NDArr) and vin.shape == (V, 3) and isinstance(ov, NDArr) and ov.shape == (V, 3)
            ctx.prove(lab + "arrays" + sfx, [], z3.BoolVal(bool(ok_arr)), clause="the smoothing filter receives the V mapped vertices", replay=rp_map, fn=f)
            if not ok_arr:
                return
            for v in range(V):
                lp = lattice_point(t[v])
                ctx.prove(lab + f"index_to_cartesian/v{v}" + sfx, list(r.pc) + mesher_contract, conj([to_real(vin.data[v, c]) == lp[c] for c in range(3)]), split=False,
                          clause="the vertices handed to the smoothing filter are the Cartesian lattice points of the mesher vertices", replay=rp_map, fn=f, **FAST)
            ctx.prove(lab + "smoothing_dataflow" + sfx, r.pc, z3.And(cells_equal(s["faces"], mf), cells_equal(ov, sv), cells_equal(of, sf)), split=False,
                      clause="the filter gets the mesher's triangles; its vertices and faces are returned unchanged", replay=rp_orient, fn=f)
            ctx.prove_identity(lab + "orientation_mirrored" + sfx, [tetra([[to_real(vin.data[v, c]) for c in range(3)] for v in range(4)]) + tetra([[mv.data[v, c] for c in range(3)] for v in range(4)])], [],
                               clause="the mesh handed to the filter is the mirror image (odd axis permutation) of the mesher's", sampler=any_point, replay=rp_orient, fn=f)
        else:
            # smoothing before the map: P smooth(mv) + l
            ok_arr = isinstance(ov, NDArr) and ov.shape == (V, 3)
            ctx.prove(lab + "arrays" + sfx, [], z3.BoolVal(bool(ok_arr)), clause="V vertices are returned", replay=rp_map, fn=f)
            if not ok_arr:
                return
            ctx.prove(lab + "smoothing_dataflow" + sfx, r.pc, z3.And(cells_equal(s["verts"], mv), cells_equal(s["faces"], mf), cells_equal(of, sf)), split=False,
                      clause="the filter gets the mesher's vertices (index order, scaled) and triangles; its faces are returned unchanged", replay=rp_orient, fn=f)
            ts = [[z3.Real(f"ts{v}_{c}") for c in range(3)] for v in range(V)]
            smc = [sv.data[v, c] == ts[v][c] * to_real(spc[c]) for v in range(V) for c in range(3)]
            for v in range(V):
                lp = lattice_point(ts[v])
                ctx.prove(lab + f"index_to_cartesian/v{v}" + sfx, list(r.pc) + smc, conj([to_real(ov.data[v, c]) == lp[c] for c in range(3)]), split=False,
                          clause="a smoothed vertex with array-index coordinates t (coordinates = t * spacing) is returned at the Cartesian lattice point O + t0 e0 + t1 e1 + t2 e2", replay=rp_map, fn=f, **FAST)
            ctx.prove_identity(lab + "orientation_mirrored" + sfx, [tetra([[to_real(ov.data[v, c]) for c in range(3)] for v in range(4)]) + tetra([[sv.data[v, c] for c in range(3)] for v in range(4)])], [],
                               clause="the returned mesh is the mirror image (odd axis permutation) of the filter's output", sampler=any_point, replay=rp_orient, fn=f)
    if props:
        vp = out.vals["vertex_prop"]
        want = {"d_i", "d_norm_i"} if kind == "promolecule" else {"d_i", "d_e", "d_norm_i", "d_norm_e", "d_norm", "dp", "angle"}
        ok = isinstance(vp, dict) and set(vp) == want and all(isinstance(x, NDArr) and x.shape == (V,) for x in vp.values())
        ctx.prove(lab + "vertex_properties" + sfx, [], z3.BoolVal(bool(ok)), clause="one value per vertex for each surface property", replay=replay_for(f"{k_}_props"), fn=f)
    ctx.safety(f"surface.{name}" + sfx, res, replay=rp_map, fn=f)


# ======================================================================================================================
# P: bounding boxes
# ======================================================================================================================
def bb_obligations(ctx, replay_for, thorough):
    rp = replay_for("promolecule_bb", "hirshfeld_bb", "promolecule_inside_box", "hirshfeld_inside_box", "hirshfeld_encloses_atoms", "hirshfeld_raises")
    for cls in ("PromoleculeDensity", "StockholderWeight"):
        f = ctx.fn(DENS, cls + ".bb")
        for n in ([1, 2, 3, 5] if thorough else [1, 2, 3]):
            def ob(cls=cls, f=f, n=n):
                I = new_interp(ctx)
                p, rad = sym_matrix("p", n, 3), sym_vector("r", n)
                own = shell(I, DENS, "PromoleculeDensity", positions=p, vdw_radii=rad)
                if cls == "PromoleculeDensity":
                    obj = own
                else:
                    other = shell(I, DENS, "PromoleculeDensity", positions=sym_matrix("q", 2, 3), vdw_radii=sym_vector("rq", 2))
                    obj = shell(I, DENS, "StockholderWeight", dens_a=own, dens_b=other)
                res = I.run(f, [obj])
                lab = f"interpolate.density.{cls}.bb/ensures/"
                sfx = f"/N{n}"
                ok = len(res) == 1 and res[0].kind == "return" and isinstance(res[0].value, tuple) and len(res[0].value) == 2 and all(isinstance(x, NDArr) and x.shape == (3,) for x in res[0].value)
                ctx.prove(lab + "returns" + sfx, [], z3.BoolVal(bool(ok)), clause="returns (lower, upper), two 3-vectors", replay=rp, fn=f)
                if not ok:
                    return
                lo, up = res[0].value
                m = [rad.data[a] + z3.RealVal("3.8") for a in range(n)]
                ctx.prove(lab + "contains_atoms_with_margin" + sfx, res[0].pc, conj([z3.And(to_real(lo.data[c]) <= p.data[a, c] - m[a], to_real(up.data[c]) >= p.data[a, c] + m[a]) for a in range(n) for c in range(3)]),
                          split=False, clause="every atom of the molecule lies at least vdW radius + 3.8 A inside the box, along every axis", replay=rp, fn=f)
                ctx.prove(lab + "tight" + sfx, res[0].pc, conj([z3.And(z3.Or(*[to_real(lo.data[c]) == p.data[a, c] - m[a] for a in range(n)]), z3.Or(*[to_real(up.data[c]) == p.data[a, c] + m[a] for a in range(n)]))
                                                                for c in range(3)]), split=False, clause="each face of the box is attained by some atom (the box is atoms -+ (vdW + 3.8), not larger)", replay=rp, fn=f)
                ctx.safety(f"interpolate.density.{cls}.bb" + sfx, res, replay=rp, fn=f)
            ctx.attempt(f"interpolate.density.{cls}.bb/ensures/N{n}", ob, fn=f)


# ======================================================================================================================
# P: user-level wrappers
# ======================================================================================================================
def iso_record(prefix, V, F, names):
    vp = {n: sym_vector(f"{prefix}{n}_", V) for n in names}
    return NT("IsosurfaceMesh", ["vertices", "faces", "normals", "vertex_prop"],
              dict(vertices=sym_matrix(prefix + "v", V, 3), faces=sym_matrix(prefix + "f", F, 3, "int"), normals=sym_matrix(prefix + "n", V, 3), vertex_prop=vp))


def user_level_obligations(ctx, replay_for):
    rp = replay_for("user_level_alias", "user_level_raises", "user_level_closed", "user_level_outward", "user_level_encloses", "user_level_colours", "colour_path")
    # ---- Molecule.promolecule_density_isosurface
    f = ctx.fn("chmpy.core.molecule", "Molecule.promolecule_density_isosurface")
    lab = "core.molecule.Molecule.promolecule_density_isosurface/ensures/"

    def ob_mol():
        log = []

        def init_c(I, self, mol):
            log.append(("init", self, mol))
            return None

        def iso_c(I, promol, **kw):
            rec = iso_record("i", 3, 2, ["d_i", "d_norm_i"] + sorted((kw.get("extra_props") or {}).keys()))
            log.append(("iso", promol, kw, rec))
            return rec

        def col_c(I, prop, **kw):
            c = sym_matrix("col", prop.shape[0], 4)
            log.append(("color", prop, kw, c))
            return c
        contracts = {DENS + ".PromoleculeDensity.__init__": Contract(result=init_c), SURF + ".promolecule_density_isosurface": Contract(result=iso_c),
                     "chmpy.util.color.property_to_color": Contract(result=col_c)}
        I = new_interp(ctx, None, contracts)
        zs, ps = sym_vector("z", 2, "int"), sym_matrix("p", 2, 3)
        mol = shell(I, "chmpy.core.molecule", "Molecule", atomic_numbers=zs, positions=ps)
        sepv, isov = z3.Real("sep"), z3.Real("iso")
        for tag, kw, want_sep, want_iso, want_col in (("defaults", {}, Fraction(1, 5), Fraction(1, 500), "d_norm_i"), ("separation", {"separation": sepv, "isovalue": isov}, sepv, isov, "d_norm_i"),
                                                        ("resolution_alias", {"resolution": sepv, "color": "d_i"}, sepv, Fraction(1, 500), "d_i")):
            def thunk(I2, a, k2, kw=kw):
                del log[:]
                out = I2.call(I2.getattr(a[0], "promolecule_density_isosurface"), [], dict(kw))
                return out, list(log)
            res = I.explore(thunk, [mol])
            ok = len(res) == 1 and res[0].kind == "return" and [x[0] for x in res[0].value[1]] == ["init", "iso", "color"]
            ctx.prove(lab + "sequence/" + tag, [], z3.BoolVal(ok), clause="builds one PromoleculeDensity, computes one isosurface, colours it once, returns", replay=rp, fn=f)
            if not ok:
                continue
            out, lg = res[0].value
            init, iso, col = lg
            molarg = init[2]
            ok_mol = isinstance(molarg, tuple) and len(molarg) == 2
            ctx.prove(lab + "density_of_this_molecule/" + tag, res[0].pc, z3.And(z3.BoolVal(ok_mol), cells_equal(molarg[0], zs) if ok_mol else z3.BoolVal(False), cells_equal(molarg[1], ps) if ok_mol else z3.BoolVal(False)),
                      split=False, clause="the promolecule density is built from (atomic_numbers, positions) of this molecule: the surface lives in the molecule's Cartesian frame", replay=rp, fn=f)
            kwi = iso[2]
            ctx.prove(lab + "arguments/" + tag, res[0].pc, z3.And(z3.BoolVal(iso[1] is init[1] and set(kwi) <= {"sep", "isovalue", "extra_props"} and "sep" in kwi and "isovalue" in kwi),
                                                                 same_scalar(kwi.get("sep"), want_sep), same_scalar(kwi.get("isovalue"), want_iso)), split=False,
                      clause="isovalue (default 0.002) and separation (alias resolution, default 0.2) reach promolecule_density_isosurface for that density", replay=rp, fn=f)
            rec = iso[3]
            ok_mesh = isinstance(out, NT) and out.name == "Trimesh" and out.vals["vertices"] is rec.vals["vertices"] and out.vals["faces"] is rec.vals["faces"] and out.vals["kwargs"].get("vertex_colors") is col[3]
            ctx.prove(lab + "mesh/" + tag, [], z3.BoolVal(bool(ok_mesh)), clause="the trimesh is built from the isosurface's vertices and faces, unchanged, with the computed vertex colours", replay=rp, fn=f)
            ctx.prove(lab + "colour_source/" + tag, [], z3.BoolVal(col[1] is rec.vals["vertex_prop"].get(want_col) and col[2].get("cmap") == want_col),
                      clause="colours come from the vertex property named by `color` (default d_norm_i)", replay=rp, fn=f)
    ctx.attempt(lab + "all", ob_mol, fn=f)

    # ---- Crystal.stockholder_weight_isosurfaces(kind='mol')
    g = ctx.fn("chmpy.crystal.crystal", "Crystal.stockholder_weight_isosurfaces")
    lab2 = "crystal.crystal.Crystal.stockholder_weight_isosurfaces/ensures/"

    def ob_cry():
        log = []
        NM = 2
        envs = []

        def env_c(I, self, radius=None, **kw):
            log.append(("env", radius, kw))
            del envs[:]
            for m in range(NM):
                mol = shell(I, "chmpy.core.molecule", "Molecule", atomic_numbers=sym_vector(f"z{m}_", 2, "int"), positions=sym_matrix(f"p{m}_", 2, 3))
                envs.append((mol, sym_vector(f"ne{m}_", 3, "int"), sym_matrix(f"np{m}_", 3, 3)))
            return list(envs)

        def fa_c(I, cls, n1, p1, n2, p2, **kw):
            o = NT("StockholderWeight", ["n1", "p1", "n2", "p2", "kw"], dict(n1=n1, p1=p1, n2=n2, p2=p2, kw=kw))
            log.append(("from_arrays", o))
            return o
        cnt = [0]

        def iso_c(I, s, **kw):
            names = ["d_i", "d_e", "d_norm_i", "d_norm_e", "d_norm", "dp", "angle"] + sorted((kw.get("extra_props") or {}).keys())
            rec = iso_record(f"i{cnt[0]}", 3, 2, names)
            cnt[0] += 1
            log.append(("iso", s, kw, rec))
            return rec

        def col_c(I, prop, **kw):
            c = sym_matrix(f"col{len(log)}_", prop.shape[0], 4)
            log.append(("color", prop, kw, c))
            return c
        contracts = {"chmpy.crystal.crystal.Crystal.molecule_environments": Contract(result=env_c), DENS + ".StockholderWeight.from_arrays": Contract(result=fa_c),
                     SURF + ".stockholder_weight_isosurface": Contract(result=iso_c), "chmpy.util.color.property_to_color": Contract(result=col_c)}
        I = new_interp(ctx, None, contracts)
        cr = shell(I, "chmpy.crystal.crystal", "Crystal")
        sepv, isov, radv = z3.Real("sep"), z3.Real("iso"), z3.Real("rad")
        for tag, kw, want_sep, want_iso, want_rad, want_col in (("defaults", {}, Fraction(1, 5), Fraction(1, 2), 12, "d_norm"), ("explicit", {"separation": sepv, "isovalue": isov, "radius": radv, "color": "d_e"}, sepv, isov, radv, "d_e")):
            def thunk(I2, a, k2, kw=kw):
                del log[:]
                cnt[0] = 0
                out = I2.call(I2.getattr(a[0], "stockholder_weight_isosurfaces"), [], dict(kw))
                return out, list(log), list(envs)
            res = I.explore(thunk, [cr])
            seq = ["env"] + ["from_arrays", "iso"] * NM + ["color"] * NM
            ok = len(res) == 1 and res[0].kind == "return" and [x[0] for x in res[0].value[1]] == seq and isinstance(res[0].value[0], list) and len(res[0].value[0]) == NM
            ctx.prove(lab2 + "sequence/" + tag, [], z3.BoolVal(bool(ok)), clause="one environment query, then per symmetry-unique molecule one StockholderWeight and one isosurface, then one colouring and one mesh each", replay=rp, fn=g)
            if not ok:
                continue
            out, lg, ev = res[0].value
            ctx.prove(lab2 + "radius/" + tag, res[0].pc, same_scalar(lg[0][1], want_rad), clause="the neighbour radius (default 12) reaches molecule_environments", replay=rp, fn=g)
            for m in range(NM):
                fa, iso = lg[1 + 2 * m][1], lg[2 + 2 * m]
                mol, n_e, n_p = ev[m]
                ctx.prove(lab2 + f"inside_outside/{tag}/mol{m}", res[0].pc, z3.And(cells_equal(fa.vals["n1"], mol.fields["atomic_numbers"]), cells_equal(fa.vals["p1"], mol.fields["positions"]),
                                                                                    cells_equal(fa.vals["n2"], n_e), cells_equal(fa.vals["p2"], n_p), z3.BoolVal(not fa.vals["kw"])), split=False,
                          clause="the stockholder weight is that of the molecule (interior: its own atoms) against its neighbours (exterior), in the crystal's Cartesian frame", replay=rp, fn=g)
                kwi = iso[2]
                ctx.prove(lab2 + f"arguments/{tag}/mol{m}", res[0].pc, z3.And(z3.BoolVal(iso[1] is fa and set(kwi) <= {"sep", "isovalue", "extra_props"} and "sep" in kwi and "isovalue" in kwi),
                                                                                same_scalar(kwi.get("sep"), want_sep), same_scalar(kwi.get("isovalue"), want_iso)), split=False,
                          clause="isovalue (default 0.5) and separation (default 0.2) reach stockholder_weight_isosurface for that weight function", replay=rp, fn=g)
                rec, col, mesh = iso[3], lg[1 + 2 * NM + m], out[m]
                ok_mesh = (isinstance(mesh, NT) and mesh.name == "Trimesh" and mesh.vals["vertices"] is rec.vals["vertices"] and mesh.vals["faces"] is rec.vals["faces"]
                           and mesh.vals["kwargs"].get("vertex_colors") is col[3] and col[1] is rec.vals["vertex_prop"].get(want_col)
                           and all(mesh.vals["vertex_attributes"].get(k) is v for k, v in rec.vals["vertex_prop"].items()))
                ctx.prove(lab2 + f"mesh/{tag}/mol{m}", [], z3.BoolVal(bool(ok_mesh)), clause="mesh m is built from isosurface m's vertices and faces, unchanged, coloured by the requested property, carrying every vertex property",
                          replay=rp, fn=g)
    ctx.attempt(lab2 + "all", ob_cry, fn=g)
